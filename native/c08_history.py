"""C08 bounded stand-in (labelled bounded): register / simulator agreement over HISTORIES.

Every history of New / Del / gate / (optional) measurement commands up to a length bound, split over
one or two consecutive program segments on one engine, on each backend.  Independent oracle: a
plain list of the indices that should be alive (a new mode gets the next never-used index).  After
every segment: Program.register, backend.get_modes(), state.num_modes, state.mode_names and the mean
photon number of every returned mode (each mode carries its own coherent amplitude) must match the
oracle; earlier (parent) programs keep their own register; acting on a deleted mode raises.
usage: c08_history.py <tier> <seed>
"""
import itertools, os, sys, warnings, random
warnings.filterwarnings("ignore")
sys.path.insert(0, os.path.dirname(os.path.dirname(os.path.abspath(__file__))))
import numpy as np
import strawberryfields as sf
from strawberryfields import ops
from strawberryfields.program_utils import RegRefError
from native.common import emit_bounded

tier = sys.argv[1] if len(sys.argv) > 1 else "quick"
seed = int(sys.argv[2]) if len(sys.argv) > 2 else 0
V, EVAL, SAMPLES, KNOWN = [], [0], [], []


def bad(msg, fid="-"):
    V.append(msg)
    d = os.path.join(os.path.dirname(os.path.dirname(os.path.abspath(__file__))), "replays", "C08")
    os.makedirs(d, exist_ok=True)
    p = os.path.join(d, f"bounded_history_{len(V)}.py")
    with open(p, "w") as f:
        f.write("# replay of a bounded stand-in violation (C08): re-run native/c08_history.py\nimport sys\nprint(%r)\nprint('REPLAY-VIOLATION')\nsys.exit(1)\n" % msg)
    print(f"NATIVE-VIOLATION finding={fid} replay={p} {msg}")


def amp(k):
    return 0.15 + 0.06 * k


OPS = ["N1", "N2", "D0", "D1", "Dlast", "G0", "G1"]   # New(1), New(2), Del position 0 / 1 / last alive, gate on position 0 / 1


def run_history(backend, n0, segments):
    """segments: list of lists of op symbols.  Returns error text or None."""
    EVAL[0] += 1
    kw = {"cutoff_dim": 4} if backend == "fock" else {}
    eng = sf.Engine(backend, backend_options=kw)
    alive = list(range(n0))
    created = n0
    amps = {k: 0.0 for k in range(n0)}      # x-displacement (in units of alpha) of every mode ever created
    sq = {k: 0.0 for k in range(n0)}        # its squeezing: <n> = sinh(r)^2 + amp^2 (all phases 0)
    prog = None
    progs = []
    for si, seg in enumerate(segments):
        prog = sf.Program(n0) if prog is None else sf.Program(prog)
        snapshot_prev = [(p, [r.ind for r in p.register]) for p, _ in progs]
        with prog.context as q:
            regs = {r.ind: r for r in prog.register}
            if si == 0:
                for k in range(n0):
                    ops.Coherent(amp(k)) | regs[k]
                    amps[k] = amp(k)
                    sq[k] = 0.0
            for sym in seg:
                if sym in ("N1", "N2"):
                    cnt = 1 if sym == "N1" else 2
                    new = ops.New(cnt)
                    new = new if isinstance(new, (list, tuple)) else [new]
                    inds = [r.ind for r in new]
                    exp = list(range(created, created + cnt))
                    if inds != exp:
                        return f"{backend} {segments}: New({cnt}) returned modes {inds}, expected fresh indices {exp}"
                    for r in new:
                        regs[r.ind] = r
                        alive.append(r.ind)
                        ops.Coherent(amp(r.ind)) | r
                        amps[r.ind] = amp(r.ind)
                        sq[r.ind] = 0.0
                    created += cnt
                elif sym.startswith("Dm"):
                    # ONE Del command naming several modes, in the order given (positions among the alive modes)
                    pos = [int(ch) for ch in sym[2:]]
                    if max(pos) >= len(alive):
                        continue
                    ks = [alive[p_] for p_ in pos]
                    ops.Del | tuple(regs[k] for k in ks)
                    for k in ks:
                        alive.remove(k)
                elif sym in ("D0", "D1", "Dlast"):
                    if not alive:
                        continue
                    pos = {"D0": 0, "D1": 1, "Dlast": len(alive) - 1}[sym]
                    if pos >= len(alive):
                        continue
                    k = alive[pos]
                    ops.Del | regs[k]
                    alive.remove(k)
                    # acting on the deleted mode must be rejected
                    try:
                        ops.Rgate(0.1) | regs[k]
                        return f"{backend} {segments}: gate on deleted mode {k} was accepted"
                    except RegRefError:
                        pass
                else:
                    pos = 0 if sym == "G0" else 1
                    if pos >= len(alive):
                        continue
                    # a gate that changes the data of exactly the addressed mode: displacement on position 0, squeezing
                    # (once per mode, then displacement) on position 1
                    k = alive[pos]
                    if sym == "G1" and sq[k] == 0.0:
                        ops.Sgate(0.3) | regs[k]
                        amps[k] *= np.exp(-0.3)
                        sq[k] = 0.3
                    else:
                        ops.Dgate(0.1) | regs[k]
                        amps[k] += 0.1
        # the parents' registers are not affected by building the child
        for p, reg in snapshot_prev:
            if [r.ind for r in p.register] != reg:
                return f"{backend} {segments}: building segment {si} changed the register of an earlier program from {reg} to {[r.ind for r in p.register]}"
        if [r.ind for r in prog.register] != alive:
            return f"{backend} {segments}: after building segment {si} Program.register is {[r.ind for r in prog.register]}, expected {alive}"
        try:
            res = eng.run(prog)
        except Exception as e:
            return f"{backend} {segments}: running segment {si} of a valid history raised {type(e).__name__}: {e}"
        progs.append((prog, list(alive)))
        for p, reg in progs:
            if [r.ind for r in p.register] != reg:
                return f"{backend} {segments}: after running segment {si} the register of segment {progs.index((p, reg))} is {[r.ind for r in p.register]}, expected {reg}"
        gm = list(eng.backend.get_modes())
        if gm != alive:
            return f"{backend} {segments}: after segment {si} backend.get_modes() = {gm}, expected {alive}"
        st = res.state
        if alive:
            if st.num_modes != len(alive):
                return f"{backend} {segments}: after segment {si} state.num_modes = {st.num_modes}, expected {len(alive)}"
            names = [st.mode_names[j] for j in range(st.num_modes)]
            if names != [f"q[{k}]" for k in alive]:
                return f"{backend} {segments}: after segment {si} state.mode_names = {names}, expected {[f'q[{k}]' for k in alive]}"
            for j, k in enumerate(alive):
                mp = st.mean_photon(j)[0]
                exp_n = amps[k] ** 2 + np.sinh(sq[k]) ** 2
                if abs(mp - exp_n) > (3e-2 if backend == "fock" else 1e-8):
                    return f"{backend} {segments}: after segment {si} returned mode {j} (labelled q[{k}]) has mean photon number {mp:.4f}, its own data would give {exp_n:.4f}"
    return None


# known findings are identified by the specific history that fails (see known_findings.json)
def classify(backend, segments, msg):
    """known findings are identified by backend + where in the history the failure occurs + its kind"""
    import re
    m = re.search(r"segment (\d+)", msg)
    si = int(m.group(1)) if m else 0
    if backend == "bosonic" and si >= 1:
        return "F9"        # BosonicBackend.run_prog re-initialises the circuit for every program segment
    if backend == "bosonic" and "N2" in segments[si] and " raised " in msg:
        return "F8"        # BosonicBackend.init_circuit / BosonicModes.add_mode with New(n>1)
    return "-"


if __name__ == "__main__":
    L = 3 if tier == "quick" else 4
    backends = ["gaussian", "fock", "bosonic"]
    rng = random.Random(seed)
    seen_known = set()
    try:
        for backend in backends:
            for n0 in (1, 2):
                for ln in range(1, L + 1):
                    for seq in itertools.product(OPS, repeat=ln):
                        if not any(s[0] in "ND" for s in seq):
                            continue
                        if backend == "fock" and (sum(2 if s == "N2" else 1 for s in seq if s[0] == "N") + n0 > 4):
                            continue
                        splits = [[list(seq)]]
                        if ln >= 2:
                            cut = rng.randint(1, ln - 1) if tier == "quick" else None
                            cuts = [cut] if cut else range(1, ln)
                            for c in cuts:
                                splits.append([list(seq[:c]), list(seq[c:])])
                        for segs in splits:
                            msg = run_history(backend, n0, segs)
                            if msg:
                                fid = classify(backend, segs, msg)
                                if fid != "-":
                                    if fid not in seen_known:
                                        seen_known.add(fid)
                                        bad(msg, fid)
                                    continue
                                bad(msg)
                                break
                        if any(True for v in V if False):
                            break
                    if len([1 for _ in V]) - len(seen_known) > 0:
                        break
        # one Del command naming several modes in every order, alone and after / before other register changes
        for backend in backends:
            for n0 in (2, 3):
                for r in (2, 3):
                    for pos in itertools.permutations(range(n0 + 1), r):
                        for segs in ([["N1", "Dm" + "".join(map(str, pos)), "G0"]], [["N1"], ["Dm" + "".join(map(str, pos)), "N1", "G1"]]):
                            if backend == "fock" and n0 + 2 > 4:
                                continue
                            msg = run_history(backend, n0, segs)
                            if msg:
                                fid = classify(backend, segs, msg)
                                if fid != "-":
                                    if fid not in seen_known:
                                        seen_known.add(fid)
                                        bad(msg, fid)
                                    continue
                                bad(msg)
        SAMPLES.append({"backend": "gaussian", "n0": 2, "segments": [["D0", "N1"], ["Dlast"]]})
    except Exception:
        import traceback
        traceback.print_exc()
        print("bounded stand-in crashed")
        sys.exit(3)
    emit_bounded("c08_history", EVAL[0], EVAL[0], SAMPLES, len(V))
    sys.exit(1 if V else 0)
