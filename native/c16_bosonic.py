"""native replay for the BaseBosonicState contracts (C16): the verifier's counter-model (weights, means, covariances,
angle, mode) is turned into a real BaseBosonicState and the contract clause is evaluated with plain numpy."""
import itertools, os, sys, warnings
warnings.filterwarnings("ignore")
sys.path.insert(0, os.path.dirname(os.path.dirname(os.path.abspath(__file__))))
import numpy as np


def build(I):
    from strawberryfields.backends.states import BaseBosonicState
    K, M = int(I["K"]), int(I["M"])
    w = np.array([float(I.get(f"w{i}", 0.0)) for i in range(K)])
    mus = np.array([[float(I.get(f"m{i}_{a}", 0.0)) for a in range(2 * M)] for i in range(K)])
    covs = np.array([[[float(I.get(f"c{i}_{a}_{b}", 0.0)) for b in range(2 * M)] for a in range(2 * M)] for i in range(K)])
    st = BaseBosonicState((mus, covs, w), M, K)      # hbar = 2: no rescaling
    return st, w, mus, covs


def check_quad(I):
    st, w, mus, covs = build(I)
    mode, phi = int(I["mode"]), float(I.get("phi", 0.0))
    mean, var = st.quad_expectation(mode, phi)
    c, s = np.cos(phi), np.sin(phi)
    a, b = 2 * mode, 2 * mode + 1
    mi = c * mus[:, a] + s * mus[:, b]
    vi = c * c * covs[:, a, a] + c * s * (covs[:, a, b] + covs[:, b, a]) + s * s * covs[:, b, b]
    m_spec = np.sum(w * mi)
    v_spec = np.sum(w * (vi + mi ** 2)) - m_spec ** 2
    scale = 1 + abs(v_spec) + abs(m_spec)
    if abs(mean - m_spec) > 1e-8 * scale:
        return f"quad_expectation({mode},{phi}) mean {mean} but the weighted mean of the rotated quadrature is {m_spec}"
    if abs(var - v_spec) > 1e-8 * scale:
        return f"quad_expectation({mode},{phi}) variance {var} but sum_i w_i (sigma_i + m_i^2) - mean^2 = {v_spec}"


def check_mean_photon(I):
    st, w, mus, covs = build(I)
    mode = int(I["mode"])
    mean, var = st.mean_photon(mode)
    a, b = 2 * mode, 2 * mode + 1
    ni = (covs[:, a, a] + covs[:, b, b] + mus[:, a] ** 2 + mus[:, b] ** 2) / 4 - 0.5
    V = covs[:, [a, b], :][:, :, [a, b]]
    mu = mus[:, [a, b]]
    trv2 = np.einsum("kab,kba->k", V, V)
    mvm = np.einsum("ka,kab,kb->k", mu, V, mu)
    m_spec = np.sum(w * ni)
    v_spec = np.sum(w * ((trv2 + 2 * mvm) / 8 - 0.25 + ni ** 2)) - m_spec ** 2
    scale = 1 + abs(v_spec) + abs(m_spec)
    if abs(mean - m_spec) > 1e-8 * scale:
        return f"mean_photon({mode}) = {mean} but the requested mode has {m_spec}"
    if abs(var - v_spec) > 1e-8 * scale:
        return f"mean_photon({mode}) variance {var} but the requested mode has {v_spec}"


def check_reduced(I):
    st, w, mus, covs = build(I)
    modes = list(I["modes"])
    rw, rm, rc = st.reduced_bosonic(modes)
    ind = [x for m in modes for x in (2 * m, 2 * m + 1)]
    if not (np.array_equal(rw, w) and np.array_equal(rm, mus[:, ind]) and np.array_equal(rc, covs[:, ind][:, :, ind])):
        return f"reduced_bosonic({modes}) does not return the data of exactly these modes in (x,p) order"


def _battery(with_modes):
    rng = np.random.RandomState(7)
    out = []
    for K, M in ((2, 2), (3, 3)):
        for _ in range(4):
            I = {"K": K, "M": M, "phi": float(rng.uniform(-3, 3))}
            ws = rng.uniform(-0.5, 1.5, K); ws /= ws.sum()
            for i in range(K):
                I[f"w{i}"] = float(ws[i])
                A = rng.normal(size=(2 * M, 2 * M)); C = A @ A.T + np.eye(2 * M)
                for a in range(2 * M):
                    I[f"m{i}_{a}"] = float(rng.normal())
                    for b in range(2 * M):
                        I[f"c{i}_{a}_{b}"] = float(C[a, b])
            for mode in range(M):
                J = dict(I); J["mode"] = mode
                if with_modes:
                    for r in range(1, M + 1):
                        for c in itertools.combinations(range(M), r):
                            J2 = dict(J); J2["modes"] = list(c); out.append(J2)
                else:
                    out.append(J)
    return out


def check_marginal(I):
    """marginal(mode, xvec, phi) against the mixture of Gaussian densities of the rotated quadrature (same moments as quad_expectation)"""
    st, w, mus, covs = build(I)
    mode, phi = int(I["mode"]), float(I.get("phi", 0.0))
    c, s = np.cos(phi), np.sin(phi)
    a, b = 2 * mode, 2 * mode + 1
    mi = c * mus[:, a] + s * mus[:, b]
    vi = c * c * covs[:, a, a] + c * s * (covs[:, a, b] + covs[:, b, a]) + s * s * covs[:, b, b]
    if np.any(vi <= 1e-9):
        return None
    xs = np.linspace(-3, 3, 13)
    got = np.asarray(st.marginal(mode, xs, phi), dtype=complex)
    want = sum(w[i] * np.exp(-(xs - mi[i]) ** 2 / (2 * vi[i])) / np.sqrt(2 * np.pi * vi[i]) for i in range(len(w)))
    if not np.allclose(got, want, atol=1e-9 * (1 + abs(want).max())):
        return (f"marginal({mode}, x, phi={phi:.3f}) differs from the mixture of the Gaussian densities of x_phi = cos(phi) x + sin(phi) p "
                f"(max difference {abs(got - want).max():.3g}; component variances of x_phi: {np.round(vi, 4).tolist()})")


CHECKS = {"quad": check_quad, "mean_photon": check_mean_photon, "reduced": check_reduced, "marginal": check_marginal}


def replay(kind, obligation, I):
    from native.common import run_replay
    run_replay(obligation, I, CHECKS[kind], _battery(kind == "reduced"))
