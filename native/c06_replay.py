"""native replay of contracts/c06_measure.py GaussianBackend.measure_fock / measure_threshold: a displaced, correlated real
Gaussian state; thewalrus' sampler is replaced by a recorder; the (mean, covariance) it is handed must be the moments of
the measured modes, in the listed order, as reported by the state object itself."""
import itertools, warnings
warnings.filterwarnings("ignore")
import numpy as np


def check(which):
    def run(I):
        import strawberryfields as sf
        from strawberryfields import ops
        import strawberryfields.backends.gaussianbackend.backend as gb
        for n in (2, 3):
            subsets = [list(c) for r in range(1, n + 1) for c in itertools.permutations(range(n), r)]
            for modes in subsets:
                eng = sf.Engine("gaussian")
                prog = sf.Program(n)
                with prog.context as q:
                    for k in range(n):
                        ops.Sgate(0.2 + 0.1 * k, 0.4 * k) | q[k]
                        ops.Dgate(0.3 + 0.2 * k, 0.5 + 0.9 * k) | q[k]
                    ops.BSgate(0.4, 0.3) | (q[0], q[n - 1])
                st = eng.run(prog).state
                mu, cov = st.means(), st.cov()
                seen = []
                old_h, old_t = gb.hafnian_sample_state, gb.torontonian_sample_state
                gb.hafnian_sample_state = lambda cov, shots, mean=None, **kw: (seen.append((mean, cov)), np.zeros((shots, len(modes)), dtype=int))[1]
                gb.torontonian_sample_state = lambda mu=None, cov=None, samples=1, **kw: (seen.append((mu, cov)), np.zeros((samples, len(modes)), dtype=int))[1]
                try:
                    getattr(eng.backend, which)(list(modes), shots=1)
                finally:
                    gb.hafnian_sample_state, gb.torontonian_sample_state = old_h, old_t
                idx = list(modes) + [m + n for m in modes]
                mean, c = seen[0]
                if mean is None or not np.allclose(mean, mu[idx], atol=1e-10):
                    return (f"gaussian {which}({modes}) of a displaced {n}-mode state hands the sampler the mean {None if mean is None else np.round(mean, 4).tolist()}; "
                            f"the measured modes have (x.., p..) = {np.round(mu[idx], 4).tolist()}")
                if not np.allclose(c, cov[np.ix_(idx, idx)], atol=1e-10):
                    return f"gaussian {which}({modes}) of a {n}-mode state hands the sampler a covariance that is not the block of the measured modes"
        return None
    return run


def replay(which, obligation, I):
    from native.common import run_replay
    run_replay(obligation, None, check(which), [dict()])
