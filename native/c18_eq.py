"""native battery for Program.__eq__ / program_equivalence (C18)"""
import itertools, warnings
warnings.filterwarnings("ignore")
import strawberryfields as sf
from strawberryfields import ops


def build(spec, n=3):
    prog = sf.Program(n)
    with prog.context as q:
        for (name, params, modes, dagger, select) in spec:
            cls = getattr(ops, name)
            op = cls(*params) if select is None else cls(*params, select=select)
            if dagger:
                op = op.H
            op | tuple(q[m] for m in modes)
    return prog


def same(a, b):
    return a == b


CMDS = [("Sgate", (0.3, 0.0), (0,), False, None), ("Sgate", (0.3, 0.0), (0,), True, None),
        ("Sgate", (0.3, 0.0), (1,), False, None), ("Rgate", (0.4,), (0,), False, None),
        ("BSgate", (0.3, 0.1), (0, 1), False, None), ("BSgate", (0.3, 0.1), (1, 0), False, None),
        ("MeasureFock", (), (0, 1), False, None), ("MeasureFock", (), (0, 1, 2), False, None),
        ("MeasureFock", (), (0,), False, [1]), ("MeasureFock", (), (0,), False, None)]


def battery():
    for la in range(0, 3):
        for lb in range(0, 3):
            for sa in itertools.product(range(len(CMDS)), repeat=la):
                for sb in itertools.product(range(len(CMDS)), repeat=lb):
                    if la + lb <= 3:
                        yield ([CMDS[i] for i in sa], [CMDS[i] for i in sb])


def check_eq(inp):
    sa, sb = inp
    try:
        pa, pb = build(sa), build(sb)
    except Exception:
        return None
    if (pa == pb) and not same(sa, sb):
        return f"programs {sa} and {sb} compare equal"
    if (pa == pb) != (pb == pa):
        return f"__eq__ not symmetric on {sa}, {sb}"
    return None


def check_equiv(inp):
    sa, sb = inp
    if len(sa) != 1 or len(sb) != 1:
        return None
    try:
        pa, pb = build(sa), build(sb)
    except Exception:
        return None
    a, b = sa[0], sb[0]
    if pa.equivalence(pb):
        if a[0] != b[0] or sorted(a[2]) != sorted(b[2]) or a[3] != b[3]:
            return f"one-command programs {a} and {b} are reported equivalent"
        if a[0] == "BSgate" and tuple(a[2]) != tuple(b[2]):
            import math
            th, ph = a[1]
            if abs(math.sin(th)) > 1e-3 and abs((ph % math.pi) - math.pi / 2) > 1e-3:
                return f"asymmetric beamsplitters on opposite mode orders {a} and {b} are reported equivalent"
    return None


def replay(kind, obligation, I):
    from native.common import run_replay
    run_replay(obligation, None, check_eq if kind == "eq" else check_equiv, battery())
