"""native battery for Program.__eq__ / program_equivalence (C18)"""
import itertools, warnings
warnings.filterwarnings("ignore")
import strawberryfields as sf
from strawberryfields import ops


def build(spec, n=3):
    prog = sf.Program(n)
    with prog.context as q:
        for (name, params, modes, dagger, select) in spec:
            cls = getattr(ops, name)
            op = cls(*params) if select is None else cls(*params, select=select)
            if dagger:
                op = op.H
            op | tuple(q[m] for m in modes)
    return prog


def same(a, b):
    return a == b


CMDS = [("Sgate", (0.3, 0.0), (0,), False, None), ("Sgate", (0.3, 0.0), (0,), True, None),
        ("Sgate", (0.3, 0.0), (1,), False, None), ("Rgate", (0.4,), (0,), False, None),
        ("BSgate", (0.3, 0.1), (0, 1), False, None), ("BSgate", (0.3, 0.1), (1, 0), False, None),
        ("MeasureFock", (), (0, 1), False, None), ("MeasureFock", (), (0, 1, 2), False, None),
        ("MeasureFock", (), (0,), False, [1]), ("MeasureFock", (), (0,), False, None), ("MeasureFock", (), (0,), False, [3]),
        ("MeasureFock", (), (0,), False, [0])]


def battery():
    for la in range(0, 3):
        for lb in range(0, 3):
            for sa in itertools.product(range(len(CMDS)), repeat=la):
                for sb in itertools.product(range(len(CMDS)), repeat=lb):
                    if la + lb <= 3:
                        yield ([CMDS[i] for i in sa], [CMDS[i] for i in sb])


def check_eq(inp):
    sa, sb = inp
    try:
        pa, pb = build(sa), build(sb)
    except Exception:
        return None
    if (pa == pb) and not same(sa, sb):
        return f"programs {sa} and {sb} compare equal"
    if (pa == pb) != (pb == pa):
        return f"__eq__ not symmetric on {sa}, {sb}"
    return None


def check_equiv(inp):
    sa, sb = inp
    if len(sa) != 1 or len(sb) != 1:
        return None
    try:
        pa, pb = build(sa), build(sb)
    except Exception:
        return None
    a, b = sa[0], sb[0]
    if pa.equivalence(pb):
        if a[0] != b[0] or sorted(a[2]) != sorted(b[2]) or a[3] != b[3]:
            return f"one-command programs {a} and {b} are reported equivalent"
        if a[0] == "BSgate" and tuple(a[2]) != tuple(b[2]):
            import math
            th, ph = a[1]
            if abs(math.sin(th)) > 1e-3 and abs((ph % math.pi) - math.pi / 2) > 1e-3:
                return f"asymmetric beamsplitters on opposite mode orders {a} and {b} are reported equivalent"
    return None


def wires(spec):
    """what a program computes, as far as the equivalence check may identify programs: per mode, the sequence of
    operations touching it (class, parameters, inverse flag, modes - as a set for gates that are symmetric in them)"""
    out = {}
    for (name, params, modes, dagger, select) in spec:
        key = (name, tuple(params), bool(dagger), tuple(modes) if name in ("BSgate", "CXgate") else tuple(sorted(modes)))
        for m in modes:
            out.setdefault(m, []).append(key)
    return out


MCMDS = [("Sgate", (0.3, 0.0), (0,), False, None), ("Sgate", (0.3, 0.0), (0,), True, None),
         ("Dgate", (0.4, 0.0), (0,), False, None), ("Dgate", (0.4, 0.0), (1,), True, None), ("Dgate", (0.4, 0.0), (1,), False, None),
         ("Rgate", (0.4,), (1,), True, None), ("BSgate", (0.3, 0.1), (0, 1), False, None), ("BSgate", (0.3, 0.1), (0, 1), True, None),
         ("CXgate", (0.3,), (1, 2), True, None), ("CXgate", (0.3,), (1, 2), False, None)]


def battery_multi():
    progs = [[MCMDS[i] for i in s] for L in (2, 3) for s in itertools.product(range(len(MCMDS)), repeat=L) if L == 2 or s[0] < 3]
    for sa in progs:
        for sb in progs:
            if len(sa) == len(sb) and sorted(c[0] for c in sa) == sorted(c[0] for c in sb):
                yield (sa, sb)


def check_multi(inp):
    sa, sb = inp
    pa, pb = build(sa), build(sb)
    eq = pa.equivalence(pb)
    if eq and wires(sa) != wires(sb):
        return f"programs {sa} and {sb} are reported equivalent but apply different operations"
    if not eq and wires(sa) == wires(sb):
        return f"programs {sa} and {sb} differ only in the order of commands on disjoint modes but are reported inequivalent"
    return None


def replay(kind, obligation, I):
    if kind == "multi":
        from native.common import run_replay
        return run_replay(obligation, None, check_multi, battery_multi())
    from native.common import run_replay
    run_replay(obligation, None, check_eq if kind == "eq" else check_equiv, battery())
