"""C04 bounded stand-in (labelled bounded): exhaustive over ALL command sequences up to a length bound
over a 3-mode alphabet that includes two-mode gates, measurements and feed-forward gates (measured
parameters).  Dependencies are computed independently from the plain-data description of each
command.  For the graph form the check is on PATHS (every pair of commands that share a mode or are
linked by a measured parameter is connected by a directed path), which covers every linearisation a
topological sort may legally return, not just the one networkx happens to produce.
usage: c04_reorder.py <tier> <seed>
"""
import itertools, os, sys, warnings, random
warnings.filterwarnings("ignore")
sys.path.insert(0, os.path.dirname(os.path.dirname(os.path.abspath(__file__))))
import networkx as nx
import numpy as np
import strawberryfields as sf
from strawberryfields import ops
from strawberryfields import program_utils as pu
from native.common import emit_bounded

tier = sys.argv[1] if len(sys.argv) > 1 else "quick"
seed = int(sys.argv[2]) if len(sys.argv) > 2 else 0
V, EVAL, SAMPLES = [], [0], []


def bad(msg):
    V.append(msg)
    d = os.path.join(os.path.dirname(os.path.dirname(os.path.abspath(__file__))), "replays", "C04")
    os.makedirs(d, exist_ok=True)
    p = os.path.join(d, f"bounded_{len(V)}.py")
    with open(p, "w") as f:
        f.write("# replay of a bounded stand-in violation (C04): re-run native/c04_reorder.py\nimport sys\nprint(%r)\nprint('REPLAY-VIOLATION')\nsys.exit(1)\n" % msg)
    print(f"NATIVE-VIOLATION finding=- replay={p} {msg}")


# alphabet: (label, class, params-or-None, target modes, measured modes the parameter depends on)
ALPHA = [("R0", "Rgate", 0.3, (0,), ()), ("R1", "Rgate", 0.4, (1,), ()), ("R2", "Rgate", 0.5, (2,), ()),
         ("S1", "Sgate", 0.2, (1,), ()),
         ("B01", "BSgate", 0.3, (0, 1), ()), ("B12", "BSgate", 0.3, (1, 2), ()), ("B20", "BSgate", 0.3, (2, 0), ()),
         ("M0", "MeasureHomodyne", 0.0, (0,), ()), ("M1", "MeasureHomodyne", 0.0, (1,), ()),
         ("X0>1", "Xgate", None, (1,), (0,)), ("X1>2", "Xgate", None, (2,), (1,)), ("X0>2", "Xgate", None, (2,), (0,)),
         ("L1", "LossChannel", 0.5, (1,), ()),
         # feed-forward onto the measured mode itself (parameter dependency overlaps the targets)
         ("X0>0", "Xgate", None, (0,), (0,)), ("B0>01", "BSgate", None, (0, 1), (0,))]


def build(seq):
    prog = sf.Program(3)
    cmds = []
    q = prog.register
    for (lab, cls, par, modes, mdeps) in seq:
        if par is None:
            op = getattr(ops, cls)(q[mdeps[0]].par)
        else:
            op = getattr(ops, cls)(par)
        cmds.append(pu.Command(op, [q[m] for m in modes]))
    return prog, cmds


def deps(item):
    return set(item[3]) | set(item[4])


def respects(order_idx, seq):
    """order_idx: list of original positions in the new order"""
    pos = {o: k for k, o in enumerate(order_idx)}
    for i in range(len(seq)):
        for j in range(i + 1, len(seq)):
            if deps(seq[i]) & deps(seq[j]) and pos[i] > pos[j]:
                return (i, j)
    return None


def check_seq(seq):
    EVAL[0] += 1
    labs = [s[0] for s in seq]
    prog, cmds = build(seq)
    idx = {id(c): k for k, c in enumerate(cmds)}
    # 0. get_dependencies
    for c, it in zip(cmds, seq):
        if {r.ind for r in c.get_dependencies()} != deps(it):
            return bad(f"get_dependencies of {it[0]} = {sorted(r.ind for r in c.get_dependencies())}, expected {sorted(deps(it))}")
    # 1. grid
    grid = pu.list_to_grid(cmds)
    for k in range(3):
        exp = [i for i, it in enumerate(seq) if k in deps(it)]
        got = [idx[id(c)] for c in grid.get(k, [])]
        if got != exp:
            return bad(f"list_to_grid({labs}) wire {k}: positions {got}, expected {exp}")
    if set(grid) - {0, 1, 2}:
        return bad(f"list_to_grid({labs}) has unexpected wires {sorted(grid)}")
    # 2. DAG: same nodes; a path for every dependent pair (=> every legal linearisation is correct)
    dag = pu.list_to_DAG(cmds)
    if {id(n) for n in dag.nodes} != {id(c) for c in cmds} or dag.number_of_nodes() != len(cmds):
        return bad(f"list_to_DAG({labs}) does not have exactly the input commands as nodes")
    if not nx.is_directed_acyclic_graph(dag):
        return bad(f"list_to_DAG({labs}) is not acyclic")
    for i in range(len(seq)):
        reach = nx.descendants(dag, cmds[i])
        for j in range(i + 1, len(seq)):
            if deps(seq[i]) & deps(seq[j]) and cmds[j] not in reach:
                return bad(f"list_to_DAG({labs}): no path from #{i} {labs[i]} to #{j} {labs[j]} although they share a mode / measured parameter")
    for (u, v) in dag.edges:
        if idx[id(u)] > idx[id(v)]:
            return bad(f"list_to_DAG({labs}) has a backward edge")
    # 3. one concrete linearisation
    out = pu.DAG_to_list(dag)
    oi = [idx[id(c)] for c in out]
    if sorted(oi) != list(range(len(seq))):
        return bad(f"DAG_to_list(list_to_DAG({labs})) is not a permutation of the input")
    r = respects(oi, seq)
    if r:
        return bad(f"DAG_to_list(list_to_DAG({labs})) = {[labs[k] for k in oi]} swaps dependent commands #{r[0]} and #{r[1]}")
    # 4. group_operations for each class predicate
    for cls in sorted({s[1] for s in seq}):
        pred = lambda op, cls=cls: type(op).__name__ == cls
        A, B, C = pu.group_operations(cmds, pred)
        allc = A + B + C
        ai = [idx[id(c)] for c in allc]
        if sorted(ai) != list(range(len(seq))):
            return bad(f"group_operations({labs}, {cls}): A+B+C is not a permutation of the input")
        r = respects(ai, seq)
        if r:
            return bad(f"group_operations({labs}, {cls}) = {[labs[k] for k in ai]} swaps dependent commands #{r[0]} {labs[r[0]]} and #{r[1]} {labs[r[1]]}")
        if any(pred(c.op) for c in A) or any(pred(c.op) for c in C):
            return bad(f"group_operations({labs}, {cls}) leaves a marked operation in the leading/trailing part")
        if not B and C:
            return bad(f"group_operations({labs}, {cls}): empty B but non-empty C")
    # 4b. optimize_circuit (C03): never duplicates or loses a feed-forward command, keeps dependency order of the
    #     commands it keeps, and never grows the circuit
    opt = pu.optimize_circuit(list(cmds))
    if len(opt) > len(cmds):
        return bad(f"optimize_circuit({labs}) grew the circuit to {len(opt)} commands")
    ids = [id(c) for c in opt]
    if len(set(ids)) != len(ids):
        return bad(f"optimize_circuit({labs}) contains a duplicated command: {[str(c) for c in opt]}")
    for i, it in enumerate(seq):
        if it[4] or it[1].startswith("Measure"):
            if ids.count(id(cmds[i])) != 1:
                return bad(f"optimize_circuit({labs}): command #{i} {labs[i]} (measurement / measured-parameter gate) appears {ids.count(id(cmds[i]))} times in {[str(c) for c in opt]}")
    kept = [idx[i_] for i_ in ids if i_ in idx]
    r = respects(kept + [k for k in range(len(seq)) if k not in kept], seq) if False else None
    pos = {o: k for k, o in enumerate(kept)}
    for i in kept:
        for j in kept:
            if i < j and deps(seq[i]) & deps(seq[j]) and pos[i] > pos[j]:
                return bad(f"optimize_circuit({labs}) swaps dependent commands #{i} and #{j}")
    # 5. remove_loss keeps order of everything else
    rl = pu.remove_loss(cmds)
    if [idx[id(c)] for c in rl] != [i for i, s in enumerate(seq) if s[1] != "LossChannel"]:
        return bad(f"remove_loss({labs}) = {[labs[idx[id(c)]] for c in rl]}")
    return None


def check_gbs():
    """GBS compiler: measurements are collected into one MeasureFock at the end, everything else keeps dependency order"""
    from strawberryfields.compilers import compiler_db
    gates = [("S0", lambda q: ops.BSgate(0.4, 0.2) | (q[0], q[1])), ("B", lambda q: ops.BSgate(0.3, 0.1) | (q[1], q[2])),
             ("R", lambda q: ops.Rgate(0.2) | q[0])]
    for perm in itertools.permutations(range(3)):
        for msplit in [((0, 1, 2),), ((0,), (1, 2)), ((2,), (0,), (1,)), ((1, 0, 2),)]:
            EVAL[0] += 1
            prog = sf.Program(3)
            with prog.context as q:
                for k in perm:
                    gates[k][1](q)
                for ms in msplit:
                    ops.MeasureFock() | tuple(q[m] for m in ms)
            try:
                out = prog.compile(compiler="gbs")
            except Exception as e:
                return bad(f"gbs compile failed for gate order {perm}, measurements {msplit}: {e}")
            names = [type(c.op).__name__ for c in out.circuit]
            if names.count("MeasureFock") != 1 or names[-1] != "MeasureFock":
                return bad(f"gbs compile {perm} {msplit}: measurements not collected into one trailing MeasureFock: {names}")
            if sorted(r.ind for r in out.circuit[-1].reg) != [0, 1, 2] or [r.ind for r in out.circuit[-1].reg] != sorted(r.ind for r in out.circuit[-1].reg):
                return bad(f"gbs compile {perm} {msplit}: merged measurement acts on {[r.ind for r in out.circuit[-1].reg]}")
            src = [c for c in prog.circuit if type(c.op).__name__ != "MeasureFock"]
            got = out.circuit[:-1]
            key = lambda c: (type(c.op).__name__, tuple(r.ind for r in c.reg))
            if sorted(map(key, src)) != sorted(map(key, got)):
                return bad(f"gbs compile {perm} {msplit}: gate commands changed: {list(map(key, got))}")
            pos = {key(c): k for k, c in enumerate(got)}
            for i in range(len(src)):
                for j in range(i + 1, len(src)):
                    if {r.ind for r in src[i].reg} & {r.ind for r in src[j].reg} and pos[key(src[i])] > pos[key(src[j])]:
                        return bad(f"gbs compile {perm} {msplit}: dependent gates reordered")


def check_optimize_order_sensitive():
    """C03: neighbouring operations whose composition depends on the order (two preparations, two single-mode
    GaussianTransforms, daggered and plain gates): the optimised program prepares the same state"""
    from thewalrus.symplectic import squeezing, rotation
    S1 = squeezing(0.5, 0.3)
    S2 = rotation(0.7) @ squeezing(0.4, 0.0)
    cases = {
        "Vacuum, Fock(1)": ("fock", lambda q: (ops.Vacuum() | q[0], ops.Fock(1) | q[0])),
        "Fock(2), Coherent(0.4)": ("fock", lambda q: (ops.Fock(2) | q[0], ops.Coherent(0.4, 0.2) | q[0])),
        "Squeezed(0.7), Coherent(0.6, 0.3), Rgate(0.2)": ("gaussian", lambda q: (ops.Squeezed(0.7) | q[0], ops.Coherent(0.6, 0.3) | q[0], ops.Rgate(0.2) | q[0])),
        "Thermal(0.5), Squeezed(0.3)": ("gaussian", lambda q: (ops.Thermal(0.5) | q[0], ops.Squeezed(0.3, 0.4) | q[0])),
        "GaussianTransform(S1), GaussianTransform(S2)": ("gaussian", lambda q: (ops.Dgate(0.3, 0.1) | q[0], ops.GaussianTransform(S1) | q[0], ops.GaussianTransform(S2) | q[0])),
        "Sgate(0.3), Sgate(0.1).H, Rgate(0.2), Rgate(0.5).H": ("gaussian", lambda q: (ops.Dgate(0.2) | q[0], ops.Sgate(0.3) | q[0], ops.Sgate(0.1).H | q[0], ops.Rgate(0.2) | q[0], ops.Rgate(0.5).H | q[0])),
    }
    for label, (backend, body) in cases.items():
        EVAL[0] += 1
        prog = sf.Program(1)
        with prog.context as q:
            body(q)
        import warnings as _w
        with _w.catch_warnings():
            _w.simplefilter("ignore")
            opt = prog.optimize()
        kw = {"cutoff_dim": 8} if backend == "fock" else {}
        try:
            a = sf.Engine(backend, backend_options=kw).run(prog).state
            b = sf.Engine(backend, backend_options=kw).run(opt).state
        except Exception as e:
            bad(f"optimize [{label}]: running raised {type(e).__name__}: {e}")
            continue
        oa = [a.quad_expectation(0, ph) for ph in (0.0, 0.9, np.pi / 2)] + [a.mean_photon(0)]
        ob = [b.quad_expectation(0, ph) for ph in (0.0, 0.9, np.pi / 2)] + [b.mean_photon(0)]
        if not np.allclose(oa, ob, atol=1e-8):
            bad(f"optimize [{label}]: the optimised program {[str(c) for c in opt.circuit]} prepares a different state (moments {np.round(np.array(ob).ravel(), 4).tolist()} vs {np.round(np.array(oa).ravel(), 4).tolist()})")


def check_gbs_register_histories():
    """GBS measurement collection when the register changed before the measurements (Del / New are GBS primitives):
    the merged MeasureFock acts on exactly the measured subsystems (by label, in ascending order), measuring a subset"""
    cases = {
        "no deleted mode, modes 3,1,0 measured": (4, lambda q: (ops.Sgate(0.4) | q[0], ops.BSgate(0.5, 0.1) | (q[0], q[3]),
                                                               ops.MeasureFock() | q[3], ops.MeasureFock() | (q[1], q[0])), [0, 1, 3]),
        "last mode deleted, modes 0,1 measured": (3, lambda q: (ops.BSgate(0.5, 0.1) | (q[1], q[2]), ops.Del | q[2],
                                                               ops.MeasureFock() | (q[0], q[1])), [0, 1]),
        "mode 0 deleted, mode 1 measured": (3, lambda q: (ops.Sgate(0.4) | q[0], ops.BSgate(0.5, 0.1) | (q[0], q[1]), ops.Del | q[0],
                                                         ops.Sgate(0.2) | q[2], ops.MeasureFock() | q[1]), [1]),
        "mode 0 deleted, modes 2,1 measured": (3, lambda q: (ops.BSgate(0.5, 0.1) | (q[0], q[1]), ops.Del | q[0],
                                                            ops.MeasureFock() | q[2], ops.MeasureFock() | q[1]), [1, 2]),
        "mode 1 deleted, mode 3 created, modes 0,2 measured": (3, None, [0, 2]),
        "mode 1 deleted, mode 3 created, modes 3,0 measured": (3, None, [0, 3]),
    }
    for label, (n, body, expect) in cases.items():
        EVAL[0] += 1
        prog = sf.Program(n)
        with prog.context as q:
            if body is not None:
                body(q)
            else:
                ops.Sgate(0.4) | q[1]
                ops.BSgate(0.5, 0.1) | (q[1], q[2])
                ops.Del | q[1]
                (new,) = ops.New(1)
                ops.BSgate(0.3, 0.0) | (q[2], new)
                if expect == [0, 2]:
                    ops.MeasureFock() | q[0]
                    ops.MeasureFock() | q[2]
                else:
                    ops.MeasureFock() | new
                    ops.MeasureFock() | q[0]
        try:
            out = prog.compile(compiler="gbs")
        except Exception as e:
            bad(f"gbs compile [{label}] raised {type(e).__name__}: {e}")
            continue
        meas = [c for c in out.circuit if type(c.op).__name__ == "MeasureFock"]
        if len(meas) != 1 or out.circuit[-1] is not meas[0]:
            bad(f"gbs compile [{label}]: measurements not collected into one trailing MeasureFock")
            continue
        got = [r.ind for r in meas[0].reg]
        if got != expect:
            bad(f"gbs compile [{label}]: merged MeasureFock acts on modes {got}, the program measures modes {expect}")
        src = [(type(c.op).__name__, tuple(r.ind for r in c.reg)) for c in prog.circuit if type(c.op).__name__ != "MeasureFock"]
        kept = [(type(c.op).__name__, tuple(r.ind for r in c.reg)) for c in out.circuit[:-1]]
        if sorted(src) != sorted(kept):
            bad(f"gbs compile [{label}]: the other commands changed: {kept}")


if __name__ == "__main__":
    L = 3 if tier == "quick" else 4
    try:
        n = 0
        for ln in range(0, L + 1):
            for seq in itertools.product(ALPHA, repeat=ln):
                check_seq(list(seq))
                if V:
                    break
            if V:
                break
        if not V:
            rng = random.Random(seed)
            for _ in range(400 if tier == "quick" else 4000):
                ln = rng.randint(L + 1, L + 4)
                check_seq([rng.choice(ALPHA) for _ in range(ln)])
                if V:
                    break
        SAMPLES.append({"sequence": ["R0", "M0", "X0>1", "B12"], "max_exhaustive_length": L, "alphabet": [a[0] for a in ALPHA]})
        if not V:
            check_gbs()
            check_gbs_register_histories()
            check_optimize_order_sensitive()
    except Exception:
        import traceback
        traceback.print_exc()
        print("bounded stand-in crashed")
        sys.exit(3)
    emit_bounded("c04_reorder", EVAL[0], EVAL[0], SAMPLES, len(V))
    sys.exit(1 if V else 0)
