"""native replay of contracts/c03_optimize.py optimize_circuit/abstract-feed-forward: the abstract letters are interpreted
as real operations (M, N: post-selected homodyne measurements; c, d: constant displacements; m, n: displacements by the
measured outcome; g: a squeezer) and the optimised program must prepare the state of the unoptimised one."""
import warnings
warnings.filterwarnings("ignore")
import numpy as np

FF_CASES = {
    "M0-c1-m1": (["M", "c", "m"], [0, 1, 1], {"m": 0}),
    "M0-m1-c1": (["M", "m", "c"], [0, 1, 1], {"m": 0}),
    "g0-M0-c1-m1": (["g", "M", "c", "m"], [0, 0, 1, 1], {"m": 0}),
    "c1-g0-M0-m1": (["c", "g", "M", "m"], [1, 0, 0, 1], {"m": 0}),
    "M0-m1-n1": (["M", "m", "n"], [0, 1, 1], {"m": 0, "n": 0}),
    "M0-c1-m1-d1": (["M", "c", "m", "d"], [0, 1, 1, 1], {"m": 0}),
    "M0-N2-m1-n1": (["M", "N", "m", "n"], [0, 2, 1, 1], {"m": 0, "n": 2}),
    "M0-m1-M0'-n1": (["M", "m", "N", "n"], [0, 1, 0, 1], {"m": 0, "n": 0}),
}


def check(I):
    import strawberryfields as sf
    from strawberryfields import ops
    name = sorted(FF_CASES)[int(I.get("case", 0))]
    letters, wires, deps = FF_CASES[name]
    for family in ("Xgate", "Zgate", "Rgate"):
        G = getattr(ops, family)

        def build():
            prog = sf.Program(max(wires) + 1)
            with prog.context as q:
                for k in range(len(q)):
                    ops.Sgate(0.3, 0.2 * k) | q[k]
                    ops.Dgate(0.2 + 0.1 * k, 0.4) | q[k]
                for l, w in zip(letters, wires):
                    if l in ("M", "N"):
                        ops.MeasureHomodyne(0.0, select=0.7 if l == "M" else -0.4) | q[w]
                    elif l == "g":
                        ops.Sgate(0.4) | q[w]
                    elif l in deps:
                        G((1.0 if l == "m" else 0.5) * q[deps[l]].par) | q[w]
                    else:
                        G(0.5 if l == "c" else 0.2) | q[w]
            return prog
        try:
            ref = sf.Engine("gaussian").run(build()).state
            want = (ref.means(), ref.cov())
        except Exception as e:
            return None
        try:
            opt = build().optimize()
            st = sf.Engine("gaussian").run(opt).state
        except Exception as e:
            return f"[{name}, {family}] the optimised program cannot be run: {type(e).__name__}: {str(e)[:120]}; optimised circuit: {[str(c) for c in opt.circuit] if 'opt' in dir() else '-'}"
        err = max(abs(st.means() - want[0]).max(), abs(st.cov() - want[1]).max())
        if err > 1e-8:
            return f"[{name}, {family}] the optimised program {[str(c) for c in opt.circuit]} prepares a different state (max difference {err:.3g})"
    return None


def replay(obligation, I):
    from native.common import run_replay
    run_replay(obligation, I, check, [dict(case=k) for k in range(len(FF_CASES))])
