"""native contract evaluators for backends/base.py:ModeMap (same clauses as contracts/c08_modemap.py)"""
import copy, itertools
from strawberryfields.backends.base import ModeMap


def rank(m, k):
    return sum(1 for x in m[:k] if x is not None)


def wf(m):
    return all(x is None or x == rank(m, k) for k, x in enumerate(m))


def mk(I):
    mm = ModeMap.__new__(ModeMap)
    mm._init = I.get("init", 0)
    mm._map = list(I["map"])
    return mm


def spec_valid(m, modes):
    if modes is None:
        return False
    if isinstance(modes, int):
        modes = [modes]
    return 0 < len(modes) <= len(m) and all(x is not None and 0 <= x < len(m) for x in modes)


def check_delete(I):
    if not wf(I["map"]):
        return None
    mm = mk(I)
    old = list(mm._map)
    modes = I["modes"] if "modes" in I else I["mode"]
    ml = [modes] if isinstance(modes, int) else list(modes)
    try:
        mm.delete(copy.copy(modes))
    except ValueError:
        if spec_valid(old, modes):
            return f"delete({modes}) on {old} raised ValueError although the modes are valid"
        if mm._map != old:
            return "map changed on the error path"
        return None
    except Exception as e:
        return f"delete({modes}) on {old} raised {type(e).__name__}"
    new = mm._map
    if not spec_valid(old, modes):
        return f"delete({modes}) on {old} returned normally although the modes are invalid"
    if len(new) != len(old):
        return f"length changed {len(old)} -> {len(new)}"
    for k in range(len(old)):
        if (new[k] is None) != (old[k] is None or k in ml):
            return f"delete({modes}) on {old} gives {new}: liveness of mode {k} is wrong"
    if not wf(new):
        return f"delete({modes}) on {old} gives {new}: axes are not 0..#alive-1 in order"
    return None


def check_add(I):
    if not wf(I["map"]):
        return None
    mm = mk(I)
    old = list(mm._map)
    n = I["num_modes"]
    mm.add(n)
    new = mm._map
    if new[:len(old)] != old or len(new) != len(old) + n:
        return f"add({n}) on {old} gives {new}"
    if not wf(new) or any(x is None for x in new[len(old):]):
        return f"add({n}) on {old} gives {new}: not well-formed"
    return None


def check_valid(I):
    mm = mk(I)
    modes = I["modes"] if "modes" in I else I.get("mode")
    r = mm.valid(modes)
    if bool(r) != spec_valid(mm._map, modes):
        return f"valid({modes}) on map of length {len(mm._map)} returned {r}"
    return None


def check_single(I):
    mm = mk(I)
    r = mm._single_mode_valid(I["mode"])
    exp = I["mode"] is not None and 0 <= I["mode"] < len(mm._map)
    if bool(r) != exp:
        return f"_single_mode_valid({I['mode']}) with {len(mm._map)} modes returned {r}"


def check_remap(I):
    mm = mk(I)
    modes = I["modes"] if "modes" in I else I["mode"]
    ml = [modes] if isinstance(modes, int) else list(modes)
    if any(x >= len(mm._map) or x < 0 for x in ml):
        try:
            mm.remap(modes)
        except IndexError:
            return None
        if any(x >= len(mm._map) for x in ml):
            return f"remap({modes}) with {len(mm._map)} modes did not raise IndexError"
        return None
    r = mm.remap(modes)
    exp = mm._map[modes] if isinstance(modes, int) else [mm._map[x] for x in ml]
    if r != exp:
        return f"remap({modes}) = {r}, expected {exp}"


def check_init(I):
    n = I["n"] if "n" in I else I["init"]
    mm = ModeMap(n) if "n" in I else mk(I)
    if "n" not in I:
        mm.reset()
    if mm._map != list(range(n)) or mm._init != n:
        return f"map after init/reset({n}) is {mm._map}"


def wf_maps(maxlen):
    """all well-formed maps up to a length"""
    for L in range(maxlen + 1):
        for alive in itertools.product([False, True], repeat=L):
            m, c = [], 0
            for a in alive:
                if a:
                    m.append(c); c += 1
                else:
                    m.append(None)
            yield m


def battery(kind, maxlen=4):
    for m in wf_maps(maxlen):
        L = len(m)
        if kind == "delete":
            for r in range(0, 3):
                for modes in itertools.product(range(-1, L + 1), repeat=r):
                    yield {"map": m, "modes": list(modes)}
            for x in range(-1, L + 1):
                yield {"map": m, "mode": x}
        elif kind == "add":
            for n in range(0, 3):
                yield {"map": m, "num_modes": n}
        elif kind == "valid":
            for r in range(0, 3):
                for modes in itertools.product(range(-1, L + 2), repeat=r):
                    yield {"map": m, "modes": list(modes)}
            for x in range(-1, L + 2):
                yield {"map": m, "mode": x}
        elif kind == "single":
            for x in [None] + list(range(-1, L + 2)):
                yield {"map": m, "mode": x}
        elif kind == "remap":
            for x in range(0, L + 2):
                yield {"map": m, "mode": x}
            for modes in itertools.product(range(0, L + 1), repeat=2):
                yield {"map": m, "modes": list(modes)}
        elif kind == "init":
            yield {"n": L}
            yield {"map": m, "init": L}


CHECKS = {"delete": check_delete, "add": check_add, "valid": check_valid, "single": check_single,
          "remap": check_remap, "init": check_init}


def replay(kind, obligation, I):
    from native.common import run_replay
    run_replay(obligation, I, CHECKS[kind], battery(kind))
