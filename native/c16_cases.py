"""case tables shared by contracts/c16_fock_indices.py and its native replay (no third-party imports)"""
import itertools
SIZES = (1, 2, 3, 4)
SUBSETS = [(n, list(c)) for n in SIZES for r in range(1, n + 1) for c in itertools.combinations(range(n), r)]
ORDERED = [(n, list(c)) for n in SIZES for r in range(1, n + 1) for c in itertools.permutations(range(n), r)]
