"""case table shared by contracts/c01_fock_axes.py and its native replay (no third-party imports)"""
import itertools
AXIS_CASES = [(n, a, b, pure, gate) for n in (2, 3, 4, 5) for a, b in itertools.permutations(range(n), 2)
              for pure in (True, False) for gate in ("BSgate", "S2gate")]
