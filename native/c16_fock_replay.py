"""native replay for contracts/c16_fock_indices.py: the enumerated case is run on the real Fock simulator with a
correlated state and compared with the Gaussian representation of the same state."""
import os, sys, warnings
warnings.filterwarnings("ignore")
sys.path.insert(0, os.path.dirname(os.path.dirname(os.path.abspath(__file__))))
import numpy as np


def _prog(n, pure):
    import strawberryfields as sf
    from strawberryfields import ops
    prog = sf.Program(n)
    with prog.context as q:
        for k in range(n):
            ops.Sgate(0.2 + 0.05 * k, 0.5 * k) | q[k]
            ops.Dgate(0.12 * (k + 1), 0.4 * k) | q[k]
        for k in range(n - 1):
            ops.BSgate(0.5, 0.3 + 0.2 * k) | (q[k], q[k + 1])
        if not pure:
            ops.LossChannel(0.8) | q[0]
    return prog


def check(kind):
    def f(I):
        import strawberryfields as sf
        from native.c16_cases import SUBSETS, ORDERED
        pure = bool(int(I.get("pure", 1)))
        table = ORDERED if kind == "backend_state" else SUBSETS
        n, modes = table[int(I["case"]) % len(table)]
        if n > 3:
            return None
        cut = 8 if n < 3 else 7
        g = sf.Engine("gaussian").run(_prog(n, pure)).state
        if kind == "backend_state":
            st = sf.Engine("fock", backend_options={"cutoff_dim": cut}).run(_prog(n, pure), modes=modes).state
            a = np.array([st.quad_expectation(i, ph) for i in range(len(modes)) for ph in (0.0, 0.8)])
            b = np.array([g.quad_expectation(m, ph) for m in modes for ph in (0.0, 0.8)])
            if not np.allclose(a, b, atol=2e-2):
                return f"fock run(prog, modes={modes}).state (n={n}, pure={pure}): quadratures by index {np.round(a[:, 0], 3).tolist()} vs requested modes {np.round(b[:, 0], 3).tolist()}"
        else:
            st = sf.Engine("fock", backend_options={"cutoff_dim": cut}).run(_prog(n, pure)).state
            if len(modes) > 2:
                return None
            r = st.reduced_dm(modes)
            ref = g.reduced_dm(modes, cutoff=cut)
            if r.shape != ref.shape or not np.allclose(r, ref, atol=2e-2):
                return f"fock reduced_dm({modes}) of a {n}-mode state (pure={pure}) differs from the Gaussian representation (max {abs(r - ref).max() if r.shape == ref.shape else 'shape ' + str(r.shape)})"
    return f


def check_fidelity(I):
    """fidelity(other, mode) of the Fock representation against the overlap with the reduced density matrix of the SAME
    mode computed from the Gaussian representation (asymmetric, correlated state: every mode differs)"""
    import strawberryfields as sf
    n, mode, pure = int(I.get("n", 3)), int(I.get("mode", 0)), bool(int(I.get("pure", 1)))
    if n > 3 or mode >= n:
        return None
    cut = 8 if n < 3 else 7
    g = sf.Engine("gaussian").run(_prog(n, pure)).state
    st = sf.Engine("fock", backend_options={"cutoff_dim": cut}).run(_prog(n, pure)).state
    rng = np.random.RandomState(1)
    other = rng.randn(cut) + 1j * rng.randn(cut)
    other[4:] = 0
    other /= np.linalg.norm(other)
    got = st.fidelity(other, mode)
    want = (other.conj() @ g.reduced_dm([mode], cutoff=cut) @ other).real
    if abs(got - want) > 2e-2:
        return f"fock fidelity(other, mode={mode}) of a {n}-mode state (pure={pure}) = {got:.4f}; <other| rho_{mode} |other> = {want:.4f}"
    return None


def replay_fidelity(obligation, I):
    from native.common import run_replay
    run_replay(obligation, I, check_fidelity, [dict(n=n, mode=m, pure=p) for n in (2, 3) for m in range(n) for p in (1, 0)])


def replay(kind, obligation, I):
    from native.common import run_replay
    from native.c16_cases import SUBSETS, ORDERED
    table = ORDERED if kind == "backend_state" else SUBSETS
    bat = [{"case": i, "pure": p} for i, c in enumerate(table) if c[0] <= 3 for p in (1, 0)]
    run_replay(obligation, I, check(kind), bat)
