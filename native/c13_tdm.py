"""C13 bounded stand-in (labelled bounded).
 (a) sample arrangement: time-domain programs whose pulses carry an identifying displacement (pulse t of band b is
     displaced by a distinct large amplitude, heterodyne-free: measured with MeasureX) are run on the Gaussian backend;
     entry (shot, band, time bin) of Result.samples must identify exactly that pulse, samples_dict keys = measured
     modes, for single- and two-band programs, concurrent-mode counts 1..3, shots 1..2, bands measured in either order.
 (b) unroll == hand-written loop: the register-shifting unrolled program and a hand-written program with a fresh mode
     per pulse (same gates, same per-bin parameters, same post-selected homodyne outcomes) leave the modes still in
     flight in the same conditional Gaussian state; space_unroll (single band) gives that state too.
 (c) state machine: every sequence of unroll(s) / space_unroll(s) / roll / lock calls up to a length bound:
     roll restores circuit and register exactly, locked is preserved, circuit matches the requested form, the
     (space-)unrolled program runs.
 (d) attributes of rolled operations (inverse flag, select) are applied in every time bin.
usage: c13_tdm.py <tier> <seed>"""
import itertools, os, sys, warnings
warnings.filterwarnings("ignore")
sys.path.insert(0, os.path.dirname(os.path.dirname(os.path.abspath(__file__))))
import numpy as np
import strawberryfields as sf
from strawberryfields import ops
from native.common import emit_bounded

tier = sys.argv[1] if len(sys.argv) > 1 else "quick"
seed = int(sys.argv[2]) if len(sys.argv) > 2 else 0
V, EVAL = [], [0]
seen_known = set()


def bad(msg, fid="-"):
    if fid != "-":
        if fid in seen_known:
            return
        seen_known.add(fid)
    V.append(msg)
    d = os.path.join(os.path.dirname(os.path.dirname(os.path.abspath(__file__))), "replays", "C13")
    os.makedirs(d, exist_ok=True)
    p = os.path.join(d, f"bounded_{len(V)}.py")
    open(p, "w").write("# replay of a bounded stand-in violation (C13): re-run native/c13_tdm.py\nimport sys\nprint(%r)\nprint('REPLAY-VIOLATION')\nsys.exit(1)\n" % msg)
    print(f"NATIVE-VIOLATION finding={fid} replay={p} {msg}")


BIG = 200.0


def check_arrangement():
    hb = sf.hbar
    unit = 2 * BIG * np.sqrt(hb / 2)        # <x> of Dgate(BIG) (alpha real): sqrt(2 hbar) * BIG = 2 BIG sqrt(hbar/2)
    for N, order in [([1], [0]), ([2], [0]), ([3], [0]), ([1, 1], [0, 1]), ([1, 1], [1, 0]), ([2, 1], [0, 1]), ([2, 1], [1, 0]), ([1, 2], [0, 1]), ([8, 2], [1, 0])]:
        for timebins in (2, 3, 5):
            for shots in (1, 2):
                EVAL[0] += 1
                nb = len(N)
                starts = [sum(N[:b]) for b in range(nb)]
                # pulse t of band b is displaced by (1 + t + 10 b) * BIG
                args = [[(1 + t + 10 * b) * BIG for t in range(timebins)] for b in range(nb)]
                prog = sf.TDMProgram(N=N)
                with prog.context(*args) as (p, q):
                    for b in range(nb):
                        ops.Dgate(p[b], 0.0) | q[starts[b] + N[b] - 1]
                    # the newest pulse sits in the LAST mode of the band; the measured mode is the first one; with N[b]
                    # concurrent modes the pulse is measured N[b]-1 bins after it entered
                    for b in order:
                        ops.MeasureX | q[starts[b]]
                try:
                    res = sf.Engine("gaussian").run(prog, shots=shots)
                except Exception as e:
                    bad(f"N={N} bands measured in order {order} timebins={timebins} shots={shots}: raised {type(e).__name__}: {e}")
                    continue
                s = np.array(res.samples)
                if s.shape != (shots, nb, timebins):
                    bad(f"N={N} order={order} timebins={timebins} shots={shots}: samples have shape {s.shape}, expected {(shots, nb, timebins)}")
                    continue
                ident = np.round(s / unit).astype(int)
                for sh in range(shots):
                    for b in range(nb):
                        for t in range(timebins):
                            # the pulse measured in bin t of shot sh entered (N[b]-1) bins earlier (possibly in the previous shot
                            # or never: vacuum -> 0)
                            g = sh * timebins + t - (N[b] - 1)
                            exp = 0 if g < 0 else (1 + (g % timebins) + 10 * b)
                            if ident[sh, b, t] != exp:
                                bad(f"N={N} bands measured in order {order} timebins={timebins} shots={shots}: samples[{sh},{b},{t}] identifies pulse {ident[sh, b, t]}, expected pulse {exp} (band {b})")
                                break
                        else:
                            continue
                        break
                    else:
                        continue
                    break
                sd = res.samples_dict
                if sorted(sd) != sorted(starts):
                    bad(f"N={N} order={order}: samples_dict keys {sorted(sd)}, expected the measured modes {sorted(starts)}")
                    continue
                for b in range(nb):
                    if not np.allclose(np.array(sd[starts[b]]), s[:, b, :]):
                        bad(f"N={N} order={order}: samples_dict[{starts[b]}] does not hold the outcomes of band {b}")
                        break


def tdm_single_loop(N, r, alpha, phi, sel, dagger=False, measure=True):
    """one band, N concurrent modes: squeeze the newest mode, couple it to the oldest, rotate, measure the oldest"""
    prog = sf.TDMProgram(N=N)
    with prog.context(alpha, phi) as (p, q):
        ops.Sgate(r, 0) | q[N - 1]
        (ops.BSgate(p[0], 0.3).H if dagger else ops.BSgate(p[0], 0.3)) | (q[0], q[N - 1])
        ops.Rgate(p[1]) | q[N - 1]
        if measure:
            ops.MeasureHomodyne(0.4, select=sel) | q[0]
    return prog


def handwritten(N, r, alpha, phi, sel, dagger=False, measure=True):
    """the same loop written out with a fresh mode for every new pulse"""
    T = len(alpha)
    total = N + T          # initial N modes + one fresh mode per bin
    prog = sf.Program(total)
    with prog.context as q:
        window = list(range(N))          # physical modes currently in the loop, oldest first
        nxt = N
        for t in range(T):
            ops.Sgate(r, 0) | q[window[-1]]
            (ops.BSgate(alpha[t], 0.3).H if dagger else ops.BSgate(alpha[t], 0.3)) | (q[window[0]], q[window[-1]])
            ops.Rgate(phi[t]) | q[window[-1]]
            if measure:
                ops.MeasureHomodyne(0.4, select=sel) | q[window[0]]
            # the measured mode leaves, a fresh vacuum mode enters at the end
            window = window[1:] + [nxt]
            nxt += 1
    return prog, window


def inflight(state, modes):
    mu, cov = state.means(), state.cov()
    n = len(mu) // 2
    idx = list(modes) + [m + n for m in modes]
    return mu[idx], cov[np.ix_(idx, idx)]


def check_equivalence():
    rng = np.random.RandomState(seed)
    for N in (2, 3):
        for T in (2, 3, 4):
            for dagger in (False, True):
                EVAL[0] += 1
                alpha = list(rng.uniform(0.2, 1.2, T))
                phi = list(rng.uniform(-1, 1, T))
                sel, r = 0.3, 0.6
                # (1) register shifting
                try:
                    res = sf.Engine("gaussian").run(tdm_single_loop(N, r, alpha, phi, sel, dagger))
                except Exception as e:
                    bad(f"tdm N={N} T={T} dagger={dagger}: run raised {type(e).__name__}: {e}")
                    continue
                # after T bins with shift 1 per bin the register has rotated T times: logical window position k is physical
                # mode (k + T) % N; the in-flight pulses are all N modes (the measured one has been reset to vacuum)
                phys = [(k + T) % N for k in range(N)]
                m1, c1 = inflight(res.state, phys)
                # (2) hand-written fresh-mode loop
                hw, window = handwritten(N, r, alpha, phi, sel, dagger)
                st2 = sf.Engine("gaussian").run(hw).state
                m2, c2 = inflight(st2, window)
                if not (np.allclose(m1, m2, atol=1e-6) and np.allclose(c1, c2, atol=1e-6)):
                    bad(f"single band N={N}, {T} time bins, dagger={dagger}: the register-shifting unrolled program and the hand-written fresh-mode loop leave the in-flight modes in different states (max mean diff {abs(m1 - m2).max():.3g}, cov diff {abs(c1 - c2).max():.3g})")
                    continue
                # (3) space unrolling vs the hand-written loop, joint state of ALL pulses (no measurement: running a
                #     space-unrolled program that measures is finding F41)
                prog = tdm_single_loop(N, r, alpha, phi, sel, dagger, measure=False)
                try:
                    prog.space_unroll()
                    st3 = sf.Engine("gaussian").run(prog).state
                except Exception as e:
                    bad(f"space_unroll N={N} T={T}: raised {type(e).__name__}: {e}")
                    continue
                hw2, _ = handwritten(N, r, alpha, phi, sel, dagger, measure=False)
                st4 = sf.Engine("gaussian").run(hw2).state
                # the engine returns the modes 0..timebins-1 of a space-unrolled program (the pulses that reach the detector)
                k = T
                if len(st3.means()) // 2 != k:
                    bad(f"space_unroll N={N} T={T}: returned state has {len(st3.means()) // 2} modes, expected the {k} pulses")
                    continue
                m3, c3 = inflight(st3, range(k))
                m4, c4 = inflight(st4, range(k))
                if not (np.allclose(m3, m4, atol=1e-6) and np.allclose(c3, c4, atol=1e-6)):
                    bad(f"single band N={N}, {T} time bins, dagger={dagger}: the space-unrolled program and the hand-written fresh-mode loop give different joint states of the pulses (cov diff {abs(c3 - c4).max():.3g})")
        EVAL[0] += 1
        try:
            prog = tdm_single_loop(N, 0.5, [0.3] * 4, [0.1] * 4, 0.2)
            prog.space_unroll()
            sf.Engine("gaussian").run(prog)
        except Exception as e:
            bad(f"space-unrolled single-band program (N={N}, 4 time bins) WITH a measurement cannot be run: {type(e).__name__}: {e}", "F41")


def check_integer_shift():
    """(f) an integer shift s rotates the register by s positions to the left after every time bin (documented; s = 1 is the
    default for a single band): the unrolled circuit addresses position k of time bin t at register mode (k + s t) mod N"""
    def build(N, T, shift):
        prog = sf.TDMProgram(N=N)
        with prog.context([0.3 + 0.1 * t for t in range(T)], [0.2 * t for t in range(T)], shift=shift) as (p, q):
            ops.Sgate(0.5, 0) | q[N - 1]
            ops.BSgate(p[0], 0.3) | (q[0], q[N - 1])
            ops.Rgate(p[1]) | q[N - 1]
            ops.MeasureHomodyne(0.4, select=0.3) | q[0]
        return prog
    template = [("Sgate", (-1,)), ("BSgate", (0, -1)), ("Rgate", (-1,)), ("MeasureHomodyne", (0,))]
    for N in (2, 3, 4):
        for T in (3, 5):
            ref = build(N, T, "default")
            ref.unroll()
            cref = [(type(c.op).__name__, tuple(r.ind for r in c.reg)) for c in ref.circuit]
            for shift in (1, 2, -1, N - 1):
                EVAL[0] += 1
                prog = build(N, T, shift)
                try:
                    prog.unroll()
                except Exception as e:
                    bad(f"TDM N={N} T={T} shift={shift}: unroll raised {type(e).__name__}: {e}")
                    continue
                got = [(type(c.op).__name__, tuple(r.ind for r in c.reg)) for c in prog.circuit]
                exp = [(nm, tuple((k % N + shift * t) % N for k in pos)) for t in range(T) for nm, pos in template]
                if got != exp:
                    bad(f"TDM N={N}, {T} time bins, shift={shift}: the unrolled circuit addresses modes {[g[1] for g in got][:8]}..., a left rotation by {shift} per bin gives {[e[1] for e in exp][:8]}...")
                    continue
                if shift == 1 and got != cref:
                    bad(f"TDM N={N}, {T} time bins: shift=1 and shift='default' unroll to different circuits for a single band")
            # running: shift = 1 must behave like the default (other integer shifts: open finding F58, reshape_samples assumes 1)
            EVAL[0] += 1
            try:
                np.random.seed(3)
                a = sf.Engine("gaussian").run(build(N, T, 1)).samples
                np.random.seed(3)
                b = sf.Engine("gaussian").run(build(N, T, "default")).samples
                if a.shape != b.shape or not np.allclose(a, b):
                    bad(f"TDM N={N}, {T} time bins: shift=1 returns other samples than shift='default'")
            except Exception as e:
                bad(f"TDM N={N} T={T} shift=1: run raised {type(e).__name__}: {e}")
    EVAL[0] += 1
    try:
        sf.Engine("gaussian").run(build(3, 5, 2))
    except Exception as e:
        bad(f"TDM N=3, 5 time bins, shift=2: running raises {type(e).__name__} (the sample arrangement assumes a shift of one)", "F58")


def check_state_machine():
    calls = ["unroll1", "unroll2", "space1", "roll", "lock"]
    L = 3 if tier == "quick" else 4
    for seq in itertools.chain.from_iterable(itertools.product(calls, repeat=k) for k in range(1, L + 1)):
        EVAL[0] += 1
        prog = tdm_single_loop(2, 0.5, [0.3, 0.6, 0.9], [0.1, 0.2, 0.3], 0.2, measure=False)
        rolled = list(prog.circuit)
        reg0 = [r.ind for r in prog.register]
        state = "rolled"
        ok = True
        nspace = 0
        for c in seq:
            locked_before = prog.locked
            try:
                if c == "unroll1":
                    prog.unroll(shots=1)
                elif c == "unroll2":
                    prog.unroll(shots=2)
                elif c == "space1":
                    prog.space_unroll(shots=1)
                elif c == "roll":
                    prog.roll()
                elif c == "lock":
                    prog.lock()
            except ValueError:
                # documented refusals (unroll while space-unrolled and vice versa) must leave the lock flag alone too
                if prog.locked != locked_before and c != "lock":
                    bad(f"calls {seq}: a refused {c} changed the locked flag")
                    ok = False
                    break
                continue
            except Exception as e:
                bad(f"calls {seq}: {c} raised {type(e).__name__}: {e}")
                ok = False
                break
            if c != "lock" and prog.locked != locked_before:
                bad(f"calls {seq}: {c} changed the locked flag from {locked_before} to {prog.locked}")
                ok = False
                break
            if c == "roll":
                state = "rolled"
                if [id(x) for x in prog.circuit] != [id(x) for x in rolled]:
                    bad(f"calls {seq}: roll() did not restore the original circuit")
                    ok = False
                    break
                if [r.ind for r in prog.register] != reg0:
                    bad(f"calls {seq}: roll() left the register {[r.ind for r in prog.register]}, originally {reg0}")
                    ok = False
                    break
            elif c.startswith("unroll") and prog.is_unrolled and prog.space_unrolled_circuit is None:
                state = c
                shots = int(c[-1])
                if len(prog.circuit) != len(rolled) * 3 * shots:
                    bad(f"calls {seq}: after {c} the circuit has {len(prog.circuit)} commands, expected {len(rolled) * 3 * shots}")
                    ok = False
                    break
            elif c == "space1" and prog.space_unrolled_circuit is not None:
                state = c
                nspace += 1
        if not ok:
            continue
        # the program must still run in whatever form it is in
        try:
            prog.locked = False
            sf.Engine("gaussian").run(prog)
        except Exception as e:
            fid = "F16" if sum(1 for c in seq if c == "space1") >= 2 else "-"
            bad(f"calls {seq}: the program no longer runs: {type(e).__name__}: {e}", fid)


def check_attributes():
    EVAL[0] += 1
    prog = sf.TDMProgram(N=2)
    with prog.context([0.3, 0.5], [0.1, 0.2]) as (p, q):
        ops.BSgate(p[0], 0.2).H | (q[0], q[1])
        ops.Rgate(p[1]).H | q[1]
        ops.MeasureHomodyne(0.0, select=0.25) | q[0]
    prog.unroll()
    for c in prog.circuit:
        nm = type(c.op).__name__
        if nm in ("BSgate", "Rgate") and not c.op.dagger:
            bad(f"unrolled {nm} lost the inverse flag of the rolled operation")
            break
        if nm == "MeasureHomodyne" and c.op.select != 0.25:
            bad("unrolled MeasureHomodyne lost the select option of the rolled operation")
            break
    # the rolled operations themselves are untouched
    prog.roll()
    if any(not isinstance(x, (int, float)) and not hasattr(x, "name") for c in prog.circuit for x in c.op.p):
        bad("rolling back left non-symbolic garbage in the rolled operations' parameters")
    EVAL[0] += 1
    prog = tdm_single_loop(2, 0.4, [0.3, 0.5], [0.1, 0.2], 0.2, measure=False)
    try:
        prog.space_unroll(shots=2)
        sf.Engine("gaussian").run(prog)
    except Exception as e:
        bad(f"space_unroll(shots=2) then run: {type(e).__name__}: {e}", "F32")


def _loop_programs(delays, amp, bs):
    """the same multi-loop single-band experiment as a TDMProgram and written out by hand (fresh mode per pulse:
    the pulse at register position r in time bin t is mode t + r)"""
    T = len(amp)
    cum = np.cumsum([1] + list(delays))
    N = int(cum[-1])
    pos = [N - int(c) for c in cum]                       # source, loop outputs ..., detector (0)
    tdm = sf.TDMProgram(N)
    with tdm.context(amp, *bs) as (p, q):
        ops.Dgate(p[0], 0) | q[pos[0]]
        for i in range(len(delays)):
            ops.BSgate(p[i + 1], 0) | (q[pos[i + 1]], q[pos[i]])
        ops.MeasureHomodyne(0) | q[0]
    hand = sf.Program(T + N - 1)
    with hand.context as q:
        for t in range(T):
            ops.Dgate(amp[t], 0) | q[t + pos[0]]
            for i in range(len(delays)):
                ops.BSgate(bs[i][t], 0) | (q[t + pos[i + 1]], q[t + pos[i]])
    return tdm, hand


def check_crop():
    """(e) cropping: get_delays() are the loop lengths; get_crop_value() is the number of detected pulses that carry no
    light of any input pulse in the hand-written loop; a run with crop=True returns exactly the remaining pulses, entry
    k being the outcome of detected pulse k + crop"""
    layouts = [[2], [3], [1, 2], [2, 3]] + ([[1, 2, 4], [3, 2]] if tier != "quick" else [])
    for delays in layouts:
        T = sum(delays) + 8
        zero_opts = [range(0, d + 3) for d in delays]
        for zeros in itertools.product(*zero_opts):
            EVAL[0] += 1
            amp = [20.0 + 5.0 * t for t in range(T)]
            bs = [[0.0] * z + [np.pi / 4] * (T - z) for z in zeros]
            tdm, hand = _loop_programs(delays, amp, bs)
            st = sf.Engine("gaussian").run(hand).state
            mu = st.means()
            nm = len(mu) // 2
            energy = np.hypot(mu[:T], mu[nm:nm + T])
            xmean = mu[:T]
            lit = np.nonzero(energy > 1e-9)[0]
            c_exp = int(lit[0]) if len(lit) else T
            label = f"delays={delays}, leading identity bins per loop={list(zeros)}"
            try:
                if list(tdm.get_delays()) != list(delays):
                    bad(f"{label}: get_delays() = {list(tdm.get_delays())}")
                c = tdm.get_crop_value()
            except Exception as e:
                bad(f"{label}: get_crop_value raised {type(e).__name__}: {e}")
                continue
            if c != c_exp:
                bad(f"{label}: get_crop_value() = {c}, in the hand-written loop the first {c_exp} detected pulses are vacuum and pulse {c_exp} carries light")
                continue
            np.random.seed(4321)
            try:
                res = sf.Engine("gaussian").run(tdm, shots=1, crop=True)
            except Exception as e:
                bad(f"{label}: run(crop=True) raised {type(e).__name__}: {e}")
                continue
            smp = res.samples
            if smp.shape != (1, 1, T - c_exp):
                bad(f"{label}: cropped samples have shape {smp.shape}, expected {(1, 1, T - c_exp)}")
            elif not np.allclose(smp[0, 0], xmean[c_exp:], atol=8.0):
                bad(f"{label}: entry k of the cropped samples is not the outcome of detected pulse k + {c_exp}: {np.round(smp[0, 0][:5], 1).tolist()} vs means {np.round(xmean[c_exp:][:5], 1).tolist()}")


if __name__ == "__main__":
    for f in (check_arrangement, check_equivalence, check_integer_shift, check_state_machine, check_attributes, check_crop):
        try:
            f()
        except Exception:
            import traceback
            traceback.print_exc()
            print("bounded stand-in crashed in", f.__name__)
            sys.exit(3)
    emit_bounded("c13_tdm", EVAL[0], EVAL[0], [{"arrangement": "N in [1],[2],[3],[1,1],[2,1],[1,2],[8,2] x bins 2,3,5 x shots 1,2", "equivalence": "N=2,3 x bins 2..4 x dagger"}], len(V))
    sys.exit(1 if V else 0)
