"""C12 bounded stand-in, part 2 (labelled bounded): compilation against a DEVICE specification (layout template with
named parameters, allowed values / ranges per parameter, mode limits), on a 4-mode X-series-like mock device.
 * every valid source (allowed squeezing values on the pairs (i, i+2), any unitary on both halves, photon counting)
   compiles; the compiled circuit has the device topology, every gate parameter lies in the device's allowed set, and
   the compiled program prepares the same Gaussian state of the measured modes (Xunitary) as the source;
 * sources outside the device (a squeezing value the device does not offer, a phase-insensitive but unsupported gate,
   too many modes, more measured modes than the device limit, wrong squeezing pair) are rejected with CircuitError;
 * Program.assert_modes limits for pnr / homodyne / heterodyne measurements.
usage: c12_device.py <tier> <seed>"""
import inspect, itertools, os, sys, warnings
warnings.filterwarnings("ignore")
sys.path.insert(0, os.path.dirname(os.path.dirname(os.path.abspath(__file__))))
import numpy as np
import strawberryfields as sf
from strawberryfields import ops
from strawberryfields.program_utils import CircuitError
from strawberryfields.utils import random_interferometer
from native.common import emit_bounded
from native.c12_hw import moments

tier = sys.argv[1] if len(sys.argv) > 1 else "quick"
seed = int(sys.argv[2]) if len(sys.argv) > 2 else 0
V, EVAL = [], [0]


def bad(msg):
    msg = " ".join(str(msg).split())
    V.append(msg)
    d = os.path.join(os.path.dirname(os.path.dirname(os.path.abspath(__file__))), "replays", "C12")
    os.makedirs(d, exist_ok=True)
    p = os.path.join(d, f"bounded_device_{len(V)}.py")
    open(p, "w").write("# replay of a bounded stand-in violation (C12): re-run native/c12_device.py\nimport sys\nprint(%r)\nprint('REPLAY-VIOLATION')\nsys.exit(1)\n" % msg)
    print(f"NATIVE-VIOLATION finding=- replay={p} {msg}")


LAYOUT = inspect.cleandoc(
    """
    name mock
    version 1.0
    target mockX4 (shots=1)

    S2gate({squeezing_amplitude_0}, 0.0) | [0, 2]
    S2gate({squeezing_amplitude_1}, 0.0) | [1, 3]
    MZgate({phase_0}, {phase_1}) | [0, 1]
    Rgate({final_phase_0}) | 0
    Rgate({final_phase_1}) | 1
    MZgate({phase_0}, {phase_1}) | [2, 3]
    Rgate({final_phase_0}) | 2
    Rgate({final_phase_1}) | 3
    MeasureFock() | [0, 1, 2, 3]
    """
)
SQ_ALLOWED = [0, 0.7]
SPEC = {
    "target": "mockX4",
    "layout": LAYOUT,
    "modes": 4,
    "compiler": ["Xunitary"],
    "gate_parameters": {
        "squeezing_amplitude_0": SQ_ALLOWED, "squeezing_amplitude_1": SQ_ALLOWED,
        "phase_0": [[0, 2 * np.pi]], "phase_1": [[0, 2 * np.pi]],
        "final_phase_0": [[0, 2 * np.pi]], "final_phase_1": [[0, 2 * np.pi]],
    },
}


def source(sq, U, n=4, measure="fock", extra=None):
    prog = sf.Program(n)
    with prog.context as q:
        for i, r in enumerate(sq):
            if r is not None:
                ops.S2gate(r, 0.0) | (q[i], q[i + 2])
        if extra:
            extra(q)
        ops.Interferometer(U) | (q[0], q[1])
        ops.Interferometer(U) | (q[2], q[3])
        if measure == "fock":
            ops.MeasureFock() | tuple(q[:4])
    return prog


def check_conformance(comp, label):
    names = [(type(c.op).__name__, tuple(r.ind for r in c.reg)) for c in comp.circuit]
    expected = [("S2gate", (0, 2)), ("S2gate", (1, 3)), ("MZgate", (0, 1)), ("Rgate", (0,)), ("Rgate", (1,)),
                ("MZgate", (2, 3)), ("Rgate", (2,)), ("Rgate", (3,)), ("MeasureFock", (0, 1, 2, 3))]
    if sorted(names) != sorted(expected):
        bad(f"{label}: compiled circuit {names} does not have the device topology")
        return
    for c in comp.circuit:
        nm = type(c.op).__name__
        p = [float(x) for x in c.op.p]
        if nm == "S2gate":
            if not any(abs(p[0] - a) < 1e-9 for a in SQ_ALLOWED) or abs(p[1]) > 1e-9:
                bad(f"{label}: compiled S2gate{tuple(np.round(p, 4))} is not offered by the device (allowed r: {SQ_ALLOWED}, phi = 0)")
        if nm in ("MZgate", "Rgate"):
            if any(x < -1e-9 or x > 2 * np.pi + 1e-9 for x in p):
                bad(f"{label}: compiled {nm}{tuple(np.round(p, 4))} is outside the device range [0, 2 pi]")
    lo = [tuple(np.round([float(x) for x in c.op.p], 9)) for c in comp.circuit if type(c.op).__name__ in ("MZgate", "Rgate") and c.reg[0].ind < 2]
    hi = [tuple(np.round([float(x) for x in c.op.p], 9)) for c in comp.circuit if type(c.op).__name__ in ("MZgate", "Rgate") and c.reg[0].ind >= 2]
    if lo != hi:
        bad(f"{label}: the two halves of the device do not get the same unitary")


if __name__ == "__main__":
    rng = np.random.RandomState(seed)
    np.random.seed(seed)
    try:
        dev = sf.Device(spec=SPEC)
        unis = [("identity", np.eye(2, dtype=complex)), ("swap", np.eye(2, dtype=complex)[::-1]), ("haar", random_interferometer(2))]
        if tier != "quick":
            unis += [(f"haar{k}", random_interferometer(2)) for k in range(4)]
        for sq in itertools.product([0.7, 0, None], repeat=2):
            for ul, U in unis:
                EVAL[0] += 1
                label = f"device compile squeezing={sq} unitary={ul}"
                prog = source(sq, U)
                try:
                    comp = prog.compile(device=dev)
                except Exception as e:
                    bad(f"{label}: a valid source was rejected: {type(e).__name__}: {str(e)[:150]}")
                    continue
                if comp.target != "mockX4":
                    bad(f"{label}: compiled program has target {comp.target!r}")
                check_conformance(comp, label)
                N0, M0, _ = moments(prog.compile(compiler="gaussian").circuit, 4)
                N1, M1, _ = moments(comp.circuit, 4)
                err = max(abs(N0 - N1).max(), abs(M0 - M1).max())
                if err > 1e-6:
                    bad(f"{label}: compiled program prepares a different Gaussian state (max moment difference {err:.3g})")
        # ---- sources the device cannot run must be rejected
        U = random_interferometer(2)
        rejects = {
            "squeezing value 0.4 not offered by the device": lambda: source((0.4, 0.7), U),
            "squeezing phase 0.3 not offered by the device": lambda: _with(lambda q: None, sq_phase=0.3),
            "S2gate on the pair (0, 1)": lambda: source((None, None), U, extra=lambda q: ops.S2gate(0.7, 0.0) | (q[0], q[1])),
            "5 modes": lambda: source((0.7, 0.7), U, n=5),
            "an Sgate": lambda: source((0.7, 0.7), U, extra=lambda q: ops.Sgate(0.1) | q[0]),
            "a Kerr gate": lambda: source((0.7, 0.7), U, extra=lambda q: ops.Kgate(0.1) | q[0]),
        }

        def _with(extra, sq_phase):
            prog = sf.Program(4)
            with prog.context as q:
                ops.S2gate(0.7, sq_phase) | (q[0], q[2])
                ops.S2gate(0.7, 0.0) | (q[1], q[3])
                ops.Interferometer(U) | (q[0], q[1])
                ops.Interferometer(U) | (q[2], q[3])
                ops.MeasureFock() | tuple(q)
            return prog
        for what, mk in rejects.items():
            EVAL[0] += 1
            try:
                comp = mk().compile(device=dev)
                bad(f"a source with {what} was accepted for the device: {[(type(c.op).__name__, [float(x) for x in c.op.p]) for c in comp.circuit if type(c.op).__name__ == 'S2gate']}")
            except (CircuitError, ValueError):
                pass                   # rejected (range violations are reported as ValueError by Device.validate_parameters)
            except Exception as e:
                bad(f"a source with {what} raised {type(e).__name__} instead of a circuit / value error: {str(e)[:120]}")
        # ---- array-valued parameters (time-domain devices) against unions of allowed ranges / discrete levels
        spec3 = {"target": "mockTD", "layout": None, "modes": 2, "compiler": ["TD2"],
                 "gate_parameters": {"s": [0, 0.5643, 1.0], "bs": [[0, 0.6], [1.0, 1.6]]}}
        dev3 = sf.Device(spec=spec3)
        allowed = {"s": lambda v: any(abs(v - a) < 1e-4 for a in (0, 0.5643, 1.0)),
                   "bs": lambda v: (-1e-4 <= v <= 0.6 + 1e-4) or (1.0 - 1e-4 <= v <= 1.6 + 1e-4)}
        grid = {"s": [0, 0.3, 0.5643, 1.0, 1.2], "bs": [-0.4, 0.1, 0.8, 1.2, 1.9]}
        for name in ("s", "bs"):
            for arr in itertools.product(grid[name], repeat=3):
                for shape in ("flat", "nested"):
                    EVAL[0] += 1
                    val = list(arr) if shape == "flat" else [[arr[0], arr[1]], [arr[2]]]
                    want = all(allowed[name](v) for v in arr)
                    try:
                        dev3.validate_parameters(**{name: val})
                        got = True
                    except ValueError:
                        got = False
                    if got != want:
                        bad(f"Device.validate_parameters({name}={val}) {'accepted' if got else 'rejected'} the array; allowed values are {spec3['gate_parameters'][name]}")
        # ---- measurement limits (device.modes as a dictionary)
        spec2 = dict(SPEC, modes={"pnr_max": 2, "homodyne_max": 1, "heterodyne_max": 1})
        spec2["layout"] = None
        spec2["gate_parameters"] = None
        dev2 = sf.Device(spec=spec2)
        cases = [
            ("2 photon-counting modes", lambda q: ops.MeasureFock() | (q[0], q[1]), True),
            ("3 photon-counting modes", lambda q: ops.MeasureFock() | (q[0], q[1], q[2]), False),
            ("3 photon-counting modes in two statements", lambda q: (ops.MeasureFock() | (q[0], q[1]), ops.MeasureFock() | q[2]), False),
            ("1 homodyne mode", lambda q: ops.MeasureHomodyne(0.0) | q[0], True),
            ("2 homodyne modes", lambda q: (ops.MeasureHomodyne(0.0) | q[0], ops.MeasureHomodyne(0.0) | q[1]), False),
            ("2 heterodyne modes", lambda q: (ops.MeasureHeterodyne() | q[0], ops.MeasureHeterodyne() | q[1]), False),
            ("2 pnr + 1 homodyne + 1 heterodyne", lambda q: (ops.MeasureFock() | (q[0], q[1]), ops.MeasureHomodyne(0.0) | q[2], ops.MeasureHeterodyne() | q[3]), True),
        ]
        for what, body, ok in cases:
            EVAL[0] += 1
            prog = sf.Program(4)
            with prog.context as q:
                body(q)
            try:
                prog.assert_modes(dev2)
                if not ok:
                    bad(f"assert_modes accepted {what} on a device limited to 2 pnr / 1 homodyne / 1 heterodyne modes")
            except CircuitError:
                if ok:
                    bad(f"assert_modes rejected {what} although the device allows it")
    except Exception:
        import traceback
        traceback.print_exc()
        print("bounded stand-in crashed")
        sys.exit(3)
    emit_bounded("c12_device", EVAL[0], EVAL[0], [{"device": "mock 4-mode X-series spec", "squeezing": SQ_ALLOWED}], len(V))
    sys.exit(1 if V else 0)
