"""C06 (+C05 measurement clauses) bounded stand-in (labelled bounded).

 * Gaussian backend: numpy.random.multivariate_normal is replaced by a recorder; the (mean, covariance)
   handed to it must be the Born distribution N(mu_B, sigma_B + sigma_meas) of the measured quadratures of
   the PRE-measurement state (independent numpy computation from state.means()/cov()), for homodyne at
   several angles and heterodyne, every measured mode position of correlated 2- and 3-mode states; the
   post-measurement state must be the Schur-complement conditional state for the RETURNED outcome and the
   measured mode must be vacuum.
 * Fock backend: numpy.random.choice is replaced by an enumerator-style recorder; the probability vector
   handed to it must be the diagonal of the reduced state of the measured modes; for EVERY outcome (forced
   in turn) and every ORDER of the measured modes the reported outcome must pair photon numbers with the
   right modes and the unmeasured mode must collapse onto the conditional state of that reported outcome.
 * Post-selection gives the same conditional state on gaussian / bosonic / fock (homodyne at angles,
   heterodyne), and MeasureHomodyne select is interpreted in the same units on all backends.
 * Collation: Result.samples has one row per shot and one column per measured mode in ascending mode order;
   samples_dict[m] holds the outcomes of mode m; RegRef.val carries them.
usage: c06_measure.py <tier> <seed>
"""
import itertools, os, sys, warnings
warnings.filterwarnings("ignore")
sys.path.insert(0, os.path.dirname(os.path.dirname(os.path.abspath(__file__))))
import numpy as np
import strawberryfields as sf
from strawberryfields import ops
from native.common import emit_bounded

tier = sys.argv[1] if len(sys.argv) > 1 else "quick"
seed = int(sys.argv[2]) if len(sys.argv) > 2 else 0
V, EVAL = [], [0]
seen_known = set()


def bad(msg, fid="-"):
    if fid != "-":
        if fid in seen_known:
            return
        seen_known.add(fid)
    V.append(msg)
    d = os.path.join(os.path.dirname(os.path.dirname(os.path.abspath(__file__))), "replays", "C06")
    os.makedirs(d, exist_ok=True)
    p = os.path.join(d, f"bounded_{len(V)}.py")
    open(p, "w").write("# replay of a bounded stand-in violation (C06): re-run native/c06_measure.py\nimport sys\nprint(%r)\nprint('REPLAY-VIOLATION')\nsys.exit(1)\n" % msg)
    print(f"NATIVE-VIOLATION finding={fid} replay={p} {msg}")


def prep(q, n):
    for k in range(n):
        ops.Sgate(0.3 + 0.1 * k, 0.4 * k) | q[k]
        ops.Dgate(0.2 * (k + 1), 0.3 * k) | q[k]
    for k in range(n - 1):
        ops.BSgate(0.5 + 0.1 * k, 0.3) | (q[k], q[k + 1])
    if n > 2:
        ops.BSgate(0.7, 1.1) | (q[0], q[2])


def gaussian_state(n):
    prog = sf.Program(n)
    with prog.context as q:
        prep(q, n)
    st = sf.Engine("gaussian").run(prog).state
    return st.means(), st.cov()          # xxpp, hbar = sf.hbar


def rot(n, k, phi):
    """symplectic of Rgate(phi) on mode k (xxpp)"""
    S = np.eye(2 * n)
    c, s = np.cos(phi), np.sin(phi)
    S[k, k], S[k, k + n], S[k + n, k], S[k + n, k + n] = c, -s, s, c
    return S


def check_gaussian_rng():
    hb = sf.hbar
    for n in (2, 3):
        mu, cov = gaussian_state(n)
        for k in range(n):
            for kind, phi in [("homodyne", 0.0), ("homodyne", 0.7), ("homodyne", np.pi / 2), ("heterodyne", None)]:
                EVAL[0] += 1
                rec = {}
                orig = np.random.multivariate_normal

                def fake(mean, c, size=None, **kw):
                    rec["mean"], rec["cov"] = np.array(mean, dtype=float), np.array(c, dtype=float)
                    out = np.array(mean, dtype=float) + np.array([0.37, -0.21])[: len(mean)]
                    return np.array([out] * (size if isinstance(size, int) else 1))
                prog = sf.Program(n)
                with prog.context as q:
                    prep(q, n)
                    (ops.MeasureHomodyne(phi) if kind == "homodyne" else ops.MeasureHeterodyne()) | q[k]
                np.random.multivariate_normal = fake
                try:
                    eng = sf.Engine("gaussian")
                    res = eng.run(prog)
                finally:
                    np.random.multivariate_normal = orig
                if "mean" not in rec:
                    bad(f"gaussian {kind} on mode {k} of {n}: numpy.random.multivariate_normal was not used")
                    continue
                # independent Born distribution in hbar=2 units: rotate by -phi, take (x_k, p_k)
                sc = np.sqrt(2 / hb)
                if kind == "homodyne":
                    R = rot(n, k, -phi)
                    m2, c2 = R @ mu * sc, R @ cov @ R.T * sc ** 2
                    eps = 0.0002
                    sig = np.diag([eps ** 2, 1 / eps ** 2])
                else:
                    m2, c2 = mu * sc, cov * sc ** 2
                    sig = np.eye(2)
                idx = [k, k + n]
                mB, sB = m2[idx], c2[np.ix_(idx, idx)]
                if kind == "homodyne":
                    ok = abs(rec["mean"][0] - mB[0]) < 1e-8 and abs(rec["cov"][0, 0] - (sB[0, 0] + sig[0, 0])) < 1e-8
                else:
                    ok = np.allclose(rec["mean"], mB, atol=1e-8) and np.allclose(rec["cov"], sB + sig, atol=1e-8)
                if not ok:
                    bad(f"gaussian {kind}(phi={phi}) on mode {k} of {n}: RNG got mean {np.round(rec['mean'], 5).tolist()} cov {np.round(rec['cov'], 5).tolist()}, Born distribution has mean {np.round(mB, 5).tolist()} cov {np.round(sB + sig, 5).tolist()}")
                    continue
                # conditional state for the RETURNED outcome (hbar=2 units): Schur complement
                mret = rec["mean"] + np.array([0.37, -0.21])
                rest = [i for i in range(2 * n) if i not in idx]
                A, B, C = c2[np.ix_(rest, rest)], c2[np.ix_(rest, idx)], sB
                K = B @ np.linalg.inv(C + sig)
                if kind == "homodyne":
                    # only the x outcome is physical; the simulator draws/uses a p value of variance 1/eps^2 whose influence vanishes
                    pass
                Vc = A - K @ B.T
                rc = m2[rest] + K @ (mret - mB)
                st = res.state
                mu_a, cov_a = st.means() * sc, st.cov() * sc ** 2
                tol = 2e-3 if kind == "homodyne" else 1e-8
                if not (np.allclose(cov_a[np.ix_(rest, rest)], Vc, atol=tol) and np.allclose(mu_a[rest], rc, atol=tol)):
                    bad(f"gaussian {kind}(phi={phi}) on mode {k} of {n}: state of the unmeasured modes is not the conditional state of the returned outcome (max cov diff {abs(cov_a[np.ix_(rest, rest)] - Vc).max():.3g}, mean diff {abs(mu_a[rest] - rc).max():.3g})")
                if not (np.allclose(cov_a[np.ix_(idx, idx)], np.eye(2), atol=1e-8) and np.allclose(mu_a[idx], 0, atol=1e-8)
                        and np.allclose(cov_a[np.ix_(rest, idx)], 0, atol=1e-8)):
                    bad(f"gaussian {kind} on mode {k} of {n}: measured mode is not reset to an uncorrelated vacuum")
                # reported sample
                samp = res.samples
                if kind == "homodyne":
                    exp = mret[0] * np.sqrt(hb / 2)
                    if abs(samp[0, 0] - exp) > 1e-8:
                        bad(f"gaussian homodyne on mode {k}: reported sample {samp[0, 0]:.5f}, drawn outcome in hbar units {exp:.5f}")
                else:
                    exp = (mret[0] + 1j * mret[1]) / 2
                    if abs(samp[0, 0] - exp) > 1e-8:
                        bad(f"gaussian heterodyne on mode {k}: reported sample {samp[0, 0]}, drawn outcome alpha {exp}")


def check_fock_homodyne_rng():
    """Fock simulator, SAMPLED homodyne at an oblique angle: the probability vector handed to numpy.random.multinomial is the
    Born distribution of x_phi of the measured mode (mean / variance against the Gaussian representation), the reported sample
    is the drawn grid point, and the other modes are left in the state conditioned on THAT outcome (compared with the Gaussian
    simulator post-selected on the same value)."""
    cut = 10
    n = 2
    for k in range(n):
        for phi in (0.0, 0.7, np.pi / 2, -np.pi / 2):
            EVAL[0] += 1
            rec = {}
            orig = np.random.multinomial

            def fake(nn, pvals, size=None):
                p = np.array(pvals, dtype=float)
                rec["p"] = p
                idx = int(np.searchsorted(np.cumsum(p), 0.7))
                rec["idx"] = idx
                out = np.zeros(len(p), dtype=int)
                out[idx] = 1
                return out
            prog = sf.Program(n)
            with prog.context as q:
                prep(q, n)
                ops.MeasureHomodyne(phi) | q[k]
            np.random.multinomial = fake
            try:
                res = sf.Engine("fock", backend_options={"cutoff_dim": cut}).run(prog)
            finally:
                np.random.multinomial = orig
            label = f"fock sampled homodyne(phi={phi:.3f}) on mode {k} of {n}"
            if "p" not in rec:
                bad(f"{label}: numpy.random.multinomial was not used")
                continue
            grid = np.linspace(-10, 10, len(rec["p"]))
            mean = float(np.sum(rec["p"] * grid))
            var = float(np.sum(rec["p"] * grid ** 2) - mean ** 2)
            progg = sf.Program(n)
            with progg.context as q:
                prep(q, n)
            mg, vg = sf.Engine("gaussian").run(progg).state.quad_expectation(k, phi)
            if abs(mean - mg) > 4e-2 or abs(var - vg) > 6e-2:
                bad(f"{label}: the sampling distribution has mean {mean:.4f}, variance {var:.4f}; the Born distribution of x_phi has mean {mg:.4f}, variance {vg:.4f}")
                continue
            outcome = grid[rec["idx"]]
            if abs(res.samples[0, 0] - outcome) > 1e-9:
                bad(f"{label}: reported sample {res.samples[0, 0]:.5f} is not the drawn outcome {outcome:.5f}")
            # conditional state of the other mode: gaussian simulator post-selected on the same value
            progs = sf.Program(n)
            with progs.context as q:
                prep(q, n)
                ops.MeasureHomodyne(phi, select=float(outcome)) | q[k]
            ref = sf.Engine("gaussian").run(progs).state
            o = 1 - k
            a = np.array([res.state.quad_expectation(o, ph) for ph in (0.0, np.pi / 2, 0.6)])
            b = np.array([ref.quad_expectation(o, ph) for ph in (0.0, np.pi / 2, 0.6)])
            if not np.allclose(a, b, atol=6e-2):
                bad(f"{label}: mode {o} is not left in the state conditioned on the reported outcome {outcome:.3f}: moments {np.round(a, 3).tolist()} vs {np.round(b, 3).tolist()}")


def check_bosonic_threshold_conditioning():
    """bosonic simulator, threshold detector on one mode of a displaced, squeezed, entangled two-mode state: for BOTH outcomes the
    other mode is left in the conditional state Tr_0[E rho E]/p with E = |0><0| (no click) or 1 - |0><0| (click), computed
    independently from the Fock-backend ket; the measured mode is reset to vacuum"""
    cut = 28
    def prep2(q):
        ops.Sgate(0.5) | q[0]
        ops.Dgate(0.6, 0.3) | q[0]
        ops.Sgate(0.3, 0.4) | q[1]
        ops.BSgate(np.pi / 4, 0.2) | (q[0], q[1])
    for k in (0, 1):
        prog = sf.Program(2)
        with prog.context as q:
            prep2(q)
        psi = sf.Engine("fock", backend_options={"cutoff_dim": cut}).run(prog).state.ket()
        if k == 1:
            psi = psi.T
        ref = {}
        for outcome in (0, 1):
            rows = psi[:1] if outcome == 0 else psi[1:]
            rho1 = np.einsum("ab,ac->bc", rows, rows.conj())
            pr = np.trace(rho1).real
            rho1 = rho1 / pr
            nbar = float(np.sum(np.arange(cut) * np.diag(rho1).real))
            a = sum(np.sqrt(m) * rho1[m, m - 1] for m in range(1, cut))
            ref[outcome] = (pr, nbar, 2 * a.real, 2 * a.imag)            # hbar = 2: <x> = 2 Re<a>, <p> = 2 Im<a>
        seen = set()
        for sd in range(40):
            if len(seen) == 2:
                break
            np.random.seed(1000 + sd)
            progm = sf.Program(2)
            with progm.context as q:
                prep2(q)
                ops.MeasureThreshold() | q[k]
            try:
                res = sf.Engine("bosonic").run(progm)
            except Exception as e:
                bad(f"bosonic MeasureThreshold on mode {k}: raised {type(e).__name__}: {e}")
                break
            outcome = int(res.samples[0, 0])
            if outcome in seen:
                continue
            seen.add(outcome)
            EVAL[0] += 1
            o = 1 - k
            st = res.state
            got = (st.mean_photon(o)[0], st.quad_expectation(o, 0)[0], st.quad_expectation(o, np.pi / 2)[0])
            exp = ref[outcome][1:]
            if not np.allclose(got, exp, atol=2e-4):
                bad(f"bosonic MeasureThreshold on mode {k}, outcome {outcome} (probability {ref[outcome][0]:.3f}): mode {o} has (<n>, <x>, <p>) = {np.round(got, 4).tolist()}, the conditional state has {np.round(exp, 4).tolist()}")
            if abs(st.mean_photon(k)[0]) > 1e-8:
                bad(f"bosonic MeasureThreshold on mode {k}: the measured mode is not reset to vacuum (<n> = {st.mean_photon(k)[0]:.4g})")
        if len(seen) < 2:
            bad(f"bosonic MeasureThreshold on mode {k}: only outcomes {sorted(seen)} in 40 runs although both have probability > 0.2")


def _coh_overlap(g1, g2):
    return np.exp(-abs(g1) ** 2 / 2 - abs(g2) ** 2 / 2 + np.conj(g1) * g2)


def _superposition_observables(cs, gs):
    """(<n>, <x_phi> for phi = 0, 0.8, pi/2, <x^2>) of sum_k c_k |gamma_k> (coherent states), hbar = 2, closed form"""
    N = sum(np.conj(cj) * ck * _coh_overlap(gj, gk) for cj, gj in zip(cs, gs) for ck, gk in zip(cs, gs))
    ev = lambda f: sum(np.conj(cj) * ck * f(gj, gk) * _coh_overlap(gj, gk) for cj, gj in zip(cs, gs) for ck, gk in zip(cs, gs)) / N
    a = ev(lambda gj, gk: gk)
    a2 = ev(lambda gj, gk: gk ** 2)
    n = ev(lambda gj, gk: np.conj(gj) * gk).real
    out = [n]
    for phi in (0.0, 0.8, np.pi / 2):
        out.append(2 * (a * np.exp(-1j * phi)).real)
    out.append(2 * a2.real + 2 * n + 1)
    return np.array(out, dtype=float)


def check_bosonic_dyne_conditioning():
    """non-Gaussian states through the dyne measurements of the bosonic simulator: a cat state (even, odd, fractional parity,
    both representations - the default one has COMPLEX component means) is split on a beamsplitter and one output is
    measured by post-selected homodyne detection at angles along, across and oblique to the cat axis, or by heterodyne
    detection; the other output must be left in the conditional state, a superposition of two coherent states whose
    coefficients are the (closed-form) wavefunctions <x_phi = v | beta> resp. overlaps <mu | beta> of the measured branch;
    the Fock simulator must agree for homodyne detection.  Observables: <n>, <x_phi> at three angles, <x^2>."""
    th, ph = np.pi / 4, 0.3
    t, r = np.cos(th), np.exp(1j * ph) * np.sin(th)
    cats = [(1.2, 0.0, 0.0, None), (1.0, 0.4, 1.0, None), (0.9, -0.5, 0.5, None), (1.1, 0.2, 0.0, "real")]
    meas = [("homodyne", 0.0, 0.35), ("homodyne", np.pi / 2, 0.35), ("homodyne", np.pi / 2, -1.3), ("homodyne", 0.7, 0.8), ("homodyne", 0.7, 0.0),
            ("heterodyne", None, 0.3 + 0.4j), ("heterodyne", None, -0.2j)]
    for a, cphi, par, rep in cats:
        alpha = a * np.exp(1j * cphi)
        for kind, phi, v in meas:
            EVAL[0] += 1
            # branches |+-alpha> -> |+-t alpha>_0 |+-r alpha>_1 with coefficients 1, e^{i pi par}
            cs = []
            for sgn, c0 in ((1, 1.0), (-1, np.exp(1j * np.pi * par))):
                beta = sgn * r * alpha
                if kind == "homodyne":
                    b = beta * np.exp(-1j * phi)
                    x0, p0 = 2 * b.real, 2 * b.imag
                    amp = np.exp(-(v - x0) ** 2 / 4 + 1j * p0 * v / 2 - 1j * x0 * p0 / 4)
                else:
                    amp = np.exp(-abs(v) ** 2 / 2 - abs(beta) ** 2 / 2 + np.conj(v) * beta)
                cs.append(c0 * amp)
            want = _superposition_observables(cs, [t * alpha, -t * alpha])
            label = f"Catstate({a}, {cphi}, p={par}{', ' + rep if rep else ''}); BSgate; {kind}{'' if phi is None else f'(phi={phi:.2f})'} of q[1] post-selected on {v}"
            for backend in (("bosonic", "fock") if kind == "homodyne" else ("bosonic",)):
                if backend == "fock" and rep:
                    continue
                prog = sf.Program(2)
                with prog.context as q:
                    (ops.Catstate(a, cphi, par) if backend == "fock" or rep is None else ops.Catstate(a, cphi, par, representation=rep)) | q[0]
                    ops.BSgate(th, ph) | (q[0], q[1])
                    if kind == "homodyne":
                        ops.MeasureHomodyne(phi, select=v) | q[1]
                    else:
                        ops.MeasureHeterodyne(select=v) | q[1]
                try:
                    st = sf.Engine(backend, backend_options={"cutoff_dim": 26} if backend == "fock" else {}).run(prog).state
                    n = st.mean_photon(0)[0]
                    qs = [st.quad_expectation(0, x) for x in (0.0, 0.8, np.pi / 2)]
                    got = np.array([n] + [e[0] for e in qs] + [qs[0][1] + qs[0][0] ** 2], dtype=complex)
                except Exception as e:
                    bad(f"{label} on {backend}: raised {type(e).__name__}: {str(e)[:120]}")
                    continue
                tol = 2e-2 if backend == "fock" else 2e-3
                if not np.allclose(got, want, atol=tol):
                    bad(f"{label}: {backend} leaves q[0] with (<n>, <x>, <x_0.8>, <p>, <x^2>) = {np.round(got.real, 4).tolist()}, the conditional state has {np.round(want, 4).tolist()}")


def check_gaussian_photon_sampler():
    """gaussian photon counting / threshold detection: the moments handed to thewalrus' sampler are those of the measured modes in
    the listed order (displaced, correlated 2- and 3-mode states, every ordered subset)"""
    from native.c06_replay import check
    for which in ("measure_fock", "measure_threshold"):
        EVAL[0] += 1
        msg = check(which)({})
        if msg:
            bad(msg)


def check_fock_measure():
    cut = 3
    rng = np.random.RandomState(seed)
    for pure in (True, False):
        for n in (2, 3):
            ket = rng.randn(*([cut] * n)) + 1j * rng.randn(*([cut] * n))
            ket /= np.linalg.norm(ket)
            for r in range(1, n + 1):
                for modes in itertools.permutations(range(n), r):
                    nout = cut ** len(modes)
                    for forced in range(nout):
                        EVAL[0] += 1
                        eng = sf.Engine("fock", backend_options={"cutoff_dim": cut, "pure": pure})
                        prog = sf.Program(n)
                        with prog.context as q:
                            ops.Ket(ket) | tuple(q)
                            if not pure:
                                ops.LossChannel(1.0) | q[0]
                        eng.run(prog)
                        be = eng.backend
                        rec = {}
                        orig = np.random.choice

                        def fake(a, p=None, **kw):
                            rec["p"] = np.array(p, dtype=float)
                            return list(a)[forced]
                        np.random.choice = fake
                        try:
                            try:
                                out = be.measure_fock(list(modes))
                            except ZeroDivisionError:
                                continue
                        finally:
                            np.random.choice = orig
                        out = np.array(out).ravel().tolist()
                        # independent probabilities: |ket|^2 summed over unmeasured modes, index order = ascending measured modes
                        asc = sorted(modes)
                        P = abs(ket) ** 2
                        other = tuple(i for i in range(n) if i not in modes)
                        Pm = P.sum(axis=other) if other else P
                        if not np.allclose(rec["p"] / rec["p"].sum(), Pm.ravel() / Pm.sum(), atol=1e-9):
                            bad(f"fock(pure={pure}) measure_fock({list(modes)}): probability vector handed to the RNG is not the photon-number distribution of the measured modes")
                            break
                        if Pm.ravel()[forced] < 1e-12:
                            continue
                        expected_asc = list(np.unravel_index(forced, [cut] * len(modes)))
                        exp_out = [expected_asc[asc.index(m)] for m in modes]
                        if out != exp_out:
                            bad(f"fock(pure={pure}) measure_fock({list(modes)}): RNG picked photon numbers {dict(zip(asc, expected_asc))} but the reported outcome is {out} for modes {list(modes)}")
                            break
                        # conditional state of the unmeasured modes for the REPORTED outcome
                        if other:
                            sl = [slice(None)] * n
                            for m, v in zip(modes, out):
                                sl[m] = v
                            cond = ket[tuple(sl)]
                            cond = cond / np.linalg.norm(cond)
                            st = be.state()
                            rho = st.reduced_dm(list(other))
                            rho_exp = np.multiply.outer(cond, cond.conj())
                            k_ = len(other)
                            perm = [x for pair in zip(range(k_), range(k_, 2 * k_)) for x in pair]
                            rho_exp = rho_exp.transpose(perm)
                            if not np.allclose(rho, rho_exp, atol=1e-8):
                                bad(f"fock(pure={pure}) measure_fock({list(modes)}) reported {out}: the unmeasured mode(s) {list(other)} are not in the conditional state of that outcome (max diff {abs(rho - rho_exp).max():.3g})")
                                break
                            for m in modes:
                                if abs(st.mean_photon(m)[0]) > 1e-9:
                                    bad(f"fock measure_fock({list(modes)}): measured mode {m} not reset to vacuum")
                                    break


def cond_state(backend, n, k, meas, **kw):
    prog = sf.Program(n)
    with prog.context as q:
        prep(q, n)
        meas() | q[k]
    st = sf.Engine(backend, backend_options=kw).run(prog).state
    rest = [m for m in range(n) if m != k]
    return np.array([st.quad_expectation(m, ph)[j] for m in rest for ph in (0, np.pi / 2) for j in (0, 1)])


def check_cross_backend_postselect():
    hb = sf.hbar
    for n in (2, 3):
        for k in range(n):
            cases = [("homodyne phi=%.2f" % phi, (lambda phi=phi: ops.MeasureHomodyne(phi, select=0.3 * np.sqrt(hb)))) for phi in (0.0, 0.9, np.pi / 2)]
            cases.append(("heterodyne", lambda: ops.MeasureHeterodyne(select=0.3 + 0.2j)))
            for label, meas in cases:
                EVAL[0] += 1
                g = cond_state("gaussian", n, k, meas)
                b = cond_state("bosonic", n, k, meas)
                if not np.allclose(g, b, atol=(2e-3 if "homodyne" in label else 1e-7)):
                    bad(f"post-selected {label} on mode {k} of {n}: gaussian and bosonic conditional states differ (max {abs(g - b).max():.3g})")
                if n == 2 and tier != "quick" and "heterodyne" not in label:
                    f = cond_state("fock", n, k, meas, cutoff_dim=25)
                    if not np.allclose(g, f, atol=2e-2):
                        bad(f"post-selected {label} on mode {k} of {n}: gaussian and fock conditional states differ (max {abs(g - f).max():.3g})")


def check_collation():
    hb = sf.hbar
    for backend in ("gaussian", "bosonic", "fock"):
        for order in itertools.permutations(range(3)):
            for subset in (order, order[:2]):
                EVAL[0] += 1
                vals = {m: 0.1 * (m + 1) * np.sqrt(hb) for m in subset}
                prog = sf.Program(3)
                with prog.context as q:
                    ops.S2gate(0.3) | (q[0], q[1])
                    ops.BSgate(0.4, 0.1) | (q[1], q[2])
                    for m in subset:
                        ops.MeasureHomodyne(0.0, select=vals[m]) | q[m]
                kw = {"cutoff_dim": 8} if backend == "fock" else {}
                try:
                    res = sf.Engine(backend, backend_options=kw).run(prog)
                except Exception as e:
                    bad(f"{backend}: measuring modes {list(subset)} raised {type(e).__name__}: {e}")
                    continue
                s = np.array(res.samples)
                exp = [vals[m] for m in sorted(subset)]
                if s.shape != (1, len(subset)) or not np.allclose(s[0], exp, atol=1e-8):
                    bad(f"{backend}: measuring modes in order {list(subset)} gives samples {np.round(s, 4).tolist()}, expected one row {np.round(exp, 4).tolist()} (ascending mode order)")
                    continue
                sd = res.samples_dict
                if sorted(sd) != sorted(subset) or any(abs(np.ravel(sd[m][-1])[0] - vals[m]) > 1e-8 for m in subset):
                    bad(f"{backend}: samples_dict for modes {list(subset)} is {sd}")
                for m in subset:
                    v = prog.register[m].val
                    if v is None or abs(np.ravel(v)[0] - vals[m]) > 1e-8:
                        bad(f"{backend}: RegRef.val of measured mode {m} is {v}")


if __name__ == "__main__":
    for f in (check_gaussian_rng, check_fock_homodyne_rng, check_bosonic_threshold_conditioning, check_bosonic_dyne_conditioning, check_gaussian_photon_sampler, check_fock_measure, check_cross_backend_postselect, check_collation):
        try:
            f()
        except Exception:
            import traceback
            traceback.print_exc()
            print("bounded stand-in crashed in", f.__name__)
            sys.exit(3)
    emit_bounded("c06_measure", EVAL[0], EVAL[0], [{"gaussian": "homodyne(0,0.7,pi/2)+heterodyne on every mode of 2/3-mode states", "fock": "all ordered mode subsets x all forced outcomes, cutoff 3"}], len(V))
    sys.exit(1 if V else 0)
