"""C11 bounded stand-in (labelled bounded): the Gaussian-merging compilers end to end.
 * gaussian_unitary / passive: generated circuits (every Gaussian gate class, every placement on sparse mode subsets of
   4-6 mode registers, random order) compiled, then source and compiled program run on the gaussian backend from a
   correlated input: identical means and covariance (exact); a purely passive circuit gives the same transfer matrix.
 * gaussian_merge: Gaussian gates interleaved with non-Gaussian gates (Kgate, Vgate, CKgate) and measurements on 2-3
   modes; source and compiled program run on the fock backend: same reduced density matrices; non-Gaussian commands
   survive in order on their modes.
usage: c11_compilers.py <tier> <seed>"""
import itertools, os, sys, warnings
warnings.filterwarnings("ignore")
sys.path.insert(0, os.path.dirname(os.path.dirname(os.path.abspath(__file__))))
os.environ.setdefault("OMP_NUM_THREADS", "1")
import numpy as np
import strawberryfields as sf
from strawberryfields import ops
from native.common import emit_bounded

tier = sys.argv[1] if len(sys.argv) > 1 else "quick"
seed = int(sys.argv[2]) if len(sys.argv) > 2 else 0
V, EVAL = [], [0]
seen_known = set()


def bad(msg, fid="-"):
    msg = " ".join(str(msg).split())
    if fid != "-":
        if fid in seen_known:
            return
        seen_known.add(fid)
    V.append(msg)
    d = os.path.join(os.path.dirname(os.path.dirname(os.path.abspath(__file__))), "replays", "C11")
    os.makedirs(d, exist_ok=True)
    p = os.path.join(d, f"bounded_{len(V)}.py")
    open(p, "w").write("# replay of a bounded stand-in violation (C11): re-run native/c11_compilers.py\nimport sys\nprint(%r)\nprint('REPLAY-VIOLATION')\nsys.exit(1)\n" % msg)
    print(f"NATIVE-VIOLATION finding={fid} replay={p} {msg}")


G1 = [("Dgate", 2), ("Xgate", 1), ("Zgate", 1), ("Rgate", 1), ("Sgate", 2), ("Pgate", 1), ("Fouriergate", 0)]
G2 = [("BSgate", 2), ("MZgate", 2), ("S2gate", 2), ("CXgate", 1), ("CZgate", 1)]
PASSIVE1 = [("Rgate", 1)]
PASSIVE2 = [("BSgate", 2), ("MZgate", 2)]


def random_gates(rng, modes, length, one, two, with_dagger=False):
    """list of (class name, params, target modes, dagger)"""
    out = []
    for _ in range(length):
        if len(modes) > 1 and rng.rand() < 0.5:
            name, k = two[rng.randint(len(two))]
            a, b = rng.choice(modes, 2, replace=False)
            tg = (int(a), int(b))
        else:
            name, k = one[rng.randint(len(one))]
            tg = (int(rng.choice(modes)),)
        p = tuple(float(x) for x in rng.uniform(-0.6, 0.6, k))
        out.append((name, p, tg, bool(with_dagger and rng.rand() < 0.3 and name not in ("Fouriergate", "MZgate"))))
    return out


def build(n, gates, pre=True, measure=None):
    prog = sf.Program(n)
    with prog.context as q:
        for name, p, tg, dag in gates:
            g = getattr(ops, name)(*p)
            (g.H if dag else g) | tuple(q[m] for m in tg)
        if measure == "fock":
            ops.MeasureFock() | tuple(q)
    return prog


def run_gaussian(n, circuit, prefix):
    """state after prefix (a correlated input) followed by the given commands"""
    prog = sf.Program(n)
    with prog.context as q:
        for k in range(n):
            ops.Sgate(0.2 + 0.05 * k, 0.3 * k) | q[k]
            ops.Dgate(0.1 * (k + 1), 0.5 * k) | q[k]
        for k in range(n - 1):
            ops.BSgate(0.4, 0.2 * k) | (q[k], q[k + 1])
        for c in circuit:
            c.op | tuple(q[r.ind] for r in c.reg)
    st = sf.Engine("gaussian").run(prog).state
    return st.means(), st.cov()


def expand(S, modes, n):
    """symplectic / passive X matrix of the listed modes (xxpp of those modes) -> full register"""
    k = len(modes)
    F = np.eye(2 * n)
    idx = list(modes) + [m + n for m in modes]
    for a in range(2 * k):
        for b in range(2 * k):
            F[idx[a], idx[b]] = S[a, b]
    return F


def apply_numerically(n, mu, V, circuit):
    """documented action of GaussianTransform(S) (xxpp symplectic of its modes), Dgate and PassiveChannel(T) on (mu, V), hbar=2"""
    for c in circuit:
        nm = type(c.op).__name__
        modes = [r.ind for r in c.reg]
        if nm == "GaussianTransform":
            F = expand(np.array(c.op.p[0], dtype=float), modes, n)
            mu, V = F @ mu, F @ V @ F.T
        elif nm == "Dgate":
            r, phi = float(c.op.p[0]), float(c.op.p[1])
            mu = mu.copy()
            mu[modes[0]] += 2 * r * np.cos(phi); mu[modes[0] + n] += 2 * r * np.sin(phi)
        elif nm == "PassiveChannel":
            T = np.array(c.op.p[0], dtype=complex)
            X = expand(np.block([[T.real, -T.imag], [T.imag, T.real]]), modes, n)
            mu, V = X @ mu, X @ V @ X.T + (np.eye(2 * n) - X @ X.T)
        else:
            raise ValueError(nm)
    return mu, V


def check_unitary_compilers(rng):
    sizes = [(4, 10), (6, 14)] if tier == "quick" else [(4, 10), (6, 14), (9, 18), (11, 20)]
    reps = 6 if tier == "quick" else 20
    for n, length in sizes:
        for rep in range(reps):
            # a sparse, non-contiguous subset of the register, used in scrambled order
            k = rng.randint(2, n + 1)
            modes = [int(x) for x in rng.choice(n, k, replace=False)]
            for compiler, one, two in (("gaussian_unitary", G1, G2), ("passive", PASSIVE1, PASSIVE2)):
                EVAL[0] += 1
                gates = random_gates(rng, modes, length, one, two)
                if compiler == "passive":
                    gates = gates + [("LossChannel", (0.8,), (modes[0],), False)] if rng.rand() < 0.5 else gates
                    # matrix-valued passive operations on 1..3 of the used modes, with genuinely complex matrices, at a random position
                    from strawberryfields.utils import random_interferometer
                    for nm, scale in (("Interferometer", 1.0), ("PassiveChannel", 0.8)):
                        m = int(rng.randint(1, min(3, len(modes)) + 1))
                        if nm == "Interferometer" and m == 1:
                            m = min(2, len(modes))
                        tg = tuple(int(x) for x in rng.choice(modes, m, replace=False))
                        gates.insert(int(rng.randint(0, len(gates) + 1)), (nm, (scale * random_interferometer(m),), tg, False))
                prog = build(n, gates)
                label = f"{compiler} n={n} modes={modes} gates={[(g[0], g[2]) for g in gates]}"
                try:
                    comp = prog.compile(compiler=compiler)
                except Exception as e:
                    bad(f"{label}: compile raised {type(e).__name__}: {str(e)[:150]}")
                    continue
                names = [type(c.op).__name__ for c in comp.circuit]
                if compiler == "gaussian_unitary" and not set(names) <= {"GaussianTransform", "Dgate"}:
                    bad(f"{label}: compiled circuit contains {sorted(set(names))}")
                if compiler == "passive" and not set(names) <= {"PassiveChannel"}:
                    bad(f"{label}: compiled circuit contains {sorted(set(names))}")
                touched = set(m for g in gates for m in g[2])
                if any(r.ind not in touched for c in comp.circuit for r in c.reg):
                    bad(f"{label}: compiled circuit acts on modes outside {sorted(touched)}")
                try:
                    mu0, V0 = run_gaussian(n, prog.circuit, True)
                    mu_in, V_in = run_gaussian(n, [], True)
                    mu1, V1 = apply_numerically(n, mu_in, V_in, comp.circuit)
                except Exception as e:
                    bad(f"{label}: running source / compiled program raised {type(e).__name__}: {str(e)[:150]}; compiled = {[(type(c.op).__name__, [r.ind for r in c.reg]) for c in comp.circuit]}")
                    continue
                err = max(abs(mu0 - mu1).max(), abs(V0 - V1).max())
                if err > 1e-7:
                    bad(f"{label}: compiled program leaves a different Gaussian state (max difference {err:.3g})")


def check_dagger(rng):
    """F14: daggered gates (open finding): reported under its id"""
    EVAL[0] += 1
    gates = [("Rgate", (0.4,), (0,), True), ("BSgate", (0.3, 0.2), (0, 1), False)]
    prog = build(2, gates)
    comp = prog.compile(compiler="gaussian_unitary")
    mu0, V0 = run_gaussian(2, prog.circuit, True)
    mu1, V1 = run_gaussian(2, comp.circuit, True)
    if max(abs(mu0 - mu1).max(), abs(V0 - V1).max()) > 1e-7:
        bad("gaussian_unitary: a program with Rgate(0.4).H compiles to a different transformation (dagger ignored)", "F14")


def fock_rdms(n, circuit, cutoff):
    prog = sf.Program(n)
    with prog.context as q:
        for k in range(n):
            ops.Dgate(0.25 + 0.05 * k, 0.4 * k) | q[k]
        for c in circuit:
            if type(c.op).__name__.startswith("Measure"):
                continue
            c.op | tuple(q[r.ind] for r in c.reg)
    st = sf.Engine("fock", backend_options={"cutoff_dim": cutoff}).run(prog).state
    return [st.reduced_dm([m]) for m in range(n)] + ([st.reduced_dm([0, n - 1])] if n > 1 else [])


def f51_pattern(gates):
    """two-mode Gaussian gate, later a non-Gaussian gate on one of its modes, later a two-mode Gaussian gate on the same pair"""
    for i, (n1, _, t1, _) in enumerate(gates):
        if len(t1) == 2 and n1 != "CKgate":
            for k in range(i + 2, len(gates)):
                n3, _, t3, _ = gates[k]
                if len(t3) == 2 and n3 != "CKgate" and set(t3) == set(t1):
                    if any(gates[j][0] in ("Kgate", "Vgate", "CKgate") and set(gates[j][2]) & set(t1) for j in range(i + 1, k)):
                        return True
    return False


def check_gaussian_merge(rng):
    NG1 = [("Kgate", 1), ("Vgate", 1)]
    NG2 = [("CKgate", 1)]
    cases = 6 if tier == "quick" else 18
    for rep in range(cases):
        n = 2 if rep % 2 == 0 else 3
        cutoff = 9 if n == 2 else 7
        EVAL[0] += 1
        gates = []
        for seg in range(3):
            gates += random_gates(rng, list(range(n)), rng.randint(1, 4), [g for g in G1 if g[0] != "Pgate"], [g for g in G2 if g[0] in ("BSgate", "MZgate")])
            if seg < 2:
                if n > 1 and rng.rand() < 0.3:
                    a, b = rng.choice(n, 2, replace=False)
                    gates.append(("CKgate", (float(rng.uniform(0.05, 0.2)),), (int(a), int(b)), False))
                else:
                    name, _ = NG1[rng.randint(2)]
                    gates.append((name, (float(rng.uniform(0.02, 0.1)),), (int(rng.randint(n)),), False))
        # keep the photon number small: scale squeezing / displacement parameters
        gates = [(nm, tuple(0.4 * x for x in p) if nm in ("Sgate", "Dgate", "Xgate", "Zgate", "S2gate") else p, tg, dg) for nm, p, tg, dg in gates]
        prog = build(n, gates, measure="fock")
        label = f"gaussian_merge n={n} gates={[(g[0], g[2]) for g in gates]}"
        try:
            comp = prog.compile(compiler="gaussian_merge")
        except Exception as e:
            fid = "F51" if type(e).__name__ == "NetworkXUnfeasible" and f51_pattern(gates) else "-"
            bad(f"{label}: compile raised {type(e).__name__}: {str(e)[:150]}", fid)
            continue
        ng0 = [(type(c.op).__name__, tuple(r.ind for r in c.reg), tuple(float(x) for x in c.op.p)) for c in prog.circuit if type(c.op).__name__ in ("Kgate", "Vgate", "CKgate")]
        ng1 = [(type(c.op).__name__, tuple(r.ind for r in c.reg), tuple(float(x) for x in c.op.p)) for c in comp.circuit if type(c.op).__name__ in ("Kgate", "Vgate", "CKgate")]
        if sorted(ng0) != sorted(ng1):
            bad(f"{label}: the non-Gaussian commands changed: {ng0} -> {ng1}")
        if [type(c.op).__name__ for c in comp.circuit].count("MeasureFock") != 1:
            bad(f"{label}: the measurement was lost or duplicated")
        try:
            r0 = fock_rdms(n, prog.circuit, cutoff)
            r1 = fock_rdms(n, comp.circuit, cutoff)
            err = max(abs(a - b).max() for a, b in zip(r0, r1))
            if err > 1e-2:
                # truncation or defect?  repeat with a larger cutoff: a truncation artefact shrinks
                r0 = fock_rdms(n, prog.circuit, cutoff + 4)
                r1 = fock_rdms(n, comp.circuit, cutoff + 4)
                err2 = max(abs(a[:cutoff, :cutoff] - b[:cutoff, :cutoff]).max() if a.ndim == 2 else abs(a - b).max() for a, b in zip(r0, r1))
                if err2 > 1e-2 and err2 > 0.5 * err:
                    bad(f"{label}: compiled program gives different reduced states on the fock backend (max difference {err:.3g} at cutoff {cutoff}, {err2:.3g} at cutoff {cutoff + 4})")
        except Exception as e:
            fid = "-"
            bad(f"{label}: running the compiled program raised {type(e).__name__}: {str(e)[:150]}", fid)
            continue


def run_interpreted(n, circuit):
    """the compiler treats Kgate / Vgate / CKgate as opaque non-Gaussian barriers (it decides by class name); ANY fixed
    unitary may stand for an opaque gate, so they are interpreted as (non-commuting) Gaussian gates and both circuits are
    run exactly on the gaussian backend"""
    prog = sf.Program(n)
    with prog.context as q:
        for k in range(n):
            ops.Sgate(0.2 + 0.05 * k, 0.3 * k) | q[k]
            ops.Dgate(0.1 * (k + 1), 0.5 * k) | q[k]
        for c in circuit:
            nm = type(c.op).__name__
            regs = tuple(q[r.ind] for r in c.reg)
            if nm.startswith("Measure"):
                continue
            if nm == "Kgate":
                ops.Sgate(float(c.op.p[0]), 0.3) | regs
            elif nm == "Vgate":
                ops.Sgate(float(c.op.p[0]), 1.1) | regs
            elif nm == "CKgate":
                ops.CZgate(float(c.op.p[0])) | regs
            else:
                c.op | regs
    st = sf.Engine("gaussian").run(prog).state
    return st.means(), st.cov()


def check_gaussian_merge_interpreted(rng):
    cases = 120 if tier == "quick" else 1200
    NG = [("Kgate", 1), ("Vgate", 1)]
    one = [g for g in G1 if g[0] in ("Dgate", "Rgate", "Sgate")]
    two = [g for g in G2 if g[0] in ("BSgate", "MZgate", "S2gate")]
    for rep in range(cases):
        n = 2 + rep % 4
        EVAL[0] += 1
        gates = []
        for seg in range(rng.randint(2, 5)):
            gates += random_gates(rng, list(range(n)), rng.randint(1, 5), one, two)
            if rng.rand() < 0.25 and n > 1:
                a, b = rng.choice(n, 2, replace=False)
                gates.append(("CKgate", (float(rng.uniform(0.2, 0.5)),), (int(a), int(b)), False))
            else:
                name, _ = NG[rng.randint(2)]
                gates.append((name, (float(rng.uniform(0.2, 0.5)),), (int(rng.randint(n)),), False))
        gates += random_gates(rng, list(range(n)), rng.randint(0, 4), one, two)
        prog = build(n, gates, measure="fock")
        label = f"gaussian_merge n={n} gates={[(g[0], g[2]) for g in gates]}"
        try:
            comp = prog.compile(compiler="gaussian_merge")
        except Exception as e:
            bad(f"{label}: compile raised {type(e).__name__}: {str(e)[:150]}")
            continue
        key = lambda c: (type(c.op).__name__, tuple(r.ind for r in c.reg), tuple(round(float(x), 9) for x in c.op.p))
        ng0 = sorted(key(c) for c in prog.circuit if type(c.op).__name__ in ("Kgate", "Vgate", "CKgate"))
        ng1 = sorted(key(c) for c in comp.circuit if type(c.op).__name__ in ("Kgate", "Vgate", "CKgate"))
        if ng0 != ng1:
            bad(f"{label}: the non-Gaussian commands changed")
            continue
        try:
            mu0, V0 = run_interpreted(n, prog.circuit)
            mu1, V1 = run_interpreted(n, comp.circuit)
        except Exception as e:
            bad(f"{label}: running the compiled program raised {type(e).__name__}: {str(e)[:150]}; compiled = {[(type(c.op).__name__, [r.ind for r in c.reg]) for c in comp.circuit]}")
            continue
        err = max(abs(mu0 - mu1).max(), abs(V0 - V1).max())
        if err > 1e-6:
            bad(f"{label}: with the opaque gates interpreted as fixed unitaries the compiled program {[(type(c.op).__name__, [r.ind for r in c.reg]) for c in comp.circuit]} computes something else (max difference {err:.3g})")


def check_gaussian_merge_exhaustive(rng):
    """every sequence of up to 4 (thorough: 5) commands over a small two-mode alphabet with displacing, non-displacing, two-mode
    and opaque (non-Gaussian) commands, compiled with gaussian_merge: same commands on every wire around every opaque gate,
    same computation with the opaque gates interpreted as fixed unitaries"""
    import itertools
    ALPHA = [("Sgate", (0.3, 0.1), (0,)), ("Dgate", (0.4, 0.1), (0,)), ("Rgate", (0.5,), (1,)), ("Dgate", (0.2, 0.7), (1,)),
             ("BSgate", (0.7, 0.2), (0, 1)), ("Kgate", (0.5,), (0,)), ("Kgate", (0.3,), (1,)), ("CKgate", (0.4,), (0, 1))]
    L = 4 if tier == "quick" else 5
    import warnings as _w
    for ln in range(2, L + 1):
        for seq in itertools.product(range(len(ALPHA)), repeat=ln):
            names = [ALPHA[i][0] for i in seq]
            if not any(nm in ("Kgate", "CKgate") for nm in names) or sum(nm not in ("Kgate", "CKgate") for nm in names) < 2:
                continue
            EVAL[0] += 1
            gates = [(ALPHA[i][0], ALPHA[i][1], ALPHA[i][2], False) for i in seq]
            prog = build(2, gates, measure="fock")
            label = f"gaussian_merge on {[(g[0], g[2]) for g in gates]}"
            try:
                with _w.catch_warnings():
                    _w.simplefilter("ignore")
                    comp = prog.compile(compiler="gaussian_merge")
                mu0, V0 = run_interpreted(2, prog.circuit)
                mu1, V1 = run_interpreted(2, comp.circuit)
            except Exception as e:
                bad(f"{label}: raised {type(e).__name__}: {str(e)[:150]}")
                return
            err = max(abs(mu0 - mu1).max(), abs(V0 - V1).max())
            if err > 1e-6:
                bad(f"{label}: the compiled program {[(type(c.op).__name__, [r.ind for r in c.reg]) for c in comp.circuit]} computes something else (max difference {err:.3g})")
                return


if __name__ == "__main__":
    rng = np.random.RandomState(seed + 11)
    np.random.seed(seed + 11)
    PROP = sys.argv[3] if len(sys.argv) > 3 else "C11"
    # C04 (reorderings respect dependencies): only the DAG surgery of gaussian_merge
    FNS = (check_gaussian_merge_interpreted, check_gaussian_merge_exhaustive) if PROP == "C04" else (
        check_unitary_compilers, check_dagger, check_gaussian_merge, check_gaussian_merge_interpreted, check_gaussian_merge_exhaustive)
    for f in FNS:
        try:
            f(rng)
        except Exception:
            import traceback
            traceback.print_exc()
            print("bounded stand-in crashed in", f.__name__)
            sys.exit(3)
    emit_bounded("c11_compilers", EVAL[0], EVAL[0], [{"compilers": ["gaussian_unitary", "passive", "gaussian_merge"]}], len(V))
    sys.exit(1 if V else 0)
