"""native replay for the C14 IR-level contracts: the catalogue entry and the parameter values of the verifier's
counter-model are rebuilt as a real Program; to_blackbird/from_blackbird (to_xir/from_xir) run with the real
blackbird / xir objects (no text) and the loaded program is compared command by command."""
import os, sys, warnings
warnings.filterwarnings("ignore")
sys.path.insert(0, os.path.dirname(os.path.dirname(os.path.abspath(__file__))))
import numpy as np


def check(ir):
    def f(I):
        import strawberryfields as sf
        from strawberryfields import ops
        from native.c14_catalogue import catalogue, ConcreteH
        from native.c14_io import describe, diff
        cat = catalogue(ConcreteH(I), ops)
        label, n, build = cat[int(I.get("op", 0)) % len(cat)]
        prog = sf.Program(n, name="c14")
        with prog.context as q:
            build(q)
        d0 = describe(prog)
        try:
            if ir == "blackbird":
                loaded = sf.io.blackbird_io.from_blackbird(sf.io.to_blackbird(prog))
            else:
                loaded = sf.io.xir_io.from_xir(sf.io.to_xir(prog))
        except Exception as e:
            return f"{ir} {label}: converting to the IR and back raised {type(e).__name__}: {str(e)[:150]}"
        if describe(prog) != d0 and diff(d0, describe(prog))[0]:
            return f"{ir} {label}: converting modified the program: {diff(d0, describe(prog))[0]}"
        msg, kind = diff(d0, describe(loaded))
        if msg and kind != "dagger":
            return f"{ir} {label} with {dict((k, v) for k, v in (I or {}).items() if k != 'op')}: {msg}"
    return f


def battery():
    out = []
    for op in range(40):
        out.append({"op": op})
        out.append({"op": op, "s": 0.0, "s0": 0, "s1": 0, "d0": 0.0, "d1": 0.0, "x": 0.0, "phi": 0.0, "r": 0.0})
    return out


def replay(ir, obligation, I):
    from native.common import run_replay
    sys.argv = sys.argv[:1]
    run_replay(obligation, I, check(ir), battery())


def check_factor(I):
    import numpy as np
    from strawberryfields.io.utils import _factor_out_pi
    for key in ("p", "k"):
        if key in (I or {}):
            p = I[key]
            text = _factor_out_pi([p])
            v = eval(text, {"np": np})
            if abs(v - p) > 1e-5:
                return f"_factor_out_pi([{p!r}]) = {text!r} which denotes {v!r}"


def replay_factor(obligation, I):
    from native.common import run_replay
    import numpy as np
    bat = [{"p": k * np.pi / 12} for k in range(-60, 61)] + [{"p": k * np.pi / 12 - 1e-9} for k in range(-30, 31)] + [{"p": k * np.pi / 12 + 1e-9} for k in range(-30, 31)]
    run_replay(obligation, I, check_factor, bat)
