"""C12 bounded stand-in (labelled bounded): X-series compilers preserve the experiment.
Generated source programs on 4 (quick) / 4,6,8 (thorough) modes: S2gates on the pairs (i, i+N) with zero, missing,
repeated squeezers (repetition on one pair and on several pairs), a random / permutation / identity interferometer
applied identically to both halves (as Interferometer or as explicit BS/R gates), MeasureFock on all modes.
Compiled with Xunitary and Xcov; the Gaussian state of the measured modes must be identical (Xunitary) or equal
up to local phases, i.e. same <n_i> and same photon-number covariances |N_ij|^2+|M_ij|^2 (Xcov).  The compiled
circuit must have the X layout: S2gates on (i, i+N) exactly once, the same MZgate/Rgate mesh on both halves, one
MeasureFock.  usage: c12_hw.py <tier> <seed>"""
import itertools, os, sys, warnings
warnings.filterwarnings("ignore")
sys.path.insert(0, os.path.dirname(os.path.dirname(os.path.abspath(__file__))))
import numpy as np
import strawberryfields as sf
from strawberryfields import ops
from strawberryfields.utils import random_interferometer
from strawberryfields.program_utils import CircuitError
from native.common import emit_bounded

tier = sys.argv[1] if len(sys.argv) > 1 else "quick"
seed = int(sys.argv[2]) if len(sys.argv) > 2 else 0
V, EVAL = [], [0]


def bad(msg):
    V.append(msg)
    d = os.path.join(os.path.dirname(os.path.dirname(os.path.abspath(__file__))), "replays", "C12")
    os.makedirs(d, exist_ok=True)
    p = os.path.join(d, f"bounded_{len(V)}.py")
    open(p, "w").write("# replay of a bounded stand-in violation (C12): re-run native/c12_hw.py\nimport sys\nprint(%r)\nprint('REPLAY-VIOLATION')\nsys.exit(1)\n" % msg)
    print(f"NATIVE-VIOLATION finding=- replay={p} {msg}")


def moments(prog_circuit, n):
    """N = <a_i^dag a_j>, M = <a_i a_j> of the state before the measurement, from the gaussian backend"""
    prog = sf.Program(n)
    with prog.context as q:
        for c in prog_circuit:
            if type(c.op).__name__.startswith("Measure"):
                continue
            c.op | tuple(q[r.ind] for r in c.reg)
    st = sf.Engine("gaussian").run(prog).state
    cov = st.cov() / (sf.hbar / 2)
    mu = st.means()
    X, P, XP = cov[:n, :n], cov[n:, n:], cov[:n, n:]
    # a = (x + i p)/2 in hbar=2 units
    Nm = (X + P + 1j * (XP - XP.T)) / 4 - np.eye(n) / 2
    Mm = (X - P + 1j * (XP + XP.T)) / 4
    return Nm, Mm, mu


def squeezings(N, rng):
    yield "all-equal", [[(0.6, 0.0)] for _ in range(N)]
    yield "one-zero", [[(0.0, 0.0)] if i == 0 else [(0.5, 0.0)] for i in range(N)]
    yield "one-missing", [[] if i == 1 % N else [(0.4, 0.0)] for i in range(N)]
    yield "none", [[] for _ in range(N)]
    yield "repeated-on-one-pair", [[(0.3, 0.0), (0.2, 0.0)] if i == 0 else [(0.4, 0.0)] for i in range(N)]
    yield "repeated-on-two-pairs", [[(0.3, 0.0), (0.2, 0.0)] if i < 2 else [(0.4, 0.0)] for i in range(N)]
    yield "repeated-on-all-pairs", [[(0.1 * (i + 1), 0.0), (0.2, 0.0), (0.05, 0.0)] for i in range(N)]


def unitaries(N, rng):
    yield "identity", np.eye(N, dtype=complex)
    yield "swap", np.eye(N, dtype=complex)[::-1]
    yield "haar", random_interferometer(N)
    if tier != "quick":
        yield "haar2", random_interferometer(N)
        yield "phases", np.diag(np.exp(1j * rng.uniform(0, 2 * np.pi, N)))


def source(n, sq, U, interleave):
    N = n // 2
    prog = sf.Program(n)
    with prog.context as q:
        rounds = max(len(s) for s in sq) if sq else 0
        if interleave:
            for r in range(rounds):
                for i in range(N):
                    if r < len(sq[i]):
                        ops.S2gate(*sq[i][r]) | (q[i], q[i + N])
        else:
            for i in range(N):
                for (r_, p_) in sq[i]:
                    ops.S2gate(r_, p_) | (q[i], q[i + N])
        ops.Interferometer(U) | tuple(q[:N])
        ops.Interferometer(U) | tuple(q[N:])
        ops.MeasureFock() | tuple(q)
    return prog


def check_layout(comp, n, label):
    N = n // 2
    names = [type(c.op).__name__ for c in comp.circuit]
    s2 = [(c.reg[0].ind, c.reg[1].ind) for c in comp.circuit if type(c.op).__name__ == "S2gate"]
    if sorted(s2) != [(i, i + N) for i in range(N)]:
        bad(f"{label}: compiled circuit has S2gates on {s2}, the layout needs exactly one on each pair (i, i+{N})")
    if names.count("MeasureFock") != 1 or names[-1] != "MeasureFock":
        bad(f"{label}: compiled circuit does not end in exactly one MeasureFock: {names}")
    first = None
    for k, nm in enumerate(names):
        if nm != "S2gate":
            first = k
            break
    if any(nm == "S2gate" for nm in names[first:]):
        bad(f"{label}: an S2gate follows the interferometer")
    lo = [(type(c.op).__name__, tuple(r.ind for r in c.reg), tuple(np.round(np.array(c.op.p, dtype=float), 9))) for c in comp.circuit
          if type(c.op).__name__ in ("MZgate", "Rgate") and all(r.ind < N for r in c.reg)]
    hi = [(type(c.op).__name__, tuple(r.ind - N for r in c.reg), tuple(np.round(np.array(c.op.p, dtype=float), 9))) for c in comp.circuit
          if type(c.op).__name__ in ("MZgate", "Rgate") and all(r.ind >= N for r in c.reg)]
    if lo != hi:
        bad(f"{label}: the meshes on the two halves differ")


if __name__ == "__main__":
    rng = np.random.RandomState(seed)
    np.random.seed(seed)
    hbar0 = sf.hbar
    try:
      # the convention hbar is a global of the front end: the compilers must give the same experiment under every value of it
      for hb in ((hbar0, 1.0) if tier == "quick" else (hbar0, 1.0, 0.5, 4.0)):
        sf.hbar = hb
        for n in ((4,) if tier == "quick" or hb != hbar0 else (4, 6, 8)):
            N = n // 2
            cases = list(itertools.product(squeezings(N, rng), unitaries(N, rng)))
            if hb != hbar0:
                cases = cases[::3]
            for (sl, sq), (ul, U) in cases:
                for interleave in (False, True):
                    for compiler in ("Xunitary", "Xcov"):
                        EVAL[0] += 1
                        label = f"{compiler} n={n} squeezers={sl} unitary={ul} interleaved={interleave}" + (f" at sf.hbar={hb}" if hb != hbar0 else "")
                        prog = source(n, sq, U, interleave)
                        try:
                            comp = prog.compile(compiler=compiler)
                        except CircuitError as e:
                            bad(f"{label}: a valid source program was rejected: {e}")
                            continue
                        except Exception as e:
                            bad(f"{label}: raised {type(e).__name__}: {e}")
                            continue
                        check_layout(comp, n, label)
                        N0, M0, mu0 = moments(prog.compile(compiler="gaussian").circuit, n)
                        N1, M1, mu1 = moments(comp.circuit, n)
                        if compiler == "Xunitary":
                            err = max(abs(N0 - N1).max(), abs(M0 - M1).max())
                            if err > 1e-6:
                                bad(f"{label}: compiled program prepares a different Gaussian state (max moment difference {err:.3g})")
                        else:
                            c0 = abs(N0) ** 2 + abs(M0) ** 2
                            c1 = abs(N1) ** 2 + abs(M1) ** 2
                            err = max(abs(np.diag(N0) - np.diag(N1)).max(), abs(c0 - c1).max())
                            if err > 1e-6:
                                bad(f"{label}: compiled program has different photon statistics (mean / covariance of photon numbers differ by {err:.3g})")
            # invalid sources must be rejected with CircuitError
            EVAL[0] += 1
            p = sf.Program(n)
            with p.context as q:
                ops.S2gate(0.3) | (q[0], q[1])          # wrong pair
                ops.MeasureFock() | tuple(q)
            for compiler in ("Xunitary", "Xcov"):
                try:
                    p.compile(compiler=compiler)
                    if n > 2:
                        bad(f"{compiler} n={n}: S2gate on modes (0,1) was accepted")
                except CircuitError:
                    pass
    except Exception:
        import traceback
        traceback.print_exc()
        print("bounded stand-in crashed")
        sys.exit(3)
    finally:
        sf.hbar = hbar0
    emit_bounded("c12_hw", EVAL[0], EVAL[0], [{"squeezers": ["all-equal", "one-zero", "one-missing", "none", "repeated-on-one/two/all pairs"], "unitaries": ["identity", "swap", "haar"]}], len(V))
    sys.exit(1 if V else 0)
