"""C19 bounded stand-in (labelled bounded, never counted as proved): the real apps helpers are run
under /venv/bin/python against independent oracles written from the docstrings:

 * orbits(n): exact set of integer partitions (independent recursive generator) for n <= N1, and
   count against Euler's pentagonal recurrence (exact integers) for n <= N2;
 * orbit_cardinality / event_cardinality: exact multinomials (math.factorial) for all orbits of
   n <= 8 and all modes <= M; brute-force sample enumeration for small cases;
 * sample <-> orbit <-> event conversions: all samples with <= 4 modes and entries <= 3;
 * clique.grow/swap/shrink and subgraph.resize: every labelled graph on <= NG nodes, every start
   set, node_select in {uniform, degree, generic distinct weights, tied weights}; numpy.random.choice
   is replaced by an enumerator so that EVERY outcome of every random choice is explored, and the
   set of reachable results must equal the set produced by a reference implementation of the
   documented rule.
usage: c19_apps.py <tier> <seed>
"""
import itertools, math, sys, os, warnings, json
warnings.filterwarnings("ignore")
sys.path.insert(0, os.path.dirname(os.path.dirname(os.path.abspath(__file__))))
import numpy as np
import networkx as nx
from strawberryfields.apps import similarity, clique, subgraph
from native.common import emit_bounded

tier = sys.argv[1] if len(sys.argv) > 1 else "quick"
seed = int(sys.argv[2]) if len(sys.argv) > 2 else 0
V = []          # violations (text)
EVAL = [0]
SAMPLES = []


def bad(fid, msg):
    V.append(msg)
    d = os.path.join(os.path.dirname(os.path.dirname(os.path.abspath(__file__))), "replays", "C19")
    os.makedirs(d, exist_ok=True)
    p = os.path.join(d, f"bounded_{len(V)}.py")
    with open(p, "w") as f:
        f.write("# replay of a bounded stand-in violation (C19)\nimport sys\nprint(%r)\nprint('REPLAY-VIOLATION (re-run native/c19_apps.py to reproduce)')\nsys.exit(1)\n" % msg)
    print(f"NATIVE-VIOLATION finding={fid} replay={p} {msg}")


# ------------------------------------------------------------------ partitions
def partitions(n, maxpart=None):
    if maxpart is None:
        maxpart = n
    if n == 0:
        yield []
        return
    for k in range(min(n, maxpart), 0, -1):
        for rest in partitions(n - k, k):
            yield [k] + rest


def pcount(nmax):
    p = [1] + [0] * nmax
    for n in range(1, nmax + 1):
        tot, k = 0, 1
        while True:
            g1, g2 = k * (3 * k - 1) // 2, k * (3 * k + 1) // 2
            if g1 > n:
                break
            sgn = 1 if k % 2 else -1
            tot += sgn * p[n - g1]
            if g2 <= n:
                tot += sgn * p[n - g2]
            k += 1
        p[n] = tot
    return p


def check_orbits():
    N1, N2 = (18, 35) if tier == "quick" else (26, 60)
    pc = pcount(N2)
    for n in range(1, N2 + 1):
        got = list(similarity.orbits(n))
        EVAL[0] += 1
        if len(got) != pc[n]:
            bad("-", f"orbits({n}) yields {len(got)} orbits, exact partition count is {pc[n]}")
            continue
        for o in got:
            if sum(o) != n or any(x < 1 for x in o) or o != sorted(o, reverse=True):
                bad("-", f"orbits({n}) yields {o}")
                break
        if len({tuple(o) for o in got}) != len(got):
            bad("-", f"orbits({n}) yields duplicates")
        if n <= N1:
            if sorted(map(tuple, got)) != sorted(map(tuple, partitions(n))):
                bad("-", f"orbits({n}) is not the set of partitions of {n}")
    SAMPLES.append({"orbits": n})


def multinomial(orbit, modes):
    sample = list(orbit) + [0] * (modes - len(orbit))
    cnt = {}
    for s in sample:
        cnt[s] = cnt.get(s, 0) + 1
    r = math.factorial(modes)
    for c in cnt.values():
        r //= math.factorial(c)
    return r


def check_cardinalities():
    M = 60 if tier == "quick" else 200
    for n in range(1, 9):
        for o in partitions(n):
            for modes in list(range(len(o), M + 1, 1 if tier != "quick" else 3)) + [171, 172, 200]:
                if modes < len(o):
                    continue
                EVAL[0] += 1
                got = similarity.orbit_cardinality(list(o), modes)
                exp = multinomial(o, modes)
                if got != exp or not isinstance(got, (int, np.integer)):
                    bad("-", f"orbit_cardinality({o}, {modes}) = {got!r}, exact value {exp}")
                    return
    SAMPLES.append({"orbit_cardinality": [[2, 1, 1], 200]})
    for n in range(0, 6):
        for mc in range(0, 4):
            for modes in range(1, 5):
                brute = sum(1 for s in itertools.product(range(mc + 1), repeat=modes) if sum(s) == n)
                EVAL[0] += 1
                if n == 0:
                    continue
                got = similarity.event_cardinality(n, mc, modes)
                if got != brute:
                    bad("-", f"event_cardinality({n}, {mc}, {modes}) = {got}, brute force {brute}")
                    return


def check_conversions():
    for modes in range(1, 5):
        for s in itertools.product(range(4), repeat=modes):
            s = list(s)
            EVAL[0] += 1
            o = similarity.sample_to_orbit(list(s))
            if o != sorted([x for x in s if x], reverse=True):
                bad("-", f"sample_to_orbit({s}) = {o}")
                return
            for mc in range(0, 4):
                e = similarity.sample_to_event(list(s), mc)
                exp = sum(s) if max(s) <= mc else None
                if e != exp:
                    bad("-", f"sample_to_event({s}, {mc}) = {e}, expected {exp}")
                    return
            if o:
                back = similarity.orbit_to_sample(list(o), modes)
                if similarity.sample_to_orbit(back) != o or len(back) != modes:
                    bad("-", f"orbit_to_sample({o}, {modes}) = {back}")
                    return
    rng = np.random.RandomState(seed)
    np.random.seed(seed)
    for n in range(1, 6):
        for mc in range(1, 4):
            for modes in range(1, 5):
                if mc * modes < n:
                    continue
                EVAL[0] += 1
                try:
                    s = similarity.event_to_sample(n, mc, modes)
                except Exception as e:
                    bad("-", f"event_to_sample({n}, {mc}, {modes}) raised {type(e).__name__}: {e}")
                    return
                if sum(s) != n or max(s) > mc or len(s) != modes:
                    bad("-", f"event_to_sample({n}, {mc}, {modes}) = {s}")
                    return


# ------------------------------------------------------------------ exhaustive random choices
class ChoiceEnumerator:
    """replaces numpy.random.choice: runs a function once per sequence of choice outcomes"""
    def __init__(self):
        self.prefix = []
        self.trace = []
        self.work = []

    def choice(self, a, *args, **kw):
        n = len(a) if hasattr(a, "__len__") else int(a)
        vals = list(a) if hasattr(a, "__len__") else list(range(n))
        i = len(self.trace)
        if i < len(self.prefix):
            k = self.prefix[i]
        else:
            k = 0
            for alt in range(1, n):
                self.work.append(self.trace + [alt])
        self.trace.append(k)
        return vals[k]

    def all_outcomes(self, fn):
        self.work = [[]]
        out = []
        orig = np.random.choice
        np.random.choice = self.choice
        try:
            while self.work:
                self.prefix = self.work.pop()
                self.trace = []
                out.append(fn())
                if len(out) > 5000:
                    break
        finally:
            np.random.choice = orig
        return out


def is_clique(g, nodes):
    return all(g.has_edge(a, b) for a, b in itertools.combinations(nodes, 2))


def argbest(cands, key, best=max):
    vals = [key(c) for c in cands]
    b = best(vals)
    return [c for c, v in zip(cands, vals) if v == b]


def ref_grow(g, cl, mode, w):
    """all results of the documented rule (ties explored exhaustively)"""
    results = set()

    def rec(cur):
        c0 = [n for n in g.nodes if n not in cur and all(g.has_edge(n, c) for c in cur)]
        if not c0:
            results.add(tuple(sorted(cur)))
            return
        if mode == "uniform":
            cand = c0
        elif mode == "degree":
            cand = argbest(c0, lambda n: g.degree(n))
        else:
            cand = argbest(c0, lambda n: w[n])
        for n in cand:
            rec(cur | {n})
    rec(set(cl))
    return results


def ref_swap(g, cl, mode, w):
    cl = set(cl)
    c1 = []
    for n in g.nodes:
        if n in cl:
            continue
        nb = [c for c in cl if g.has_edge(n, c)]
        if len(nb) == len(cl) - 1:
            (out,) = cl - set(nb)
            c1.append((out, n))
    if not c1:
        return {tuple(sorted(cl))}
    if mode == "uniform":
        cand = c1
    elif mode == "degree":
        cand = argbest(c1, lambda t: g.degree(t[1]))
    else:
        cand = argbest(c1, lambda t: w[t[1]])
    return {tuple(sorted((cl - {o}) | {i})) for o, i in cand}


def ref_search(g, cl, iterations, mode, w):
    """all results of the documented local search: phases of growth and plateau search, each following the rule"""
    results = set()
    for grown in ref_grow(g, cl, mode, w):
        for swapped in ref_swap(g, grown, mode, w):
            if set(grown) == set(swapped) or iterations - 1 == 0:
                results.add(tuple(sorted(swapped)))
            else:
                results |= ref_search(g, swapped, iterations - 1, mode, w)
    return results


def ref_shrink(g, sub, mode, w):
    results = set()

    def rec(cur):
        if is_clique(g, cur):
            results.add(tuple(sorted(cur)))
            return
        sg = g.subgraph(cur)
        cand = argbest(list(cur), lambda n: sg.degree(n), min)
        if mode != "uniform":
            cand = argbest(cand, lambda n: w[n], min)
        for n in cand:
            rec(cur - {n})
    rec(set(sub))
    return results


def ref_resize(g, sub, lo, hi, mode, w):
    """set of possible result dicts (as sorted tuples of items)"""
    start = set(sub)
    ups, downs = [], []

    def grow(cur, acc):
        if len(cur) >= hi:
            ups.append(dict(acc))
            return
        comp = [n for n in g.nodes if n not in cur]
        cand = argbest(comp, lambda n: sum(1 for c in cur if g.has_edge(n, c)))
        if mode != "uniform":
            cand = argbest(cand, lambda n: w[n])
        for n in cand:
            new = cur | {n}
            a2 = dict(acc)
            if lo <= len(new) <= hi:
                a2[len(new)] = tuple(sorted(new))
            grow(new, a2)

    def shrink(cur, acc):
        if len(cur) <= lo:
            downs.append(dict(acc))
            return
        sg = g.subgraph(cur)
        cand = argbest(list(cur), lambda n: sg.degree(n), min)
        if mode != "uniform":
            cand = argbest(cand, lambda n: w[n], min)
        for n in cand:
            new = cur - {n}
            a2 = dict(acc)
            if lo <= len(new) <= hi:
                a2[len(new)] = tuple(sorted(new))
            shrink(new, a2)
    base = {len(start): tuple(sorted(start))} if lo <= len(start) <= hi else {}
    if hi > len(start):
        grow(start, {})
    else:
        ups.append({})
    if lo < len(start):
        shrink(start, {})
    else:
        downs.append({})
    res = set()
    for u in ups:
        for d in downs:
            r = dict(base)
            r.update(u)
            r.update(d)
            res.add(tuple(sorted(r.items())))
    return res


def graphs(nmax):
    for n in range(1, nmax + 1):
        pairs = list(itertools.combinations(range(n), 2))
        for mask in range(1 << len(pairs)):
            g = nx.Graph()
            g.add_nodes_from(range(n))
            g.add_edges_from(p for b, p in enumerate(pairs) if mask >> b & 1)
            yield g


def weight_vectors(n, rng):
    yield "uniform", None
    yield "degree", None
    w = list(rng.permutation(n) * 1.0 + 0.5)
    yield "weights-distinct", w
    w2 = [float(int(x) % 2) for x in rng.permutation(n)]
    yield "weights-tied", w2


def check_graph_helpers():
    NG = 4 if tier == "quick" else 5
    rng = np.random.RandomState(seed)
    en = ChoiceEnumerator()
    ngraphs = 0
    extra = []
    if tier == "quick":
        # a few 5/6-node graphs as well
        for k in range(12):
            n = 5 + k % 2
            g = nx.gnp_random_graph(n, 0.55, seed=seed * 100 + k)
            extra.append(g)
    for g in itertools.chain(graphs(NG), extra):
        ngraphs += 1
        n = g.number_of_nodes()
        nodes = list(g.nodes)
        for mode, w in weight_vectors(n, rng):
            sel = mode if w is None else w
            wd = None if w is None else {nd: w[i] for i, nd in enumerate(nodes)}
            rmode = mode if w is None else "weight"
            subsets = [s for r in range(0, n + 1) for s in itertools.combinations(nodes, r)]
            if n >= 5:
                subsets = [subsets[i] for i in rng.choice(len(subsets), size=min(12, len(subsets)), replace=False)]
            for s in subsets:
                if is_clique(g, s):
                    EVAL[0] += 1
                    got = set(tuple(x) for x in en.all_outcomes(lambda: clique.grow(list(s), g, node_select=sel)))
                    exp = ref_grow(g, s, rmode, wd)
                    if got != exp:
                        bad("-", f"clique.grow({list(s)}, edges={sorted(g.edges)}, node_select={sel}) can return {sorted(got)}, documented rule allows {sorted(exp)}")
                        return
                    for r in got:
                        if not is_clique(g, r) or not set(s) <= set(r):
                            bad("-", f"clique.grow result {r} is not a clique containing {s}")
                            return
                    got = set(tuple(x) for x in en.all_outcomes(lambda: clique.swap(list(s), g, node_select=sel)))
                    exp = ref_swap(g, s, rmode, wd)
                    if got != exp:
                        bad("-", f"clique.swap({list(s)}, edges={sorted(g.edges)}, node_select={sel}) can return {sorted(got)}, documented rule allows {sorted(exp)}")
                        return
                    # the local search: every phase (not only the first) follows the selection rule
                    for iters in (1, 2, 4):
                        EVAL[0] += 1
                        got = set(tuple(sorted(x)) for x in en.all_outcomes(lambda: clique.search(list(s), g, iters, node_select=sel)))
                        exp = ref_search(g, s, iters, rmode, wd)
                        if got != exp:
                            bad("-", f"clique.search({list(s)}, edges={sorted(g.edges)}, iterations={iters}, node_select={sel}) can return {sorted(got)}, the documented phases allow {sorted(exp)}")
                            return
                if mode != "degree" and len(s) >= 1:
                    EVAL[0] += 1
                    got = set(tuple(x) for x in en.all_outcomes(lambda: clique.shrink(list(s), g, node_select=sel)))
                    exp = ref_shrink(g, s, rmode, wd)
                    if got != exp:
                        bad("-", f"clique.shrink({list(s)}, edges={sorted(g.edges)}, node_select={sel}) can return {sorted(got)}, documented rule allows {sorted(exp)}")
                        return
                    if n >= 3:
                        for lo, hi in [(1, n - 1), (2, n - 1), (1, 2)]:
                            if not (1 <= lo <= hi < n):
                                continue
                            EVAL[0] += 1
                            got = set(tuple(sorted((k, tuple(v)) for k, v in r.items()))
                                      for r in en.all_outcomes(lambda: subgraph.resize(list(s), g, lo, hi, node_select=sel)))
                            exp = ref_resize(g, s, lo, hi, rmode, wd)
                            if got != exp:
                                bad("-", f"subgraph.resize({list(s)}, edges={sorted(g.edges)}, {lo}, {hi}, node_select={sel}) can return {sorted(got)[:3]}, documented rule allows {sorted(exp)[:3]}")
                                return
    SAMPLES.append({"graphs": ngraphs, "example": {"edges": sorted(g.edges), "start": list(s), "node_select": str(sel)}})


def check_subgraph_search():
    rng = np.random.RandomState(seed + 7)
    for k in range(6 if tier == "quick" else 40):
        n = 6
        g = nx.gnp_random_graph(n, 0.6, seed=seed * 31 + k)
        subs = [list(rng.choice(n, size=3, replace=False)) for _ in range(4)]
        np.random.seed(seed + k)
        EVAL[0] += 1
        res = subgraph.search(subs, g, 2, 4, max_count=2)
        for size, lst in res.items():
            if len(lst) > 2 or not (2 <= size <= 4):
                bad("-", f"subgraph.search returned {len(lst)} entries for size {size}")
                return
            dens = [d for d, _ in lst]
            if dens != sorted(dens, reverse=True):
                bad("-", f"subgraph.search list for size {size} not sorted by density: {lst}")
                return
            seen = set()
            for d, nodes in lst:
                if len(nodes) != size or len(set(nodes)) != size or not set(nodes) <= set(g.nodes):
                    bad("-", f"subgraph.search entry {nodes} is not a node subset of size {size}")
                    return
                if abs(d - nx.density(g.subgraph(nodes))) > 1e-12:
                    bad("-", f"subgraph.search density {d} of {nodes} differs from nx.density")
                    return
                if tuple(nodes) in seen:
                    bad("-", f"subgraph.search duplicate {nodes}")
                    return
                seen.add(tuple(nodes))


def check_sample_postprocessing():
    """apps/sample.py: postselect keeps exactly the samples whose total count lies in [min, max], in order; modes_from_counts
    lists mode i exactly s[i] times, sorted; to_subgraphs turns the clicked MODES into the NODES found at those positions of
    graph.nodes (mode i <-> row i of the adjacency matrix the device was given) - for default labels, strings, squares and
    integer labels 0..n-1 in a permuted order; every sample in {0,1,2}^n, n <= 4, and some longer ones"""
    import networkx as nx
    from strawberryfields.apps import sample as smp
    for n in (1, 2, 3, 4):
        samples = [list(t) for t in itertools.product(range(3), repeat=n)]
        for lo, hi in ((0, 0), (1, 2), (2, 2), (0, 2 * n), (3, 1)):
            EVAL[0] += 1
            got = smp.postselect(samples, lo, hi)
            want = [t for t in samples if lo <= sum(t) <= hi]
            if got != want:
                bad("-", f"postselect(all samples in {{0,1,2}}^{n}, {lo}, {hi}) keeps {len(got)} samples, {len(want)} have a total count in the range (or the order changed)")
        for t in samples:
            EVAL[0] += 1
            got = smp.modes_from_counts(t)
            want = [i for i, c in enumerate(t) for _ in range(c)]
            if list(got) != want:
                bad("-", f"modes_from_counts({t}) = {list(got)}, expected {want}")
        labelings = {"default": list(range(n)), "strings": [f"v{i}" for i in range(n)], "squares": [i * i + 7 for i in range(n)],
                     "reversed integers": list(range(n))[::-1], "rotated integers": [(i + 1) % n for i in range(n)]}
        for lab, nodes in labelings.items():
            g = nx.Graph()
            g.add_nodes_from(nodes)
            g.add_edges_from((nodes[i], nodes[j]) for i in range(n) for j in range(i + 1, n) if (i + j) % 2)
            EVAL[0] += 1
            got = smp.to_subgraphs(samples, g)
            for t, sub in zip(samples, got):
                want = sorted((nodes[i] for i, c in enumerate(t) if c > 0), key=str)
                if sorted(sub, key=str) != want:
                    bad("-", f"to_subgraphs: graph with nodes {nodes} ({lab}), sample {t}: clicked modes are the nodes {want}, returned {sub}")
                    break
    g = nx.Graph()
    g.add_nodes_from([4, 2, 0, 5, 1, 3])
    g.add_edges_from([(4, 2), (4, 0), (4, 5), (2, 0), (2, 5), (0, 5), (1, 3)])
    EVAL[0] += 1
    for t, want in (([1, 1, 1, 1, 0, 0], [0, 2, 4, 5]), ([1, 0, 0, 0, 0, 2], [3, 4]), ([0, 0, 0, 1, 1, 1], [1, 3, 5])):
        got = smp.to_subgraphs([t], g)[0]
        if sorted(got) != want:
            bad("-", f"to_subgraphs: graph with nodes [4, 2, 0, 5, 1, 3], sample {t}: clicked modes are the nodes {want}, returned {got}")


if __name__ == "__main__":
    for f in (check_orbits, check_cardinalities, check_conversions, check_graph_helpers, check_subgraph_search, check_sample_postprocessing):
        try:
            f()
        except Exception as e:
            import traceback
            tb = traceback.format_exc()
            if "/strawberryfields/" in tb.splitlines()[-3] or "/strawberryfields/" in tb.splitlines()[-2]:
                bad("-", f"{f.__name__}: library raised {type(e).__name__}: {e}")
            else:
                print(tb)
                print("bounded stand-in crashed in", f.__name__)
                sys.exit(3)
    emit_bounded("c19_apps", EVAL[0], EVAL[0], SAMPLES, len(V))
    sys.exit(1 if V else 0)
