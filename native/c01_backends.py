"""C01 / C05 / C07 bounded stand-in (labelled bounded): the three simulators against ONE independent numeric
phase-space calculation (documented Bogoliubov / channel action, written here with numpy and sharing no code with
the library), for every operation class that all backends support, on EVERY ordered choice of target modes of 2- and
3-mode registers, from a correlated displaced squeezed input, with the Fock simulator in its pure and in its mixed
representation.
 C01: first and second quadrature moments of every mode and the inter-mode correlations <n_i n_j> agree with the
      reference on gaussian, bosonic (exact) and fock (truncation tolerance).
 C05: the reduced state of every non-target mode that is uncorrelated with the targets is unchanged; a preparation
      on an entangled mode leaves the marginal of the others unchanged.
 C07: Gaussian covariance satisfies V + i hbar/2 Omega >= 0; Fock density matrix hermitian, trace <= 1 (close to 1),
      eigenvalues >= -tol; bosonic weights sum to 1.
usage: c01_backends.py <tier> <seed> [prop]"""
import itertools, os, sys, warnings
warnings.filterwarnings("ignore")
sys.path.insert(0, os.path.dirname(os.path.dirname(os.path.abspath(__file__))))
os.environ.setdefault('OMP_NUM_THREADS', '1'); os.environ.setdefault('OPENBLAS_NUM_THREADS', '1'); os.environ.setdefault('MKL_NUM_THREADS', '1'); os.environ.setdefault('NUMBA_NUM_THREADS', '1')
import numpy as np
import strawberryfields as sf
from strawberryfields import ops
from native.common import emit_bounded

tier = sys.argv[1] if len(sys.argv) > 1 else "quick"
seed = int(sys.argv[2]) if len(sys.argv) > 2 else 0
PROP = sys.argv[3] if len(sys.argv) > 3 else "C01"
V, EVAL = [], [0]
HB = 2.0
CUT = 10 if tier == "quick" else 13          # 2 modes
CUT3 = 8 if tier == "quick" else 9           # 3 modes


def bad(msg):
    msg = " ".join(str(msg).split())
    V.append(msg)
    d = os.path.join(os.path.dirname(os.path.dirname(os.path.abspath(__file__))), "replays", PROP)
    os.makedirs(d, exist_ok=True)
    p = os.path.join(d, f"bounded_backends_{len(V)}.py")
    open(p, "w").write("# replay of a bounded stand-in violation: re-run native/c01_backends.py\nimport sys\nprint(%r)\nprint('REPLAY-VIOLATION')\nsys.exit(1)\n" % msg)
    print(f"NATIVE-VIOLATION finding=- replay={p} {msg}")


# ----------------------------------------------------------------------------- independent reference (xxpp, hbar=2)
def sym_from_AB(A, B):
    """a -> A a + B a^dag  ==>  symplectic on (x1..xn, p1..pn)"""
    return np.block([[(A + B).real, -(A - B).imag], [(A + B).imag, (A - B).real]])


def embed(n, modes, A, B, delta):
    Af = np.eye(n, dtype=complex); Bf = np.zeros((n, n), dtype=complex); df = np.zeros(n, dtype=complex)
    for a, ma in enumerate(modes):
        df[ma] = delta[a]
        for b, mb in enumerate(modes):
            Af[ma, mb] = A[a][b]; Bf[ma, mb] = B[a][b]
    return Af, Bf, df


def gate_ABd(name, p):
    e = lambda x: np.exp(1j * x)
    if name == "Dgate":
        return [[1]], [[0]], [p[0] * e(p[1])]
    if name == "Xgate":
        return [[1]], [[0]], [p[0] / np.sqrt(2 * HB)]
    if name == "Zgate":
        return [[1]], [[0]], [1j * p[0] / np.sqrt(2 * HB)]
    if name == "Rgate":
        return [[e(p[0])]], [[0]], [0]
    if name == "Fouriergate":
        return [[1j]], [[0]], [0]
    if name == "Sgate":
        return [[np.cosh(p[0])]], [[-e(p[1]) * np.sinh(p[0])]], [0]
    if name == "Pgate":
        return [[1 + 1j * p[0] / 2]], [[1j * p[0] / 2]], [0]
    if name == "BSgate":
        c, s = np.cos(p[0]), np.sin(p[0])
        return [[c, -e(-p[1]) * s], [e(p[1]) * s, c]], [[0, 0], [0, 0]], [0, 0]
    if name == "MZgate":
        pin, pex = p
        u, v = e(pex), e(pin)
        U = 0.5 * np.array([[u * (v - 1), 1j * (1 + v)], [1j * u * (1 + v), 1 - v]])
        return U.tolist(), [[0, 0], [0, 0]], [0, 0]
    if name == "sMZgate":
        a, b = e(p[0] - np.pi / 2), e(p[1] - np.pi / 2)
        U = 0.5 * np.array([[a - b, 1j * (a + b)], [1j * (a + b), b - a]])
        return U.tolist(), [[0, 0], [0, 0]], [0, 0]
    if name == "S2gate":
        ch, sh = np.cosh(p[0]), np.sinh(p[0])
        return [[ch, 0], [0, ch]], [[0, e(p[1]) * sh], [e(p[1]) * sh, 0]], [0, 0]
    if name == "CXgate":
        h = p[0] / 2
        return [[1, -h], [h, 1]], [[0, h], [h, 0]], [0, 0]
    if name == "CZgate":
        h = 1j * p[0] / 2
        return [[1, h], [h, 1]], [[0, h], [h, 0]], [0, 0]
    raise KeyError(name)


class Ref:
    """Gaussian state (means mu, covariance V in xxpp, hbar=2) evolved with the documented actions"""
    def __init__(self, n):
        self.n = n
        self.mu = np.zeros(2 * n)
        self.V = np.eye(2 * n)

    def gate(self, name, p, modes, dagger=False):
        A, B, d = gate_ABd(name, p)
        Af, Bf, df = embed(self.n, modes, np.array(A, dtype=complex), np.array(B, dtype=complex), np.array(d, dtype=complex))
        S = sym_from_AB(Af, Bf)
        dv = np.sqrt(2 * HB) * np.concatenate([df.real, df.imag])
        if dagger:
            Si = np.linalg.inv(S)
            S, dv = Si, -Si @ dv
        self.mu = S @ self.mu + dv
        self.V = S @ self.V @ S.T

    def loss(self, T, nbar, k):
        n = self.n
        X = np.eye(2 * n); Y = np.zeros((2 * n, 2 * n))
        for i in (k, k + n):
            X[i, i] = np.sqrt(T); Y[i, i] = (1 - T) * (2 * nbar + 1)
        self.mu = X @ self.mu
        self.V = X @ self.V @ X.T + Y

    def condition(self, k, kind, value, phi=0.0):
        """post-selected homodyne (quadrature x_phi = value) or heterodyne (outcome alpha = value) on mode k; the measured mode
        is reset to vacuum (hbar = 2)"""
        n = self.n
        if kind == "homodyne":
            c, s_ = np.cos(phi), np.sin(phi)
            R = np.eye(2 * n)
            R[k, k], R[k, k + n], R[k + n, k], R[k + n, k + n] = c, s_, -s_, c      # x_phi -> x
            mu, V = R @ self.mu, R @ self.V @ R.T
            rest = [i for i in range(2 * n) if i not in (k, k + n)]
            Bx = V[rest, k]
            Cxx = V[k, k]
            mu_r = mu[rest] + Bx * (value - mu[k]) / Cxx
            V_r = V[np.ix_(rest, rest)] - np.outer(Bx, Bx) / Cxx
        else:
            idx = [k, k + n]
            rest = [i for i in range(2 * n) if i not in idx]
            B = self.V[np.ix_(rest, idx)]
            C = self.V[np.ix_(idx, idx)] + np.eye(2)
            m = 2 * np.array([np.real(value), np.imag(value)])
            K = B @ np.linalg.inv(C)
            mu_r = self.mu[rest] + K @ (m - self.mu[idx])
            V_r = self.V[np.ix_(rest, rest)] - K @ B.T
        self.mu = np.zeros(2 * n); self.V = np.eye(2 * n)
        self.mu[rest] = mu_r
        self.V[np.ix_(rest, rest)] = V_r

    def prepare(self, mu2, V2, k):
        """mode k replaced by a single-mode Gaussian state (x, p means / 2x2 covariance), uncorrelated with the rest"""
        n = self.n
        idx = [k, k + n]
        for i in idx:
            self.V[i, :] = 0; self.V[:, i] = 0
        self.V[np.ix_(idx, idx)] = V2
        self.mu[idx] = mu2


GATES1 = {"Dgate": (0.35, 0.6), "Xgate": (0.4,), "Zgate": (-0.3,), "Rgate": (0.7,), "Sgate": (0.3, 0.8), "Pgate": (0.25,), "Fouriergate": ()}
GATES2 = {"BSgate": (0.45, 0.7), "MZgate": (0.6, 0.9), "S2gate": (0.25, 0.5), "CXgate": (0.3,), "CZgate": (-0.25,)}


def base_circuit(q, n, ref):
    """a correlated input: distinct displaced squeezed states and a beamsplitter chain"""
    for k in range(n):
        r, ph, a, th = 0.15 + 0.05 * k, 0.4 * k, 0.2 + 0.1 * k, 0.3 * k + 0.2
        ops.Sgate(r, ph) | q[k]; ref.gate("Sgate", (r, ph), [k])
        ops.Dgate(a, th) | q[k]; ref.gate("Dgate", (a, th), [k])
    for k in range(n - 1):
        ops.BSgate(0.5, 0.3 + 0.2 * k) | (q[k], q[k + 1]); ref.gate("BSgate", (0.5, 0.3 + 0.2 * k), [k, k + 1])


def observables(st, n, backend):
    out = {}
    for m in range(n):
        for ph in (0.0, np.pi / 2, 0.7):
            out[("quad", m, round(ph, 2))] = np.array(st.quad_expectation(m, ph), dtype=float)
        out[("n", m)] = np.array([st.mean_photon(m)[0]], dtype=float)
    return out


def ref_observables(ref, n):
    out = {}
    for m in range(n):
        for ph in (0.0, np.pi / 2, 0.7):
            c, s = np.cos(ph), np.sin(ph)
            x, p = ref.mu[m], ref.mu[m + n]
            vxx, vpp, vxp = ref.V[m, m], ref.V[m + n, m + n], ref.V[m, m + n]
            out[("quad", m, round(ph, 2))] = np.array([c * x + s * p, c * c * vxx + s * s * vpp + 2 * c * s * vxp])
        out[("n", m)] = np.array([(ref.V[m, m] + ref.V[m + n, m + n] + ref.mu[m] ** 2 + ref.mu[m + n] ** 2) / (2 * HB) - 0.5])
    return out


def physical(st, n, backend, label, out):
    if backend == "gaussian":
        Vc = st.cov(); Om = np.block([[np.zeros((n, n)), np.eye(n)], [-np.eye(n), np.zeros((n, n))]])
        if not np.allclose(Vc, Vc.T, atol=1e-9):
            out.append(f"{label}: Gaussian covariance matrix is not symmetric")
        ev = np.linalg.eigvalsh(Vc + 1j * (sf.hbar / 2) * Om)
        if ev.min() < -1e-8:
            out.append(f"{label}: Gaussian state violates the uncertainty relation (min eigenvalue of V + i hbar/2 Omega = {ev.min():.3g})")
    elif backend == "fock":
        dm = st.dm()
        D = st.cutoff_dim ** n
        # indices (i1, j1, i2, j2, ...) -> matrix
        perm = list(range(0, 2 * n, 2)) + list(range(1, 2 * n, 2))
        M = dm.transpose(perm).reshape(D, D)
        if not np.allclose(M, M.conj().T, atol=1e-9):
            out.append(f"{label}: Fock density matrix is not hermitian")
        tr = np.trace(M).real
        if tr > 1 + 1e-6 or tr < 0.97:
            out.append(f"{label}: Fock density matrix has trace {tr:.5f}")
        ev = np.linalg.eigvalsh((M + M.conj().T) / 2)
        if ev.min() < -1e-7:
            out.append(f"{label}: Fock density matrix has a negative eigenvalue {ev.min():.3g}")
    else:
        w = np.array(st.weights())
        if abs(np.sum(w) - 1) > 1e-8:
            out.append(f"{label}: bosonic weights sum to {np.sum(w)}")


def apply_case(case, q, ref):
    kind, name, p, modes, dag = case
    if kind == "gate":
        g = getattr(ops, name)(*p)
        (g.H if dag else g) | tuple(q[m] for m in modes)
        ref.gate(name, p if p else (np.pi / 2,), list(modes), dagger=dag)
    elif kind == "loss":
        ops.LossChannel(p[0]) | q[modes[0]]; ref.loss(p[0], 0.0, modes[0])
    elif kind == "thermal_loss":
        ops.ThermalLossChannel(*p) | q[modes[0]]; ref.loss(p[0], p[1], modes[0])
    elif kind == "homodyne_select":
        ops.MeasureHomodyne(p[0], select=p[1]) | q[modes[0]]; ref.condition(modes[0], "homodyne", p[1], p[0])
    elif kind == "heterodyne_select":
        ops.MeasureHeterodyne(select=complex(p[0], p[1])) | q[modes[0]]; ref.condition(modes[0], "heterodyne", complex(p[0], p[1]))
    elif kind == "prep":
        mk, mu2, V2 = PREPS[name]
        mk() | q[modes[0]]; ref.prepare(mu2, V2, modes[0])


PREPS = {
    "Vacuum": (lambda: ops.Vacuum(), np.zeros(2), np.eye(2)),
    "Coherent": (lambda: ops.Coherent(0.4, 0.5), np.sqrt(2 * HB) * 0.4 * np.array([np.cos(0.5), np.sin(0.5)]), np.eye(2)),
    "Squeezed": (lambda: ops.Squeezed(0.3, 0.0), np.zeros(2), np.diag([np.exp(-0.6), np.exp(0.6)])),
    "Thermal": (lambda: ops.Thermal(0.3), np.zeros(2), 1.6 * np.eye(2)),
}


def label_of(case, n, mixed):
    kind, name, p, modes, dag = case
    tgt = f"q[{modes[0]}]" if len(modes) == 1 else "(" + ", ".join(f"q[{m}]" for m in modes) + ")"
    return f"{name}{tuple(p)}{'.H' if dag else ''} | {tgt} of {n}{' (mixed)' if mixed else ''}"


def run_case(args):
    """one operation on one placement, on every backend that supports it; returns (evaluations, [violation texts]).
    deleted=True: the register has one more mode in front which is deleted first, so that the external index of every mode
    differs from its position in simulators that compact their storage"""
    case, n, mixed, prop = args[:4]
    deleted = bool(args[4]) if len(args) > 4 else False
    out, ev = [], 0
    label = label_of(case, n, mixed) + (" after Del | q[0] (indices shifted by one)" if deleted else "")
    backends = ("gaussian", "bosonic") if case[0] in ("thermal_loss", "heterodyne_select") else ("gaussian", "bosonic", "fock")
    off = 1 if deleted else 0
    for backend in backends:
        ref = Ref(n)
        prog = sf.Program(n + off)
        with prog.context as q:
            if deleted:
                ops.Del | q[0]
            qq = [q[k + off] for k in range(n)]
            if mixed:
                ops.LossChannel(0.9) | qq[0]; ref.loss(0.9, 0.0, 0)
            base_circuit(qq, n, ref)
            apply_case(case, qq, ref)
        kw = {"cutoff_dim": CUT if n == 2 else CUT3} if backend == "fock" else {}
        try:
            st = sf.Engine(backend, backend_options=kw).run(prog).state
        except Exception as e:
            out.append(f"{label} on {backend}: raised {type(e).__name__}: {str(e)[:150]}")
            continue
        ev += 1
        tol = 1.5e-2 if backend == "fock" else 1e-7
        got, exp = observables(st, n, backend), ref_observables(ref, n)
        for key in exp:
            if not np.allclose(got[key], exp[key], atol=tol, rtol=tol):
                out.append(f"{label} on {backend}: {key} = {np.round(got[key], 4).tolist()}, the documented action gives {np.round(exp[key], 4).tolist()}")
                break
        if prop in ("C07", "all"):
            physical(st, n, backend, f"{label} on {backend}", out)
    return ev, out


def check_fock_operator_invariants(out):
    """C07: representation invariants of the Fock simulator's operator tables (fockbackend/ops.py) that hold EXACTLY on the
    truncated space because the operation never raises the photon number: the loss channel's Kraus operators are complete
    (sum E^+ E = 1: trace is lost only through truncation, and loss needs none) and follow the binomial law; phase, Kerr and
    cross-Kerr matrices are unitary; the beamsplitter is unitary on every total-photon sector that fits below the cutoff."""
    from math import comb
    from strawberryfields.backends.fockbackend import ops as fops
    n_ev = 0
    for trunc in (2, 3, 5, 8):
        for T in (0.0, 0.3, 0.5, 0.9, 1.0):
            n_ev += 1
            try:
                Es = fops.lossChannel(T, trunc)
            except Exception as e:
                out.append(f"fock lossChannel({T}, {trunc}) raised {type(e).__name__}: {e}")
                continue
            S = sum(np.array(E).conj().T @ np.array(E) for E in Es)
            if not np.allclose(S, np.eye(trunc), atol=1e-10):
                out.append(f"fock lossChannel(T={T}, cutoff={trunc}): the Kraus operators are not complete, sum E^+E has diagonal {np.round(np.diag(S).real, 6).tolist()} (trace lost without any truncation)")
                continue
            for k in range(trunc):
                ket = np.zeros(trunc); ket[k] = 1
                dist = sum(np.abs(np.array(E) @ ket) ** 2 for E in Es)
                law = np.array([comb(k, j) * T ** j * (1 - T) ** (k - j) for j in range(k + 1)] + [0.0] * (trunc - k - 1))
                if not np.allclose(dist, law, atol=1e-10):
                    out.append(f"fock lossChannel(T={T}, cutoff={trunc}) on |{k}>: photon distribution {np.round(dist, 5).tolist()}, binomial law {np.round(law, 5).tolist()}")
                    break
        for nm, M in (("phase(0.7)", fops.phase(0.7, trunc)), ("kerr(0.4)", fops.kerr(0.4, trunc))):
            n_ev += 1
            M = np.array(M)
            if not np.allclose(M.conj().T @ M, np.eye(trunc), atol=1e-10):
                out.append(f"fock {nm} at cutoff {trunc} is not unitary")
    return n_ev


def check_fock_top_level(out):
    """C07: population in the highest representable Fock level is handled like any other (no trace is lost by operations that
    do not raise the photon number)"""
    n_ev = 0
    for cut in (4, 6):
        for T in (0.3, 0.9):
            for mode in (0, 1):
                n_ev += 1
                prog = sf.Program(2)
                with prog.context as q:
                    ops.Fock(cut - 1) | q[mode]
                    ops.Rgate(0.4) | q[mode]
                    ops.LossChannel(T) | q[mode]
                st = sf.Engine("fock", backend_options={"cutoff_dim": cut}).run(prog).state
                tr = st.trace()
                if abs(tr - 1) > 1e-9:
                    out.append(f"fock: Fock({cut - 1}) | q[{mode}], LossChannel({T}) at cutoff {cut}: trace = {tr:.6f} although nothing is truncated")
                mp = st.mean_photon(mode)[0]
                if abs(mp - T * (cut - 1)) > 1e-8:
                    out.append(f"fock: Fock({cut - 1}) | q[{mode}], LossChannel({T}) at cutoff {cut}: <n> = {mp:.6f}, expected {T * (cut - 1):.6f}")
    return n_ev


def check_cat_states(out):
    """C01, non-Gaussian preparations: Catstate(a, phi, p) for even, odd AND fractional parities p, followed by a rotation and a
    beamsplitter, on the fock simulator and on the bosonic simulator in both of its representations: same first and second
    quadrature moments and photon numbers of both modes (phase sensitive: <a> != 0 for fractional p)"""
    n_ev = 0
    for a, phi, p_ in ((0.8, 0.4, 0.0), (0.8, 0.4, 1.0), (0.8, 0.4, 0.5), (0.6, -0.7, 0.3), (0.7, 1.1, 1.75)):
        ref = None
        for backend, rep in (("fock", None), ("bosonic", "complex"), ("bosonic", "real")):
            n_ev += 1
            prog = sf.Program(2)
            with prog.context as q:
                (ops.Catstate(a, phi, p_) if rep is None else ops.Catstate(a, phi, p_, representation=rep)) | q[0]
                ops.Rgate(0.3) | q[0]
                ops.BSgate(0.7, 0.4) | (q[0], q[1])
            kw = {"cutoff_dim": 14} if backend == "fock" else {}
            try:
                st = sf.Engine(backend, backend_options=kw).run(prog).state
                obs = np.array([st.quad_expectation(m, ph) for m in (0, 1) for ph in (0.0, 0.8, np.pi / 2)] + [[st.mean_photon(m)[0], 0.0] for m in (0, 1)], dtype=float)
            except Exception as e:
                out.append(f"Catstate({a}, {phi}, {p_}) on {backend}{'/' + rep if rep else ''}: raised {type(e).__name__}: {str(e)[:120]}")
                continue
            if ref is None:
                ref = obs
            elif not np.allclose(obs, ref, atol=5e-3):
                out.append(f"Catstate({a}, {phi}, p={p_}); Rgate; BSgate on bosonic/{rep}: quadrature moments / photon numbers {np.round(obs[:, 0], 4).tolist()} differ from the fock simulator {np.round(ref[:, 0], 4).tolist()}")
    return n_ev


def check_bosonic_preparations_physical(out):
    """C07, non-Gaussian preparations of the bosonic simulator: the prepared operator is a STATE - Hermitian (real Wigner function:
    weights and means closed under complex conjugation), unit trace, <beta|rho|beta> real in [0, 1], real non-negative photon
    number - for cat states of even, odd and FRACTIONAL parity in both representations, Fock states and GKP states"""
    n_ev = 0
    xs, ps = np.linspace(-2.5, 2.5, 7), np.linspace(-2.0, 3.0, 6)
    preps = [(f"Catstate({a}, {phi}, p={p_}{', ' + rep if rep else ''})", (lambda a=a, phi=phi, p_=p_, rep=rep: ops.Catstate(a, phi, p_) if rep is None else ops.Catstate(a, phi, p_, representation=rep)))
             for (a, phi, p_) in ((0.8, 0.0, 0.0), (1.0, 0.3, 1.0), (0.8, 0.0, 0.5), (1.0, 0.3, 0.25), (1.3, -0.9, 1.6)) for rep in (None, "real")]
    preps += [("Fock(1)", lambda: ops.Fock(1)), ("Fock(2)", lambda: ops.Fock(2)), ("GKP(epsilon=0.35)", lambda: ops.GKP(epsilon=0.35)),
              ("GKP(state=[pi/2, 0], epsilon=0.4)", lambda: ops.GKP(state=[np.pi / 2, 0.0], epsilon=0.4))]
    for label, mk in preps:
        n_ev += 1
        prog = sf.Program(1)
        with prog.context as q:
            mk() | q[0]
        try:
            st = sf.Engine("bosonic").run(prog).state
            W = np.asarray(st.wigner(0, xs, ps))
            fid = [complex(st.fidelity_coherent([b])) for b in (0.0, 0.4 + 0.3j, -0.7j)]
            tr = complex(np.sum(st.weights()))
            nbar = st.mean_photon(0)[0]
        except Exception as e:
            out.append(f"bosonic {label}: a query of the prepared state raised {type(e).__name__}: {str(e)[:100]} (not a physical state?)")
            continue
        msgs = []
        if np.iscomplexobj(W) and abs(W.imag).max() > 1e-9:
            msgs.append(f"the Wigner function is complex (max imaginary part {abs(W.imag).max():.3g}): the operator is not Hermitian")
        if abs(tr - 1) > 1e-9:
            msgs.append(f"trace = {tr:.6f}")
        if any(abs(f.imag) > 1e-9 or f.real < -1e-9 or f.real > 1 + 1e-9 for f in fid):
            msgs.append(f"<beta|rho|beta> = {np.round(fid, 5).tolist()} is not a probability")
        if abs(np.imag(nbar)) > 1e-9 or np.real(nbar) < -1e-9:
            msgs.append(f"mean photon number {nbar}")
        if msgs:
            out.append(f"bosonic {label} is not a physical state: " + "; ".join(msgs))
    return n_ev


def cases():
    C = []
    for n in (2, 3):
        for mixed in (False, True):
            if n == 3 and mixed and tier == "quick":
                continue
            for name, p in GATES1.items():
                for k in range(n):
                    for dag in (False, True):
                        if n == 3 and k != 1 and tier == "quick":
                            continue
                        C.append((("gate", name, p, (k,), dag), n, mixed))
            for name, p in GATES2.items():
                for a, b in itertools.permutations(range(n), 2):
                    for dag in (False, True):
                        if dag and name == "MZgate":
                            continue        # F36/F37: MZgate native dagger convention (open findings of C02)
                        if dag and tier == "quick" and (a, b) not in ((1, 0), (0, n - 1)):
                            continue
                        C.append((("gate", name, p, (a, b), dag), n, mixed))
            for k in range(n):
                C.append((("loss", "LossChannel", (0.7,), (k,), False), n, mixed))
                C.append((("thermal_loss", "ThermalLossChannel", (0.6, 0.4), (k,), False), n, mixed))
                for pname in PREPS:
                    C.append((("prep", pname, (), (k,), False), n, mixed))
                # post-selected measurements of a displaced mode that is correlated with the others
                C.append((("homodyne_select", "MeasureHomodyne", (0.4, 0.35), (k,), False), n, mixed))
                C.append((("heterodyne_select", "MeasureHeterodyne", (0.2, -0.3), (k,), False), n, mixed))
    return C


if __name__ == "__main__":
    os.environ.setdefault("OMP_NUM_THREADS", "1")
    try:
        import multiprocessing as mp
        todo = [(c, n, mixed, PROP) for (c, n, mixed) in cases()]
        if PROP in ("C01", "C05", "all"):
            # every operation once more on a register whose first mode was deleted (2 live modes, pure)
            todo += [(c, n, mixed, PROP, True) for (c, n, mixed) in cases() if n == 2 and not mixed and not c[4]]
        if PROP in ("C01", "all"):
            extra = []
            EVAL[0] += check_cat_states(extra)
            for msg in extra:
                bad(msg)
        if PROP in ("C07", "all"):
            extra = []
            EVAL[0] += check_fock_operator_invariants(extra)
            EVAL[0] += check_fock_top_level(extra)
            EVAL[0] += check_bosonic_preparations_physical(extra)
            for msg in extra:
                bad(msg)
        with mp.Pool(min(14, os.cpu_count() or 2)) as pool:
            for ev, out in pool.imap_unordered(run_case, todo, chunksize=2):
                EVAL[0] += ev
                for msg in out:
                    bad(msg)
    except Exception:
        import traceback
        traceback.print_exc()
        print("bounded stand-in crashed")
        sys.exit(3)
    emit_bounded("c01_backends", EVAL[0], EVAL[0], [{"gates": list(GATES1) + list(GATES2), "registers": [2, 3], "fock_cutoff": [CUT, CUT3]}], len(V))
    sys.exit(1 if V else 0)


# ----------------------------------------------------------------------------- replay entry for the axis contract
from native.c01_backends_cases import AXIS_CASES


def replay_axes(obligation, I):
    """counter-model of contracts/c01_fock_axes.py: the same placement run on the real Fock simulator"""
    from native.common import run_replay

    def chk(inp):
        n, a, b, pure, gate = AXIS_CASES[int(inp["case"]) % len(AXIS_CASES)]
        if n > 3:
            return None
        ev, out = run_case((("gate", gate, GATES2[gate], (a, b), False), n, not pure, "C01"))
        return out[0] if out else None
    bat = [{"case": i} for i, c in enumerate(AXIS_CASES) if c[0] <= 3]
    run_replay(obligation, I, chk, bat)


# ----------------------------------------------------------------------------- replay entry for the C02 decomposition contracts
def replay_decomposition(obligation, I):
    """counter-model of contracts/c02_fixed.py (class, target modes, register size, dagger, parameter values): the gate is
    compiled for the gaussian target (which decomposes it) and run from a correlated input; means and covariance are compared
    with the documented action"""
    from native.common import run_replay

    def chk(inp):
        cls, modes, n, dag = inp["cls"], tuple(inp["modes"]), int(inp["n"]), bool(inp["dagger"])
        npar = int(inp.get("nparams", 1))
        p = tuple(float(inp.get(f"p{k}", 0.37 + 0.2 * k)) for k in range(npar))
        ref = Ref(n)
        prog = sf.Program(n)
        with prog.context as q:
            base_circuit(q, n, ref)
            g = getattr(ops, cls)(*p)
            (g.H if dag else g) | tuple(q[m] for m in modes)
            ref.gate(cls, p if p else (np.pi / 2,), list(modes), dagger=dag)
        st = sf.Engine("gaussian").run(prog.compile(compiler="gaussian")).state
        mu, V = st.means(), st.cov()
        err = max(abs(mu - ref.mu).max(), abs(V - ref.V).max())
        if err > 1e-7:
            return f"{cls}{p}{'.H' if dag else ''} | {modes} of {n}: the decomposed gate differs from the documented action (max difference {err:.3g} in means / covariance)"
    bat = []
    if I:
        for k in range(6):
            J = dict(I)
            for t in range(int(I.get("nparams", 1))):
                J[f"p{t}"] = 0.3 + 0.37 * k - 0.8 * t
            bat.append(J)
    run_replay(obligation, I, chk, bat)


# ----------------------------------------------------------------------------- replay entry for the C03 Gate.merge contracts
def replay_merge(obligation, I):
    """counter-model of contracts/c03_optimize.py Gate.merge/<class>: the two gates are merged for real; the merged gate
    (or nothing, for None) and the pair applied in sequence must prepare the same Gaussian state; the operands are untouched"""
    from native.common import run_replay
    from strawberryfields.ops import MergeFailure

    def chk(inp):
        cls, npar, ns = inp["cls"], int(inp["npar"]), int(inp["ns"])
        shared = [float(inp.get(f"s{k}", 0.2 * k)) for k in range(1, npar)]
        a0, b0 = float(inp.get("a0", 0.3)), float(inp.get("b0", -0.5))
        C = getattr(ops, cls)
        A = C(*([a0] + shared)) if npar else C()
        B = C(*([b0] + shared)) if npar else C()
        A.dagger, B.dagger = bool(inp.get("dagger_a", False)), bool(inp.get("dagger_b", False))
        pa, pb = list(A.p), list(B.p)
        try:
            res = A.merge(B)
        except MergeFailure:
            return None
        if list(A.p) != pa or list(B.p) != pb:
            return f"{cls}.merge modified its operands: {A.p} / {B.p}"

        def run(seq):
            n = ns + 1
            prog = sf.Program(n)
            with prog.context as q:
                base_circuit(q, n, Ref(n))
                for g in seq:
                    g | tuple(q[k] for k in range(ns))
            st = sf.Engine("gaussian").run(prog).state
            return st.means(), st.cov()
        m0, V0 = run([A, B])
        m1, V1 = run([res] if res is not None else [])
        err = max(abs(m0 - m1).max(), abs(V0 - V1).max())
        if err > 1e-6:
            return f"{A} merged with {B} gives {res}, which differs from applying both (max difference {err:.3g})"
    bat = []
    if I:
        for da in (False, True):
            for db in (False, True):
                for a0, b0 in ((0.3, -0.5), (0.4, 0.4), (0.25, -0.25), (-0.7, 0.2)):
                    J = dict(I); J.update(dagger_a=da, dagger_b=db, a0=a0, b0=b0)
                    bat.append(J)
    run_replay(obligation, I, chk, bat)
