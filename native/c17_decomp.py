"""C17 (+C02 meshes) bounded stand-in (labelled bounded): whole decomposition routines on structured
inputs, checked against independent reconstruction (own 2x2 unitaries from the documented gate
definitions, own symplectic form).  usage: c17_decomp.py <tier> <seed>
Families: identity, permutations, block-diagonal, exact zeros placed to trigger the swap
branches, diagonal phases, DFT, Haar samples; spectra degenerate at several values incl. 1.
"""
import itertools, os, sys, warnings
warnings.filterwarnings("ignore")
sys.path.insert(0, os.path.dirname(os.path.dirname(os.path.abspath(__file__))))
import numpy as np
import strawberryfields as sf
from strawberryfields import ops, decompositions as dec
from strawberryfields.program_utils import RegRef
from native.common import emit_bounded

tier = sys.argv[1] if len(sys.argv) > 1 else "quick"
seed = int(sys.argv[2]) if len(sys.argv) > 2 else 0
V, EVAL, SAMPLES = [], [0], []
seen_known = set()


def bad(msg, fid="-"):
    if fid != "-":
        if fid in seen_known:
            return
        seen_known.add(fid)
    V.append(msg)
    d = os.path.join(os.path.dirname(os.path.dirname(os.path.abspath(__file__))), "replays", "C17")
    os.makedirs(d, exist_ok=True)
    p = os.path.join(d, f"bounded_{len(V)}.py")
    with open(p, "w") as f:
        f.write("# replay of a bounded stand-in violation (C17/C02): re-run native/c17_decomp.py\nimport sys\nprint(%r)\nprint('REPLAY-VIOLATION')\nsys.exit(1)\n" % msg)
    print(f"NATIVE-VIOLATION finding={fid} replay={p} {msg}")


def haar(n, rng):
    z = (rng.randn(n, n) + 1j * rng.randn(n, n)) / np.sqrt(2)
    q, r = np.linalg.qr(z)
    return q * (np.diag(r) / abs(np.diag(r)))


def unitaries(n, rng, count):
    yield "identity", np.eye(n, dtype=complex)
    yield "phases", np.diag(np.exp(1j * rng.uniform(0, 2 * np.pi, n)))
    for p in list(itertools.permutations(range(n)))[: (24 if tier != "quick" else 8)]:
        yield f"perm{p}", np.eye(n, dtype=complex)[list(p)]
    yield "dft", np.fft.fft(np.eye(n)) / np.sqrt(n)
    if n >= 3:
        b = np.eye(n, dtype=complex)
        b[:2, :2] = haar(2, rng)
        yield "block2+id", b
        b2 = np.eye(n, dtype=complex)
        b2[1:, 1:] = haar(n - 1, rng)
        yield "id+block", b2
    if n >= 4:
        b = np.zeros((n, n), dtype=complex)
        b[:2, :2] = haar(2, rng)
        b[2:, 2:] = haar(n - 2, rng)
        yield "blockdiag", b
        yield "blockdiag-permuted", b[::-1]
    # real orthogonal with exact zeros: Givens rotation by pi/2 patterns
    g = np.eye(n, dtype=complex)
    g[0, 0] = 0; g[0, n - 1] = 1; g[n - 1, 0] = -1; g[n - 1, n - 1] = 0
    yield "swap-with-sign", g
    for k in range(count):
        yield f"haar{k}", haar(n, rng)


# own gate unitaries from the documented definitions (a -> U a)
def u_bs(th, ph):
    c, s = np.cos(th), np.sin(th)
    return np.array([[c, -np.exp(-1j * ph) * s], [np.exp(1j * ph) * s, c]])


def fold(cmds, n):
    W = np.eye(n, dtype=complex)
    for c in cmds:
        name = type(c.op).__name__
        modes = [r.ind for r in c.reg]
        p = [complex(x) if np.iscomplexobj(x) else float(x) for x in c.op.p]
        if getattr(c.op, "dagger", False):
            raise RuntimeError("unexpected dagger in mesh decomposition")
        G = np.eye(n, dtype=complex)
        if name == "Rgate":
            G[modes[0], modes[0]] = np.exp(1j * p[0])
        elif name == "BSgate":
            u = u_bs(p[0], p[1])
            for a in range(2):
                for b in range(2):
                    G[modes[a], modes[b]] = u[a, b]
        elif name == "MZgate":
            v, u_ = np.exp(1j * p[0]), np.exp(1j * p[1])
            u = 0.5 * np.array([[u_ * (v - 1), 1j * (1 + v)], [1j * u_ * (1 + v), 1 - v]])
            for a in range(2):
                for b in range(2):
                    G[modes[a], modes[b]] = u[a, b]
        elif name == "sMZgate":
            bs = u_bs(np.pi / 4, np.pi / 2)
            u = bs @ np.diag([np.exp(1j * (p[0] - np.pi / 2)), np.exp(1j * (p[1] - np.pi / 2))]) @ bs
            for a in range(2):
                for b in range(2):
                    G[modes[a], modes[b]] = u[a, b]
        else:
            raise RuntimeError("unexpected op " + name)
        W = G @ W
    return W


MESHES = ["rectangular", "rectangular_phase_end", "rectangular_symmetric", "triangular", "rectangular_compact", "triangular_compact", "sun_compact"]


def check_meshes(rng):
    sizes = (2, 3, 4) if tier == "quick" else (2, 3, 4, 5, 6)
    for n in sizes:
        reg = [RegRef(k) for k in range(n)]
        for label, U in unitaries(n, rng, 2 if tier == "quick" else 6):
            for mesh in MESHES:
                if mesh == "sun_compact" and n < 3:
                    continue        # documented: at least 3x3
                if mesh == "sun_compact" and abs(np.linalg.det(U) - 1) > 1e-9:
                    # SU(n) mesh: the library documents a global-phase convention; feed det-1 matrices
                    Uin = U / np.linalg.det(U) ** (1 / n)
                else:
                    Uin = U
                EVAL[0] += 1
                try:
                    op = ops.Interferometer(Uin, mesh=mesh)
                    cmds = op.decompose(reg)
                    W = fold(cmds, n)
                except Exception as e:
                    fid = "F39" if (mesh == "sun_compact" and "determinant 1" in str(e) and abs(np.linalg.det(Uin) - 1) < 1e-9
                                    and np.sum(abs(Uin) < 1e-14) > 0) else "-"
                    bad(f"Interferometer(mesh={mesh}) on {label} (n={n}, det={np.linalg.det(Uin):.6f}) raised {type(e).__name__}: {e}", fid)
                    continue
                err = abs(W - Uin).max()
                if err > 1e-7:
                    fid = "F26" if mesh == "triangular" else "-"
                    bad(f"Interferometer(mesh={mesh}) on {label} (n={n}): decomposed circuit implements a unitary that differs from the input by {err:.3g}", fid)
                for c in cmds:
                    ms = [r.ind for r in c.reg]
                    if any(m < 0 or m >= n for m in ms) or (len(ms) == 2 and abs(ms[0] - ms[1]) != 1):
                        bad(f"Interferometer(mesh={mesh}) on {label}: command on modes {ms} (not adjacent / out of range)")
    # the mesh may also be requested when the operation is DECOMPOSED (the documented way for a compile target to pass options:
    # Compiler.decompositions = {"Interferometer": {"mesh": ...}}); it then overrides the mesh given to the constructor
    for n in (3, 4):
        reg = [RegRef(k) for k in range(n)]
        label, U = list(unitaries(n, rng, 1))[-1]
        for m1 in MESHES:
            for m2 in MESHES:
                if m1 == m2 or "sun_compact" in (m1, m2):
                    continue
                EVAL[0] += 1
                try:
                    cmds = ops.Interferometer(U, mesh=m1).decompose(reg, mesh=m2)
                    W = fold(cmds, n)
                except Exception as e:
                    bad(f"Interferometer(mesh={m1}).decompose(mesh={m2}) on {label} (n={n}) raised {type(e).__name__}: {e}")
                    continue
                err = abs(W - U).max()
                if err > 1e-7:
                    bad(f"Interferometer(mesh={m1}) decomposed with the option mesh={m2} on {label} (n={n}): the circuit implements a unitary that differs from the input by {err:.3g}")
    # invalid inputs
    for mesh_fn in (dec.rectangular, dec.rectangular_phase_end, dec.rectangular_MZ, dec.rectangular_symmetric, dec.triangular):
        EVAL[0] += 1
        try:
            mesh_fn(np.array([[1.0, 0.2], [0.0, 1.0]], dtype=complex))
            bad(f"{mesh_fn.__name__} accepted a non-unitary matrix")
        except ValueError:
            pass


def check_driver_structure(rng):
    sizes = (2, 3, 4) if tier == "quick" else (2, 3, 4, 5, 6, 7)
    for n in sizes:
        for label, U in unitaries(n, rng, 2):
            for fn in (dec.rectangular, dec.rectangular_phase_end, dec.rectangular_MZ, dec.rectangular_symmetric, dec.triangular):
                EVAL[0] += 1
                try:
                    a, d, b = fn(U)
                except Exception as e:
                    bad(f"{fn.__name__} on {label} (n={n}) raised {type(e).__name__}: {e}")
                    continue
                if not np.allclose(abs(np.asarray(d)), 1, atol=1e-8):
                    bad(f"{fn.__name__} on {label} (n={n}): returned diagonal is not unimodular: {np.round(abs(np.asarray(d)), 6)}")
                for lst in (a, b):
                    for t in (lst or []):
                        if not (0 <= t[0] < n and 0 <= t[1] < n and abs(t[0] - t[1]) == 1 and t[4] == n):
                            bad(f"{fn.__name__} on {label}: mode pair {t[:2]} not adjacent / in range")
                        if not (np.isreal(t[2]) and np.isreal(t[3]) and np.isfinite(t[2]) and np.isfinite(t[3])):
                            bad(f"{fn.__name__} on {label}: non-real/non-finite parameters {t[2:4]}")
            # rectangular: reconstruct with own T matrices  V = T1^-1 ... Tk^-1 D Ti_j^-1 ... Ti_1^-1
            til, d, tl = dec.rectangular(U)

            def myT(m, n_, th, ph, N):
                M = np.eye(N, dtype=complex)
                M[m, m] = np.exp(1j * ph) * np.cos(th); M[m, n_] = -np.sin(th)
                M[n_, m] = np.exp(1j * ph) * np.sin(th); M[n_, n_] = np.cos(th)
                return M
            W = np.diag(d)
            for t in reversed(tl):
                W = np.linalg.inv(myT(*t)) @ W
            # localV = T..T V Ti..Ti  =>  V = (T_k..T_1)^-1 D (Ti_1..Ti_j)^-1
            R = np.eye(n, dtype=complex)
            for t in til:
                R = R @ myT(*t).conj().T
            W = W @ np.linalg.inv(R)
            EVAL[0] += 1
            if abs(W - U).max() > 1e-8:
                bad(f"rectangular on {label} (n={n}): factors do not multiply back (error {abs(W - U).max():.3g})")


def check_null_helpers(rng):
    """nullT / nullTi / nullMZ / nullMZi on random and structured matrices (incl. the zero branches)"""
    for n in (2, 3, 4):
        mats = [haar(n, rng) for _ in range(4)] + [rng.randn(n, n) + 1j * rng.randn(n, n) for _ in range(3)] + [np.eye(n, dtype=complex), np.eye(n, dtype=complex)[::-1]]
        for U in mats:
            for m in range(n):
                for k in range(n - 1):
                    EVAL[0] += 1
                    for fn, inv in ((dec.nullTi, dec.Ti), (dec.nullMZi, dec.mach_zehnder_inv)):
                        p = fn(m, k, U)
                        val = (U @ inv(*p))[m, k]
                        if abs(val) > 1e-9 * max(1, abs(U).max()):
                            bad(f"{fn.__name__}({m},{k}) on a {n}x{n} matrix leaves |element| = {abs(val):.3g}")
                    for fn, fw in ((dec.nullT, dec.T), (dec.nullMZ, dec.mach_zehnder)):
                        p = fn(k + 1, m, U)
                        val = (fw(*p) @ U)[k + 1, m]
                        if abs(val) > 1e-9 * max(1, abs(U).max()):
                            bad(f"{fn.__name__}({k + 1},{m}) on a {n}x{n} matrix leaves |element| = {abs(val):.3g}")


def symp(n):
    O = np.zeros((2 * n, 2 * n)); O[:n, n:] = np.eye(n); O[n:, :n] = -np.eye(n)
    return O


def check_takagi(rng):
    sizes = (1, 2, 3, 4) if tier == "quick" else (1, 2, 3, 4, 5, 6)
    for n in sizes:
        fam = []
        U = haar(n, rng)
        for lab, sv in (("generic", rng.uniform(0.1, 2, n)), ("degenerate", np.ones(n) * 0.7), ("zeros", np.r_[np.zeros(max(1, n // 2)), rng.uniform(0.5, 1, n - max(1, n // 2))]),
                        ("pairs", np.repeat(rng.uniform(0.2, 1, (n + 1) // 2), 2)[:n])):
            fam.append((lab, U @ np.diag(sv) @ U.T))
        A = rng.randn(n, n); fam.append(("real-symmetric", A + A.T))
        fam.append(("real-mixed-sign", np.diag(np.r_[np.ones(n // 2), -np.ones(n - n // 2)]).astype(float)))
        fam.append(("antidiagonal", np.fliplr(np.eye(n)) * (1 + 0j)))
        fam.append(("zero", np.zeros((n, n))))
        for lab, N in fam:
            EVAL[0] += 1
            try:
                rl, Ut = dec.takagi(N)
            except Exception as e:
                bad(f"takagi on {lab} (n={n}) raised {type(e).__name__}: {e}")
                continue
            rec = abs(Ut @ np.diag(rl) @ Ut.T - N).max()
            uni = abs(Ut @ Ut.conj().T - np.eye(n)).max()
            if rec > 1e-7 or uni > 1e-7 or np.any(np.asarray(rl) < -1e-12):
                bad(f"takagi on {lab} (n={n}): reconstruction error {rec:.2g}, unitarity error {uni:.2g}, values {np.round(rl, 4)}")
    for badN in (np.array([[1, 2], [3, 4.0]]), np.ones((2, 3))):
        EVAL[0] += 1
        try:
            dec.takagi(badN)
            bad(f"takagi accepted an invalid input of shape {badN.shape}")
        except ValueError:
            pass


def rand_symplectic_orth(n, rng):
    U = haar(n, rng)
    return np.block([[U.real, -U.imag], [U.imag, U.real]])


def check_williamson_bm(rng):
    sizes = (1, 2, 3) if tier == "quick" else (1, 2, 3, 4, 5)
    for n in sizes:
        O = symp(n)
        for lab, nu in (("generic", rng.uniform(1, 3, n)), ("pure", np.ones(n)), ("degenerate", np.ones(n) * 1.7)):
            for rlab, r in (("sq", rng.uniform(-1, 1, n)), ("nosq", np.zeros(n))):
                S = rand_symplectic_orth(n, rng) @ np.diag(np.r_[np.exp(-r), np.exp(r)]) @ rand_symplectic_orth(n, rng)
                Vm = S.T @ np.diag(np.r_[nu, nu]) @ S
                Vm = (Vm + Vm.T) / 2
                EVAL[0] += 1
                try:
                    Db, S2 = dec.williamson(Vm)
                except Exception as e:
                    bad(f"williamson on {lab}/{rlab} (n={n}) raised {type(e).__name__}: {e}")
                    continue
                rec = min(abs(S2.T @ Db @ S2 - Vm).max(), abs(S2 @ Db @ S2.T - Vm).max())   # docstring says S^T Db S, code returns S Db S^T
                sy = abs(S2 @ O @ S2.T - O).max()
                dg = abs(Db - np.diag(np.diag(Db))).max()
                if rec > 1e-6 or sy > 1e-6 or dg > 1e-9 or np.any(np.diag(Db) <= 0):
                    bad(f"williamson on {lab}/{rlab} (n={n}): reconstruction {rec:.2g}, symplecticity {sy:.2g}, off-diagonal {dg:.2g}")
        for lab, r in (("generic", rng.uniform(0.2, 1.2, n)), ("equal", np.ones(n) * 0.5), ("passive", np.zeros(n)),
                       ("one-squeezed", np.r_[0.8, np.zeros(n - 1)]), ("two-unsqueezed", np.r_[0.8, np.zeros(n - 1)] if n >= 3 else None),
                       ("partially-degenerate", np.r_[0.5, 0.5, rng.uniform(0.1, 1, max(0, n - 2))][:n])):
            if r is None:
                continue
            S = rand_symplectic_orth(n, rng) @ np.diag(np.r_[np.exp(-r), np.exp(r)]) @ rand_symplectic_orth(n, rng)
            EVAL[0] += 1
            try:
                O1, Z, O2 = dec.bloch_messiah(S)
            except Exception as e:
                bad(f"bloch_messiah on {lab} (n={n}) raised {type(e).__name__}: {e}")
                continue
            rec = abs(O1 @ Z @ O2 - S).max()
            st = max(abs(O1 @ O @ O1.T - O).max(), abs(O2 @ O @ O2.T - O).max(), abs(O1 @ O1.T - np.eye(2 * n)).max(), abs(O2 @ O2.T - np.eye(2 * n)).max())
            zs = abs(Z - np.diag(np.diag(Z))).max()
            zz = np.diag(Z)
            if rec > 1e-6 or st > 1e-6 or zs > 1e-9 or abs(zz[:n] * zz[n:] - 1).max() > 1e-6:
                unsq = int(np.sum(np.abs(r) < 1e-12))
                fid = "-"
                bad(f"bloch_messiah on {lab} (n={n}, {unsq} unsqueezed modes): reconstruction {rec:.2g}, orthogonal-symplectic structure error {st:.2g}, diagonal error {zs:.2g}", fid)
    for badS in (np.eye(3), np.array([[1, 0.3], [0, 1.2]])):
        EVAL[0] += 1
        try:
            dec.bloch_messiah(badS)
            bad(f"bloch_messiah accepted an invalid input of shape {badS.shape}")
        except ValueError:
            pass


def check_embeddings(rng):
    sizes = (2, 3, 4) if tier == "quick" else (2, 3, 4, 5, 6)
    for n in sizes:
        for lab, A in (("random", None), ("complete", np.ones((n, n)) - np.eye(n)), ("path", np.diag(np.ones(n - 1), 1) + np.diag(np.ones(n - 1), -1)),
                       ("degenerate", np.eye(n)), ("disconnected", np.diag(np.r_[1.0, np.zeros(n - 1)]))):
            if A is None:
                B = rng.randn(n, n); A = B + B.T
            for mp, traceless in ((0.5, False), (1.3, False), (0.5, True), (1.3, True)):
                EVAL[0] += 1
                A_src = A
                if traceless:
                    # option make_traceless: the embedded matrix is A - tr(A)/n (graphs with self-loops / weighted diagonals)
                    A = A_src - np.trace(A_src) * np.eye(n) / n
                    if abs(A).max() < 1e-9:
                        A = A_src
                        continue
                try:
                    sq, U = dec.graph_embed(A_src, mean_photon_per_mode=mp, make_traceless=traceless)
                except Exception as e:
                    bad(f"graph_embed on {lab} (n={n}, make_traceless={traceless}) raised {type(e).__name__}: {e}")
                    A = A_src
                    continue
                lab_ = lab + (" make_traceless" if traceless else "")
                M = U @ np.diag(np.tanh(sq)) @ U.T
                nz = abs(A) > 1e-9
                ratio = (M[nz] / A[nz]) if nz.any() else np.array([1.0])
                ok_prop = np.allclose(ratio, ratio.flat[0], atol=1e-6) and abs(M[~nz]).max(initial=0) < 1e-6
                mean = np.sum(np.sinh(sq) ** 2) / n
                if not ok_prop or not np.isfinite(mean) or abs(mean - mp) > 1e-5 or abs(U @ U.conj().T - np.eye(n)).max() > 1e-7:
                    bad(f"graph_embed on {lab_} (n={n}, mean photon {mp}): U tanh(r) U^T proportional to the embedded matrix: {ok_prop}; mean photon per mode {mean:.5f}")
                A = A_src


def takagi_boundary_cases(rng):
    """matrices that are NOT symmetric by an amount between the documented absolute tolerance and a relative 1e-5 band"""
    out = []
    for n, cplx in ((2, False), (3, False), (5, False), (4, True)):
        B = rng.randn(n, n) + (1j * rng.randn(n, n) if cplx else 0)
        S = B + B.T
        for eps, rel in ((1e-9, False), (1e-7, False), (4e-6, True), (1e-4, False)):
            N = S.copy()
            N[0, n - 1] += eps * (abs(N[0, n - 1]) if rel else 1.0)
            out.append((f"{'complex' if cplx else 'real'} {n}x{n} symmetric matrix with one entry off by {eps:g}{' (relative)' if rel else ''}", N))
    W = np.diag(np.full(5, 300.0), 1)
    W = W + W.T
    W[1, 2] += 2e-3
    out.append(("weighted path graph 6x6 with one weight of 300 off by 2e-3", W))
    return out


def takagi_boundary_case(lab, N):
    try:
        rl, U = dec.takagi(N)
    except ValueError:
        return None
    err = abs(U @ np.diag(rl) @ U.T - N).max()
    return f"takagi accepted a non-symmetric input ({lab}: |N - N^T| = {np.linalg.norm(N - N.T):.3g}) and returned factors with max|U diag(s) U^T - N| = {err:.3g}"


def replay_takagi_validation(obligation, I):
    from native.common import run_replay
    rng = np.random.RandomState(3)
    run_replay(obligation, None, lambda inp: takagi_boundary_case(*inp), takagi_boundary_cases(rng))


def bipartite_case(lab, A, mp):
    """None | text: bipartite_graph_embed(A) must return unitaries U, V and squeezing values r with U tanh(|r|) V^T proportional
    to A (every valid complex square matrix: symmetric, Hermitian, or neither) and the requested mean photon number"""
    n = len(A)
    try:
        sq, U, Vm = dec.bipartite_graph_embed(A, mean_photon_per_mode=mp)
    except Exception as e:
        return f"bipartite_graph_embed on {lab} (n={n}) rejected a valid input: {type(e).__name__}: {e}"
    M = U @ np.diag(np.tanh(-np.asarray(sq))) @ Vm.T
    nz = abs(A) > 1e-9
    ratio = (M[nz] / A[nz]) if nz.any() else np.array([1.0])
    ok_prop = np.allclose(ratio, ratio.flat[0], atol=1e-6) and abs(M[~nz]).max(initial=0) < 1e-6 and ratio.flat[0].real > 0 and abs(ratio.flat[0].imag) < 1e-6
    mean = np.sum(np.sinh(sq) ** 2) / n
    uni = abs(U @ U.conj().T - np.eye(n)).max() < 1e-7 and abs(Vm @ Vm.conj().T - np.eye(n)).max() < 1e-7
    if not ok_prop or not uni or not np.isfinite(mean) or abs(mean - mp) > 1e-5:
        return (f"bipartite_graph_embed on {lab} (n={n}, mean photon {mp}): U tanh(r) V^T is a positive multiple of the input: {ok_prop}; "
                f"U, V unitary: {uni}; mean photon per mode {mean:.5f}")
    return None


def bipartite_families(n, rng):
    B = rng.randn(n, n) + 1j * rng.randn(n, n)
    return [("real non-symmetric", rng.randn(n, n)), ("real symmetric", (B + B.T).real), ("complex symmetric", B + B.T), ("complex non-symmetric", B),
            ("complex Hermitian", B + B.conj().T), ("Hermitian with real diagonal only", np.diag(rng.rand(n) + 0.5) + 1j * (np.triu(np.ones((n, n)), 1) - np.tril(np.ones((n, n)), -1))),
            ("permutation", np.eye(n)[::-1] + 0j), ("rank one", np.outer(B[0], B[1]))]


def check_takagi_validation(rng):
    for lab, N in takagi_boundary_cases(rng):
        EVAL[0] += 1
        msg = takagi_boundary_case(lab, N)
        if msg:
            bad(msg)


def check_bipartite(rng):
    for n in ((2, 3) if tier == "quick" else (2, 3, 4, 5)):
        for lab, A in bipartite_families(n, rng):
            for mp in (0.5, 1.3):
                EVAL[0] += 1
                msg = bipartite_case(lab, A, mp)
                if msg:
                    bad(msg)


def replay_bipartite(obligation, I):
    from native.common import run_replay
    rng = np.random.RandomState(0)

    def chk(inp):
        if "a" in inp:
            a, b, c, d = (float(inp.get(k, 0.5)) for k in "abcd")
            A = np.array([[a, b + 1j * c], [b - 1j * c, d]])
            if abs(np.linalg.det(A)) < 1e-9 and abs(A).max() < 1e-9:
                return None
            return bipartite_case(f"[[{a}, {b}+{c}j], [{b}-{c}j, {d}]]", A, abs(float(inp.get("mean_photon", 1.0))) or 1.0)
        return bipartite_case(inp["lab"], inp["A"], 1.0)
    bat = [dict(lab=lab, A=A) for n in (2, 3) for lab, A in bipartite_families(n, rng)]
    run_replay(obligation, I, chk, bat)


if __name__ == "__main__":
    rng = np.random.RandomState(seed)
    for f in (check_null_helpers, check_meshes, check_driver_structure, check_takagi, check_williamson_bm, check_embeddings, check_bipartite, check_takagi_validation):
        try:
            f(rng)
        except Exception:
            import traceback
            traceback.print_exc()
            print("bounded stand-in crashed in", f.__name__)
            sys.exit(3)
    SAMPLES.append({"meshes": MESHES, "families": ["identity", "phases", "permutations", "dft", "block-diagonal", "swap-with-sign", "haar"]})
    emit_bounded("c17_decomp", EVAL[0], EVAL[0], SAMPLES, len(V))
    sys.exit(1 if V else 0)
