"""C14 bounded stand-in (labelled bounded): text round trip  Program -> Blackbird / XIR text -> Program.
For every operation class of ops.__all__ with representative parameters (scalars, negative / complex values, arrays,
free parameters and expressions of them, measured-parameter expressions), daggered gates, post-selection and dark
counts (including falsy values), target / run / backend options, multi-command programs on permuted modes, and
time-domain programs, the loaded program must have the same commands (class, modes, parameter values, dagger,
select, dark_counts) in the same order, the same target and options and - TDM - the same parameter arrays; saving
must not modify the program; generate_code must produce code that rebuilds the program.
usage: c14_io.py <tier> <seed>"""
import copy, io, os, sys, warnings
warnings.filterwarnings("ignore")
sys.path.insert(0, os.path.dirname(os.path.dirname(os.path.abspath(__file__))))
import numpy as np
import sympy
import strawberryfields as sf
from strawberryfields import ops
from strawberryfields.parameters import par_is_symbolic, par_evaluate, FreeParameter, MeasuredParameter
from native.common import emit_bounded

tier = sys.argv[1] if len(sys.argv) > 1 else "quick"
seed = int(sys.argv[2]) if len(sys.argv) > 2 else 0
V, EVAL = [], [0]
seen_known = {}


def bad(msg, fid="-"):
    if fid != "-":
        seen_known[fid] = seen_known.get(fid, 0) + 1
        if seen_known[fid] > 1:
            return
    msg = " ".join(str(msg).split())
    V.append(msg)
    d = os.path.join(os.path.dirname(os.path.dirname(os.path.abspath(__file__))), "replays", "C14")
    os.makedirs(d, exist_ok=True)
    p = os.path.join(d, f"bounded_{len(V)}.py")
    open(p, "w").write("# replay of a bounded stand-in violation (C14): re-run native/c14_io.py\nimport sys\nprint(%r)\nprint('REPLAY-VIOLATION')\nsys.exit(1)\n" % msg)
    print(f"NATIVE-VIOLATION finding={fid} replay={p} {msg}")


# ----------------------------------------------------------------------------------------- comparison
def canon_param(x, env):
    """a parameter as a comparable value: numbers -> complex, arrays -> complex ndarray, symbolic -> the value
    under a fixed assignment of every free / measured symbol (by NAME, so that fresh symbol objects compare)"""
    if isinstance(x, str):
        return ("str", x)
    if par_is_symbolic(x):
        subs = {}
        for s in x.free_symbols:
            nm = s.name
            subs[s] = env.setdefault(nm, 0.37 + 0.11 * len(env))
        v = x
        for s, val in subs.items():
            v = v.subs(s, val)
        try:
            return ("sym", sorted(s.name for s in x.free_symbols), sorted(type(s).__name__ for s in x.free_symbols), complex(sympy.N(v)))
        except Exception:
            return ("sym?", str(x))
    if isinstance(x, (list, tuple, np.ndarray)):
        a = np.array(x)
        if a.dtype == object:
            return ("objarr", tuple(canon_param(y, env) for y in a.flat), a.shape)
        return ("arr", a.shape, a.astype(complex))
    if x is None:
        return ("none",)
    try:
        return ("num", complex(x))
    except Exception:
        return ("other", repr(x))


def same(a, b):
    if a[0] != b[0]:
        return False
    if a[0] == "arr":
        return a[1] == b[1] and np.allclose(a[2], b[2], atol=1e-9)
    if a[0] == "num":
        return abs(a[1] - b[1]) < 1e-9
    if a[0] == "sym":
        return a[1] == b[1] and a[2] == b[2] and abs(a[3] - b[3]) < 1e-9
    if a[0] == "objarr":
        return a[2] == b[2] and len(a[1]) == len(b[1]) and all(same(x, y) for x, y in zip(a[1], b[1]))
    return a == b


def describe(prog):
    env = {}
    out = []
    for c in prog.circuit:
        op = c.op
        out.append({
            "cls": type(op).__name__, "modes": tuple(r.ind for r in c.reg),
            "p": [canon_param(x, env) for x in op.p if not isinstance(x, str) or True],
            "dagger": bool(getattr(op, "dagger", False)),
            "select": canon_param(getattr(op, "select", None), env),
            "dark_counts": canon_param(getattr(op, "dark_counts", None), env),
        })
    return out


def diff(d0, d1):
    if len(d0) != len(d1):
        return f"{len(d0)} commands saved, {len(d1)} loaded ({[c['cls'] for c in d0]} vs {[c['cls'] for c in d1]})", "count"
    for i, (a, b) in enumerate(zip(d0, d1)):
        if a["cls"] != b["cls"]:
            return f"command {i}: class {a['cls']} loaded as {b['cls']}", "class"
        if a["modes"] != b["modes"]:
            return f"command {i} ({a['cls']}): modes {a['modes']} loaded as {b['modes']}", "modes"
        if a["dagger"] != b["dagger"]:
            return f"command {i} ({a['cls']}): dagger={a['dagger']} loaded as dagger={b['dagger']}", "dagger"
        if not same(a["select"], b["select"]):
            return f"command {i} ({a['cls']}): select {a['select']} loaded as {b['select']}", "select"
        if not same(a["dark_counts"], b["dark_counts"]):
            return f"command {i} ({a['cls']}): dark_counts {a['dark_counts']} loaded as {b['dark_counts']}", "dark_counts"
        pa, pb = a["p"], b["p"]
        # trailing default parameters may be filled in by the constructor: compare the saved ones position by position
        if len(pa) != len(pb):
            return f"command {i} ({a['cls']}): {len(pa)} parameters saved, {len(pb)} loaded", "params"
        for k, (x, y) in enumerate(zip(pa, pb)):
            if not same(x, y):
                return f"command {i} ({a['cls']}): parameter {k} {short(x)} loaded as {short(y)}", "params"
    return None, None


def short(x):
    s = repr(x)
    return s if len(s) < 120 else s[:117] + "..."


def fingerprint(prog):
    out = []
    for c in prog.circuit:
        out.append((id(c.op), type(c.op).__name__, tuple(repr(x) if not isinstance(x, np.ndarray) else x.tobytes() for x in c.op.p),
                    getattr(c.op, "dagger", None), tuple(r.ind for r in c.reg)))
    return out


# ----------------------------------------------------------------------------------------- catalogue
def catalogue(rng):
    """(label, number of modes, builder(q, prog)) for every operation class"""
    U2 = np.array([[1, 1j], [1j, 1]]) / np.sqrt(2)
    U3 = sf.utils.random_interferometer(3)
    A2 = np.array([[0.1, 0.3], [0.3, -0.2]])
    S2 = sf.utils.random_symplectic(2)
    V2 = np.diag([1.5, 0.8, 1.5, 2.0]).astype(float)
    ket = np.array([0.6, 0.0, 0.8j])
    dm = np.outer(ket, ket.conj())
    C = []
    add = lambda label, n, f: C.append((label, n, f))
    one = {"Xgate": (0.4,), "Zgate": (-0.3,), "Rgate": (0.7,), "Pgate": (0.2,), "Vgate": (0.05,), "Kgate": (0.1,),
           "Dgate": (0.5, 0.3), "Sgate": (0.4, -0.2), "LossChannel": (0.7,), "ThermalLossChannel": (0.6, 0.3),
           "MSgate": (0.3, 0.1, 1.0, 0.9, True), "Coherent": (0.4, 0.2), "Squeezed": (0.3, 0.5),
           "DisplacedSqueezed": (0.2, 0.1, 0.3, 0.4), "Fock": (2,), "Catstate": (0.8, 0.3, 1), "Thermal": (0.4,),
           "GKP": ([0.3, 0.2], 0.1), "Fouriergate": (), "Vacuum": ()}
    two = {"CXgate": (0.3,), "CZgate": (-0.4,), "CKgate": (0.2,), "BSgate": (0.4, 0.9), "MZgate": (0.3, 0.5), "S2gate": (0.5, 0.2)}
    for name, args in one.items():
        add(name, 1, lambda q, prog, name=name, args=args: getattr(ops, name)(*args) | q[0])
    for name, args in two.items():
        add(name, 3, lambda q, prog, name=name, args=args: getattr(ops, name)(*args) | (q[2], q[0]))
    add("Ket", 1, lambda q, prog: ops.Ket(ket) | q[0])
    add("DensityMatrix", 1, lambda q, prog: ops.DensityMatrix(dm) | q[0])
    add("Interferometer", 3, lambda q, prog: ops.Interferometer(U3) | (q[1], q[2], q[0]))
    add("PassiveChannel", 2, lambda q, prog: ops.PassiveChannel(0.5 * U2) | (q[0], q[1]))
    add("GraphEmbed", 2, lambda q, prog: ops.GraphEmbed(A2, mean_photon_per_mode=0.4) | (q[0], q[1]))
    add("BipartiteGraphEmbed", 4, lambda q, prog: ops.BipartiteGraphEmbed(np.block([[np.zeros((2, 2)), A2], [A2.T, np.zeros((2, 2))]])) | tuple(q))
    add("GaussianTransform", 2, lambda q, prog: ops.GaussianTransform(S2) | (q[0], q[1]))
    add("Gaussian", 2, lambda q, prog: ops.Gaussian(V2, r=np.array([0.1, 0.2, -0.3, 0.4])) | (q[0], q[1]))
    add("MeasureFock", 2, lambda q, prog: ops.MeasureFock() | (q[1], q[0]))
    add("MeasureFock(select)", 2, lambda q, prog: ops.MeasureFock(select=[1, 2]) | (q[0], q[1]))
    add("MeasureFock(select=0)", 1, lambda q, prog: ops.MeasureFock(select=0) | q[0])
    add("MeasureFock(dark_counts)", 2, lambda q, prog: ops.MeasureFock(dark_counts=[0.1, 0.2]) | (q[0], q[1]))
    add("MeasureThreshold", 2, lambda q, prog: ops.MeasureThreshold() | (q[0], q[1]))
    add("MeasureThreshold(select)", 1, lambda q, prog: ops.MeasureThreshold(select=1) | q[0])
    add("MeasureHomodyne", 1, lambda q, prog: ops.MeasureHomodyne(0.3) | q[0])
    add("MeasureHomodyne(select)", 1, lambda q, prog: ops.MeasureHomodyne(0.3, select=0.25) | q[0])
    add("MeasureHomodyne(select=0.0)", 1, lambda q, prog: ops.MeasureHomodyne(0.0, select=0.0) | q[0])
    add("MeasureHeterodyne", 1, lambda q, prog: ops.MeasureHeterodyne() | q[0])
    add("MeasureHeterodyne(select)", 1, lambda q, prog: ops.MeasureHeterodyne(select=0.1 + 0.2j) | q[0])
    add("MeasureX", 1, lambda q, prog: ops.MeasureX | q[0])
    add("MeasureP", 1, lambda q, prog: ops.MeasureP | q[0])
    add("MeasureHD", 1, lambda q, prog: ops.MeasureHD | q[0])
    add("Vac", 1, lambda q, prog: ops.Vac | q[0])
    add("Fourier", 1, lambda q, prog: ops.Fourier | q[0])
    add("Del", 2, lambda q, prog: (ops.Sgate(0.1) | q[1], ops.Del | q[0]))
    add("New", 1, lambda q, prog: ops.Rgate(0.1) | ops.New(1)[0])
    # daggered gates
    for name, args in list(one.items()) + list(two.items()):
        cls = getattr(ops, name)
        if issubclass(cls, ops.Gate):
            nm = 1 if name in one else 3
            add(name + ".H", nm, lambda q, prog, cls=cls, args=args, nm=nm: cls(*args).H | (q[0] if nm == 1 else (q[2], q[0])))
    # complex / negative / integer / zero values
    add("Dgate(negative,0)", 1, lambda q, prog: ops.Dgate(-0.5, 0) | q[0])
    add("Rgate(int)", 1, lambda q, prog: ops.Rgate(3) | q[0])
    add("Sgate(tiny)", 1, lambda q, prog: ops.Sgate(1e-7, 1e-12) | q[0])
    add("Coherent(large)", 1, lambda q, prog: ops.Coherent(123456.789, -2.5) | q[0])
    # free parameters and expressions
    def fp(q, prog):
        a, b = prog.params("a", "b")
        ops.Dgate(a, b) | q[0]
        ops.BSgate(a * 2, b - 0.1) | (q[0], q[1])
    add("free-parameters", 2, fp)
    def fpe(q, prog):
        a = prog.params("a")
        ops.Rgate(a ** 2) | q[0]
    add("free-parameter-expression(a**2)", 1, fpe)
    def fpf(q, prog):
        a, b = prog.params("a", "b")
        ops.Sgate(sf.math.sin(a) * b) | q[0]
    add("free-parameter-function", 1, fpf)
    def mp(q, prog):
        ops.MeasureX | q[0]
        ops.Xgate(q[0].par) | q[1]
    add("measured-parameter", 2, mp)
    def mpe(q, prog):
        ops.MeasureX | q[0]
        ops.MeasureP | q[1]
        ops.Xgate(q[0].par * 1.5 - q[1].par) | q[2]
        ops.Zgate(sf.math.sqrt(2) * q[1].par) | q[2]
    add("measured-parameter-expression", 3, mpe)
    def mp2(q, prog):
        ops.MeasureHomodyne(0.0, select=0.7) | q[11]
        ops.MeasureHomodyne(0.0, select=-0.3) | q[1]
        ops.Xgate(q[11].par) | q[0]
        ops.Zgate(q[1].par * 2) | q[10]
    add("measured-parameter-two-digit-mode", 12, mp2)
    # a multi-command circuit on permuted modes
    def multi(q, prog, dag=False, ff=False):
        ops.Squeezed(0.3) | q[2]
        ops.S2gate(0.4, 0.1) | (q[3], q[1])
        ops.BSgate(0.2, 0.3) | (q[1], q[0])
        (ops.Rgate(0.5).H if dag else ops.Rgate(-0.5)) | q[3]
        ops.LossChannel(0.9) | q[2]
        ops.MeasureHomodyne(0.2, select=0.1) | q[2]
        ops.Zgate(q[2].par if ff else 0.25) | q[0]
        ops.MeasureFock(dark_counts=[0.01, 0.02, 0.03]) | (q[3], q[0], q[1])
    add("multi-command", 4, multi)
    add("multi-command-with-dagger", 4, lambda q, prog: multi(q, prog, True))
    add("multi-command-with-feed-forward", 4, lambda q, prog: multi(q, prog, False, True))
    return C


def finding_for(ir, kind, label):
    for (i, k, l), fid in KNOWN.items():
        if i in (ir, "*") and k in (kind, "*") and (l == label or (l.endswith("*") and label.startswith(l[:-1]))):
            return fid
    return "-"


# open findings (known_findings.json), identified by IR, kind of failure and the catalogue entry
KNOWN = {
    ("*", "dagger", "*"): "F20",
    ("blackbird", "params", "free-parameter*"): "F35", ("xir", "params", "free-parameter*"): "F35",
    ("xir", "load-raises", "free-parameter-expression(a**2)"): "F35", ("xir", "params", "measured-parameter*"): "F35",
    ("xir", "params", "multi-command-with-feed-forward"): "F35",
    ("*", "load-raises", "Fouriergate"): "F43", ("*", "load-raises", "Fourier"): "F43", ("*", "load-raises", "Fouriergate.H"): "F43",
    ("*", "load-raises", "BipartiteGraphEmbed"): "F44",
    ("*", "load-raises", "Del"): "F45", ("*", "load-raises", "New"): "F45",
    ("blackbird", "save-raises", "Ket"): "F46", ("blackbird", "save-raises", "Gaussian"): "F46", ("blackbird", "load-raises", "GKP"): "F46",
    ("xir", "params", "MSgate"): "F47",
    ("code", "code-raises", "Fouriergate"): "F43", ("code", "code-raises", "Fourier"): "F43", ("code", "code-raises", "Fouriergate.H"): "F43",
    ("code", "code-params", "Catstate"): "F50",
    ("code", "code-dagger", "*"): "F50", ("code", "code-select", "*"): "F50", ("code", "code-dark_counts", "*"): "F50",
    **{("code", "code-raises", l): "F50" for l in ("Ket", "DensityMatrix", "Interferometer", "PassiveChannel", "GraphEmbed", "BipartiteGraphEmbed",
                                                  "GaussianTransform", "Gaussian", "GKP", "Del", "New", "free-parameters", "free-parameter-expression(a**2)",
                                                  "free-parameter-function", "measured-parameter", "measured-parameter-expression", "measured-parameter-two-digit-mode",
                                                  "multi-command-with-feed-forward")},
    ("blackbird", "tdm-save-raises", "tdm-single-band"): "F43a", ("blackbird", "tdm-save-raises", "tdm-two-bands-dagger-select"): "F43a", ("blackbird", "tdm-save-raises", "tdm-twelve-loop-variables"): "F43a",
    ("blackbird", "tdm-N", "tdm-two-bands-dagger-select"): "F48", ("xir", "tdm-load-raises", "tdm-two-bands-dagger-select"): "F48",
}


def roundtrip(label, n, build, ir, compile_to=None):
    prog = sf.Program(n, name="c14")
    with prog.context as q:
        build(q, prog)
    if compile_to:
        prog = prog.compile(compiler=compile_to)
        prog.run_options = {"shots": 7}
        prog.backend_options = {"cutoff_dim": 6}
    d0 = describe(prog)
    fp0 = fingerprint(prog)
    try:
        f = io.StringIO()
        sf.save(f, prog, ir=ir)
        text = f.getvalue()
    except Exception as e:
        return f"saving raised {type(e).__name__}: {str(e)[:150]}", "save-raises", None
    if fingerprint(prog) != fp0:
        return "saving modified the program", "mutated", None
    try:
        loaded = sf.io.loads(text, ir=ir)
    except Exception as e:
        return f"loading what was saved raised {type(e).__name__}: {str(e)[:150]}", "load-raises", None
    msg, kind = diff(d0, describe(loaded))
    if msg:
        return msg, kind, loaded
    if compile_to:
        if loaded.target != prog.target:
            return f"target {prog.target!r} loaded as {loaded.target!r}", "target", loaded
        if loaded.run_options.get("shots") != 7:
            return f"run option shots=7 loaded as {loaded.run_options}", "options", loaded
        if loaded.backend_options.get("cutoff_dim") != 6:
            return f"backend option cutoff_dim=6 loaded as {loaded.backend_options}", "options", loaded
    return None, None, loaded


def codegen(label, n, build):
    """generate_code(prog) executed must rebuild the program"""
    prog = sf.Program(n, name="c14")
    with prog.context as q:
        build(q, prog)
    d0 = describe(prog)
    try:
        code = sf.io.generate_code(prog)
    except Exception as e:
        return f"generate_code raised {type(e).__name__}: {str(e)[:150]}", "codegen-raises"
    ns = {"np": np}          # the generated text uses np.pi without importing numpy (part of F50)
    try:
        exec(code, ns)
    except Exception as e:
        return f"the generated code does not run: {type(e).__name__}: {str(e)[:150]}", "code-raises"
    msg, kind = diff(d0, describe(ns["prog"]))
    if msg:
        return "generated code rebuilds a different program: " + msg, "code-" + kind
    return None, None


def tdm_programs():
    def single():
        prog = sf.TDMProgram(N=2)
        with prog.context([0.1, 0.2, 0.3], [0.4, 0.5, 0.6], [0.0, 0.7, 1.4]) as (p, q):
            ops.Sgate(0.5, p[0]) | q[1]
            ops.BSgate(p[1], 0.3) | (q[0], q[1])
            ops.Rgate(p[2]) | q[1]
            ops.MeasureHomodyne(p[0]) | q[0]
        return prog
    def two_band():
        prog = sf.TDMProgram(N=[1, 2])
        with prog.context([0.1, 0.2], [0.3, 0.4]) as (p, q):
            ops.Sgate(0.4, 0.0) | q[2]
            ops.BSgate(p[0], 0.0) | (q[1], q[2])
            ops.Rgate(p[1]).H | q[2]
            ops.MeasureX | q[0]
            ops.MeasureHomodyne(p[1], select=0.0) | q[1]
        return prog
    def many():
        # twelve per-time-bin arrays: loop-variable names with two digits (p10, p11); array k holds k + t / 8
        prog = sf.TDMProgram(N=2)
        arrs = [[k + t / 8 for t in range(3)] for k in range(12)]
        with prog.context(*arrs) as (p, q):
            ops.Sgate(0.5, p[0]) | q[1]
            for k in range(1, 11):
                ops.Rgate(p[k]) | q[k % 2]
            ops.MeasureHomodyne(p[11]) | q[0]
        return prog
    return [("tdm-single-band", single), ("tdm-two-bands-dagger-select", two_band), ("tdm-twelve-loop-variables", many)]


def tdm_roundtrip(label, mk, ir):
    prog = mk()
    fp0 = fingerprint(prog)
    d0 = describe(prog)
    try:
        f = io.StringIO()
        sf.save(f, prog, ir=ir)
        text = f.getvalue()
    except Exception as e:
        return f"saving raised {type(e).__name__}: {str(e)[:150]}", "tdm-save-raises"
    if fingerprint(prog) != fp0:
        return "saving modified the program (operation parameters changed)", "mutated"
    try:
        loaded = sf.io.loads(text, ir=ir)
    except Exception as e:
        return f"loading what was saved raised {type(e).__name__}: {str(e)[:150]}", "tdm-load-raises"
    if not isinstance(loaded, sf.TDMProgram):
        return f"a TDMProgram was loaded as {type(loaded).__name__}", "tdm-type"
    if list(np.atleast_1d(loaded.N)) != list(np.atleast_1d(prog.N)):
        return f"N={prog.N} loaded as {loaded.N}", "tdm-N"
    if loaded.timebins != prog.timebins:
        return f"timebins {prog.timebins} loaded as {loaded.timebins}", "tdm-timebins"
    if len(loaded.tdm_params) != len(prog.tdm_params) or not all(np.allclose(np.array(a, dtype=float), np.array(b, dtype=float)) for a, b in zip(prog.tdm_params, loaded.tdm_params)):
        return f"per-time-bin parameter arrays {prog.tdm_params} loaded as {loaded.tdm_params}", "tdm-arrays"
    msg, kind = diff(d0, describe(loaded))
    if msg:
        return msg, kind
    return None, None


if __name__ == "__main__":  # noqa
    rng = np.random.RandomState(seed)
    np.random.seed(seed)
    try:
        cat = catalogue(rng)
        for ir in ("blackbird", "xir"):
            for label, n, build in cat:
                EVAL[0] += 1
                msg, kind, loaded = roundtrip(label, n, build, ir)
                if msg:
                    bad(f"{ir} {label}: {msg}", finding_for(ir, kind, label))
            if ir == "blackbird":
                for label, n, build in cat:
                    EVAL[0] += 1
                    msg, kind = codegen(label, n, build)
                    if msg:
                        bad(f"generate_code {label}: {msg}", finding_for("code", kind, label))
            # target and options (compiled program)
            EVAL[0] += 1
            msg, kind, _ = roundtrip("compiled-for-fock", 2, lambda q, prog: (ops.Sgate(0.3) | q[0], ops.BSgate(0.1, 0.2) | (q[0], q[1]), ops.MeasureFock() | q[0]), ir, compile_to="fock")
            if msg:
                bad(f"{ir} compiled program: {msg}")
            for label, mk in tdm_programs():
                EVAL[0] += 1
                msg, kind = tdm_roundtrip(label, mk, ir)
                if msg:
                    bad(f"{ir} {label}: {msg}", finding_for(ir, kind, label))
    except Exception:
        import traceback
        traceback.print_exc()
        print("bounded stand-in crashed")
        sys.exit(3)
    emit_bounded("c14_io", EVAL[0], EVAL[0], [{"classes": "every class of ops.__all__", "irs": ["blackbird", "xir"]}], len(V))
    sys.exit(1 if V else 0)
