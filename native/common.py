"""helpers for native (real /venv interpreter, real package) replays and bounded stand-ins"""
import itertools, json, os, sys, random


def run_replay(obligation, model_input, check, battery=()):
    """check(inp) -> None | str (violation text).  Try the verifier's counter-model first, then
    the battery (small seeded enumeration).  Prints REPLAY-VIOLATION + exits 1 on a failing input."""
    tried = 0
    for src, inp in itertools.chain([("counter-model", model_input)] if model_input is not None else [],
                                    (("battery", b) for b in battery)):
        tried += 1
        try:
            msg = check(inp)
        except Exception as e:  # an unexpected exception type is itself reported by check(); this is a harness error
            msg = None
            if src == "counter-model":
                print("note: counter-model input not executable natively:", repr(e)[:200])
            else:
                errors = locals().get("errors", 0) + 1
                if errors <= 2:
                    print("note: battery input raised in the replay harness:", repr(e)[:200])
        if msg:
            print(f"input ({src}): {inp!r}")
            print("REPLAY-VIOLATION", obligation, "-", msg)
            sys.exit(1)
    print(f"no failing input among {tried} tried")
    sys.exit(0)


def emit_bounded(name, evaluations, distinct, samples, violations):
    print("BOUNDED-RESULT " + json.dumps({"evaluations": evaluations, "distinct_nontrivial": distinct,
                                           "samples": samples[:3], "native_violations": violations}))
