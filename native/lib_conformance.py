"""conformance of the engine's library models (pyvc/libmodels.py) with the real libraries (bounded,
numeric): thewalrus.symplectic helpers on random arguments.  usage: lib_conformance.py <tier> <seed>"""
import os, sys, warnings
warnings.filterwarnings("ignore")
sys.path.insert(0, os.path.dirname(os.path.dirname(os.path.abspath(__file__))))
import numpy as np
import thewalrus.symplectic as tw
import importlib.util
# load libmodels without importing z3-dependent parts: it only needs numpy when no engine is active
import types
st = types.ModuleType("pyvc.state"); st.ENGINE = None
pk = types.ModuleType("pyvc"); pk.__path__ = []
sym = types.ModuleType("pyvc.sym")
for n in ("SV", "SC", "SOpt"):
    setattr(sym, n, type(n, (), {}))
sym.Undecided = type("Undecided", (BaseException,), {}); sym.ite = None; sym.z3real = None; sym._numkind = None
z3 = types.ModuleType("z3")
sys.modules.update({"pyvc": pk, "pyvc.state": st, "pyvc.sym": sym, "z3": z3})
pk.state = st
spec = importlib.util.spec_from_file_location("pyvc.libmodels", os.path.join(os.path.dirname(os.path.dirname(os.path.abspath(__file__))), "pyvc", "libmodels.py"))
lm = importlib.util.module_from_spec(spec); spec.loader.exec_module(lm)
from native.common import emit_bounded

tier = sys.argv[1] if len(sys.argv) > 1 else "quick"
seed = int(sys.argv[2]) if len(sys.argv) > 2 else 0
rng = np.random.RandomState(seed)
n = 0
bad = []
def close(a, b):
    return np.allclose(np.array(a, dtype=complex), np.array(b, dtype=complex), atol=1e-12)
for _ in range(50 if tier == "quick" else 500):
    th, ph, r = rng.uniform(-4, 4, 3)
    checks = [("rotation", lm.tw_rotation(th), tw.rotation(th)),
              ("squeezing", lm.tw_squeezing(r, ph), tw.squeezing(r, ph)),
              ("two_mode_squeezing", lm.tw_two_mode_squeezing(r, ph), tw.two_mode_squeezing(r, ph)),
              ("beam_splitter", lm.tw_beam_splitter(th, ph), tw.beam_splitter(th, ph))]
    k = rng.randint(1, 4)
    U = rng.randn(k, k) + 1j * rng.randn(k, k)
    checks.append(("interferometer", lm.tw_interferometer(U), tw.interferometer(U)))
    N = k + rng.randint(0, 3)
    modes = list(rng.permutation(N)[:k])
    S = rng.randn(2 * k, 2 * k)
    checks.append(("expand", lm.tw_expand(S, modes, N), tw.expand(S, modes, N)))
    A = rng.randn(2 * N, 2 * N)
    checks.append(("xxpp_to_xpxp", lm.tw_xxpp_to_xpxp(A), tw.xxpp_to_xpxp(A)))
    checks.append(("xpxp_to_xxpp", lm.tw_xpxp_to_xxpp(A), tw.xpxp_to_xxpp(A)))
    checks.append(("sympmat", lm.tw_sympmat(N), tw.sympmat(N)))
    for nm, a, b in checks:
        n += 1
        if not close(a, b):
            bad.append(nm)
if bad:
    print("NATIVE-VIOLATION finding=- replay=- library model disagrees with thewalrus for", sorted(set(bad)))
emit_bounded("lib_conformance", n, n, [{"functions": sorted(lm.TW_SYMPLECTIC)}], len(bad))
sys.exit(1 if bad else 0)
