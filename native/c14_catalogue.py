"""operation catalogue shared by the C14 contracts (symbolic values through the harness h) and their native replay
(concrete values from the verifier's counter-model).  No third-party imports."""


def catalogue(h, ops):
    """(label, number of modes, builder(q) -> None) with symbolic numeric parameters"""
    R = lambda nm: h.real(nm)
    C = [
        ("Xgate", 1, lambda q: ops.Xgate(R("x")) | q[0]),
        ("Zgate", 1, lambda q: ops.Zgate(R("x")) | q[0]),
        ("Rgate", 2, lambda q: ops.Rgate(R("x")) | q[1]),
        ("Pgate", 1, lambda q: ops.Pgate(R("x")) | q[0]),
        ("Vgate", 1, lambda q: ops.Vgate(R("x")) | q[0]),
        ("Kgate", 1, lambda q: ops.Kgate(R("x")) | q[0]),
        ("Dgate", 1, lambda q: ops.Dgate(R("r"), R("phi")) | q[0]),
        ("Sgate", 1, lambda q: ops.Sgate(R("r"), R("phi")) | q[0]),
        ("CXgate", 3, lambda q: ops.CXgate(R("x")) | (q[2], q[0])),
        ("CZgate", 3, lambda q: ops.CZgate(R("x")) | (q[1], q[0])),
        ("CKgate", 2, lambda q: ops.CKgate(R("x")) | (q[0], q[1])),
        ("BSgate", 3, lambda q: ops.BSgate(R("t"), R("phi")) | (q[2], q[1])),
        ("MZgate", 2, lambda q: ops.MZgate(R("a"), R("b")) | (q[1], q[0])),
        ("S2gate", 2, lambda q: ops.S2gate(R("r"), R("phi")) | (q[0], q[1])),
        ("LossChannel", 1, lambda q: ops.LossChannel(R("T")) | q[0]),
        ("ThermalLossChannel", 1, lambda q: ops.ThermalLossChannel(R("T"), R("nb")) | q[0]),
        ("Coherent", 1, lambda q: ops.Coherent(R("r"), R("phi")) | q[0]),
        ("Squeezed", 1, lambda q: ops.Squeezed(R("r"), R("phi")) | q[0]),
        ("DisplacedSqueezed", 1, lambda q: ops.DisplacedSqueezed(R("a"), R("b"), R("c"), R("d")) | q[0]),
        ("Thermal", 1, lambda q: ops.Thermal(R("n")) | q[0]),
        ("Catstate", 1, lambda q: ops.Catstate(R("a"), R("phi"), 1) | q[0]),
        ("Fock", 1, lambda q: ops.Fock(h.int("n", lo=0)) | q[0]),
        ("Vacuum", 2, lambda q: ops.Vacuum() | q[1]),
        ("MeasureFock", 2, lambda q: ops.MeasureFock() | (q[1], q[0])),
        ("MeasureFock(select)", 2, lambda q: ops.MeasureFock(select=[h.int("s0", lo=0), h.int("s1", lo=0)]) | (q[0], q[1])),
        ("MeasureFock(dark_counts)", 2, lambda q: ops.MeasureFock(dark_counts=[R("d0"), R("d1")]) | (q[0], q[1])),
        ("MeasureThreshold(select)", 1, lambda q: ops.MeasureThreshold(select=[h.int("s0", lo=0, hi=1)]) | q[0]),
        ("MeasureHomodyne", 1, lambda q: ops.MeasureHomodyne(R("phi")) | q[0]),
        ("MeasureHomodyne(select)", 2, lambda q: ops.MeasureHomodyne(R("phi"), select=R("s")) | q[1]),
        ("MeasureHeterodyne(select)", 1, lambda q: ops.MeasureHeterodyne(select=h.complex("s")) | q[0]),
        ("mixed-circuit", 4, lambda q: (ops.Squeezed(R("r0")) | q[2], ops.S2gate(R("r1"), R("p1")) | (q[3], q[1]),
                                        ops.BSgate(R("t"), R("p2")) | (q[1], q[0]), ops.MeasureHomodyne(R("phi"), select=R("s")) | q[2])),
    ]
    return C


class ConcreteH:
    """stands in for the proof harness: the named inputs are read from a counter-model"""
    def __init__(self, I):
        self.I = I or {}
    def real(self, name):
        return float(self.I.get(name, 0.3))
    def int(self, name, lo=None, hi=None):
        return int(self.I.get(name, lo if lo is not None else 0))
    def complex(self, name):
        return complex(self.I.get(name, 0.1 + 0.2j))
