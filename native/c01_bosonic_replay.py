"""native replay of contracts/c01_bosonic.py: the real BosonicModes method on a random weighted sum of Gaussians (complex
means and weights) against the documented affine phase-space map, entry by entry (same clauses as the contract)."""
import warnings
warnings.filterwarnings("ignore")
import numpy as np

SHAPES = [(2, 2), (3, 1)]


def embed(n, pos, E2):
    E = np.eye(2 * n)
    for i, a in enumerate(pos):
        for j, b in enumerate(pos):
            E[a, b] = E2[i][j]
    return E


def spec(op, n, k, l, p):
    d = np.zeros(2 * n); Y = np.zeros((2 * n, 2 * n)); E = np.eye(2 * n)
    if op == "displace":
        d[2 * k], d[2 * k + 1] = 2 * p["r"] * np.cos(p["phi"]), 2 * p["r"] * np.sin(p["phi"])
    elif op == "squeeze":
        ch, sh, cp, sp = np.cosh(p["r"]), np.sinh(p["r"]), np.cos(p["phi"]), np.sin(p["phi"])
        E = embed(n, [2 * k, 2 * k + 1], [[ch - cp * sh, -sp * sh], [-sp * sh, ch + cp * sh]])
    elif op == "phase_shift":
        c_, s_ = np.cos(p["phi"]), np.sin(p["phi"])
        E = embed(n, [2 * k, 2 * k + 1], [[c_, -s_], [s_, c_]])
    elif op == "beamsplitter":
        ct, st, cp, sp = np.cos(p["theta"]), np.sin(p["theta"]), np.cos(p["phi"]), np.sin(p["phi"])
        E = embed(n, [2 * k, 2 * k + 1, 2 * l, 2 * l + 1], [[ct, 0, -st * cp, -st * sp], [0, ct, st * sp, -st * cp], [st * cp, -st * sp, ct, 0], [st * sp, st * cp, 0, ct]])
    elif op in ("loss", "thermal_loss", "init_thermal", "del_mode"):
        T = 0.0 if op in ("init_thermal", "del_mode") else p["T"]
        nbar = p.get("nbar", 0.0) if op in ("thermal_loss", "init_thermal") else 0.0
        E = embed(n, [2 * k, 2 * k + 1], [[np.sqrt(T), 0], [0, np.sqrt(T)]])
        Y[2 * k, 2 * k] = Y[2 * k + 1, 2 * k + 1] = (1 - T) * (2 * nbar + 1)
    return E, d, Y


def check(op):
    def run(I):
        from strawberryfields.backends.bosonicbackend.bosoniccircuit import BosonicModes
        n, K = SHAPES[int(I.get("shape", 0))]
        k = int(I.get("mode", 0)); l = None
        if op == "beamsplitter":
            pairs = [(a, b) for a in range(n) for b in range(n) if a != b]
            k, l = pairs[int(I.get("pair", 0))]
        rng = np.random.RandomState(int(I.get("seed", 0)))
        p = {"r": float(I.get("r", 0.4)), "phi": float(I.get("phi", 0.7)), "theta": float(I.get("theta", 0.5)), "T": min(max(float(I.get("T", 0.6)), 0.0), 1.0),
             "nbar": abs(float(I.get("nbar", 0.3)))}
        bm = BosonicModes(n, 1)
        bm.weights = rng.randn(K) + 1j * rng.randn(K)
        bm.means = rng.randn(K, 2 * n) + 1j * rng.randn(K, 2 * n)
        A = rng.randn(K, 2 * n, 2 * n)
        bm.covs = A @ A.transpose(0, 2, 1) + np.eye(2 * n)
        w0, m0, c0 = bm.weights.copy(), bm.means.copy(), bm.covs.copy()
        args = {"displace": (p["r"], p["phi"], k), "squeeze": (p["r"], p["phi"], k), "phase_shift": (p["phi"], k), "beamsplitter": (p["theta"], p["phi"], k, l),
                "loss": (p["T"], k), "thermal_loss": (p["T"], p["nbar"], k), "init_thermal": (p["nbar"], k), "del_mode": (k,), "add_mode": ()}[op]
        getattr(bm, op)(*args)
        what = f"BosonicModes.{op}{args} on {n} modes, {K} component(s)"
        if op == "add_mode":
            m1 = np.concatenate([m0, np.zeros((K, 2))], axis=1)
            c1 = np.zeros((K, 2 * n + 2, 2 * n + 2), dtype=c0.dtype); c1[:, :2 * n, :2 * n] = c0; c1[:, 2 * n, 2 * n] = c1[:, 2 * n + 1, 2 * n + 1] = 1
            if bm.nlen != n + 1 or list(bm.active) != list(range(n + 1)):
                return f"{what}: register {bm.nlen} / {bm.active}"
        else:
            E, d, Y = spec(op, n, k, l, p)
            m1 = m0 @ E.T + d
            c1 = E @ c0 @ E.T + Y
        if np.shape(bm.means) != m1.shape or not np.allclose(bm.means, m1, atol=1e-9):
            return f"{what}: means differ from the documented action (max {abs(np.array(bm.means) - m1).max() if np.shape(bm.means) == m1.shape else 'shape'})"
        if np.shape(bm.covs) != c1.shape or not np.allclose(bm.covs, c1, atol=1e-9):
            return f"{what}: covariances differ from the documented action (max {abs(np.array(bm.covs) - c1).max() if np.shape(bm.covs) == c1.shape else 'shape'})"
        if not np.allclose(bm.weights, w0):
            return f"{what}: weights changed"
        return None
    return run


def replay(op, obligation, I):
    from native.common import run_replay
    bat = [dict(shape=s, mode=m, pair=pr, seed=sd) for s in range(2) for m in range(2) for pr in range(2) for sd in range(2)]
    run_replay(obligation, I, check(op), bat)
