"""native replay of contracts/c01_bosonic.py: the real BosonicModes method on a random weighted sum of Gaussians (complex
means and weights) against the documented affine phase-space map, entry by entry (same clauses as the contract)."""
import warnings
warnings.filterwarnings("ignore")
import numpy as np

SHAPES = [(2, 2), (3, 1)]


def embed(n, pos, E2):
    E = np.eye(2 * n)
    for i, a in enumerate(pos):
        for j, b in enumerate(pos):
            E[a, b] = E2[i][j]
    return E


def spec(op, n, k, l, p):
    d = np.zeros(2 * n); Y = np.zeros((2 * n, 2 * n)); E = np.eye(2 * n)
    if op == "displace":
        d[2 * k], d[2 * k + 1] = 2 * p["r"] * np.cos(p["phi"]), 2 * p["r"] * np.sin(p["phi"])
    elif op == "squeeze":
        ch, sh, cp, sp = np.cosh(p["r"]), np.sinh(p["r"]), np.cos(p["phi"]), np.sin(p["phi"])
        E = embed(n, [2 * k, 2 * k + 1], [[ch - cp * sh, -sp * sh], [-sp * sh, ch + cp * sh]])
    elif op == "phase_shift":
        c_, s_ = np.cos(p["phi"]), np.sin(p["phi"])
        E = embed(n, [2 * k, 2 * k + 1], [[c_, -s_], [s_, c_]])
    elif op == "beamsplitter":
        ct, st, cp, sp = np.cos(p["theta"]), np.sin(p["theta"]), np.cos(p["phi"]), np.sin(p["phi"])
        E = embed(n, [2 * k, 2 * k + 1, 2 * l, 2 * l + 1], [[ct, 0, -st * cp, -st * sp], [0, ct, st * sp, -st * cp], [st * cp, -st * sp, ct, 0], [st * sp, st * cp, 0, ct]])
    elif op in ("loss", "thermal_loss", "init_thermal", "del_mode"):
        T = 0.0 if op in ("init_thermal", "del_mode") else p["T"]
        nbar = p.get("nbar", 0.0) if op in ("thermal_loss", "init_thermal") else 0.0
        E = embed(n, [2 * k, 2 * k + 1], [[np.sqrt(T), 0], [0, np.sqrt(T)]])
        Y[2 * k, 2 * k] = Y[2 * k + 1, 2 * k + 1] = (1 - T) * (2 * nbar + 1)
    return E, d, Y


def check(op):
    def run(I):
        from strawberryfields.backends.bosonicbackend.bosoniccircuit import BosonicModes
        n, K = SHAPES[int(I.get("shape", 0))]
        k = int(I.get("mode", 0)); l = None
        if op == "beamsplitter":
            pairs = [(a, b) for a in range(n) for b in range(n) if a != b]
            k, l = pairs[int(I.get("pair", 0))]
        rng = np.random.RandomState(int(I.get("seed", 0)))
        p = {"r": float(I.get("r", 0.4)), "phi": float(I.get("phi", 0.7)), "theta": float(I.get("theta", 0.5)), "T": min(max(float(I.get("T", 0.6)), 0.0), 1.0),
             "nbar": abs(float(I.get("nbar", 0.3)))}
        bm = BosonicModes(n, 1)
        bm.weights = rng.randn(K) + 1j * rng.randn(K)
        bm.means = rng.randn(K, 2 * n) + 1j * rng.randn(K, 2 * n)
        A = rng.randn(K, 2 * n, 2 * n)
        bm.covs = A @ A.transpose(0, 2, 1) + np.eye(2 * n)
        w0, m0, c0 = bm.weights.copy(), bm.means.copy(), bm.covs.copy()
        args = {"displace": (p["r"], p["phi"], k), "squeeze": (p["r"], p["phi"], k), "phase_shift": (p["phi"], k), "beamsplitter": (p["theta"], p["phi"], k, l),
                "loss": (p["T"], k), "thermal_loss": (p["T"], p["nbar"], k), "init_thermal": (p["nbar"], k), "del_mode": (k,), "add_mode": ()}[op]
        getattr(bm, op)(*args)
        what = f"BosonicModes.{op}{args} on {n} modes, {K} component(s)"
        if op == "add_mode":
            m1 = np.concatenate([m0, np.zeros((K, 2))], axis=1)
            c1 = np.zeros((K, 2 * n + 2, 2 * n + 2), dtype=c0.dtype); c1[:, :2 * n, :2 * n] = c0; c1[:, 2 * n, 2 * n] = c1[:, 2 * n + 1, 2 * n + 1] = 1
            if bm.nlen != n + 1 or list(bm.active) != list(range(n + 1)):
                return f"{what}: register {bm.nlen} / {bm.active}"
        else:
            E, d, Y = spec(op, n, k, l, p)
            m1 = m0 @ E.T + d
            c1 = E @ c0 @ E.T + Y
        if np.shape(bm.means) != m1.shape or not np.allclose(bm.means, m1, atol=1e-9):
            return f"{what}: means differ from the documented action (max {abs(np.array(bm.means) - m1).max() if np.shape(bm.means) == m1.shape else 'shape'})"
        if np.shape(bm.covs) != c1.shape or not np.allclose(bm.covs, c1, atol=1e-9):
            return f"{what}: covariances differ from the documented action (max {abs(np.array(bm.covs) - c1).max() if np.shape(bm.covs) == c1.shape else 'shape'})"
        if not np.allclose(bm.weights, w0):
            return f"{what}: weights changed"
        return None
    return run


def replay(op, obligation, I):
    from native.common import run_replay
    bat = [dict(shape=s, mode=m, pair=pr, seed=sd) for s in range(2) for m in range(2) for pr in range(2) for sd in range(2)]
    run_replay(obligation, I, check(op), bat)


def check_mbsq(I):
    """BosonicModes.mb_squeeze_avg on a squeezed single-mode input: the result must be a physical state (uncertainty
    relation, hbar = 2: V + i Omega >= 0) and equal R(phi/2) [X R(-phi/2) V R(-phi/2)^T X^T + Y] R(phi/2)^T with the documented X, Y"""
    from strawberryfields.backends.bosonicbackend.bosoniccircuit import BosonicModes
    r, phi, r_anc = float(I.get("r", 0.6)), float(I.get("phi", 0.0)), float(I.get("r_anc", 1.2))
    eta = min(max(float(I.get("eta_anc", 0.6)), 1e-3), 1.0)
    if abs(r) > 3 or abs(r_anc) > 3:
        r, r_anc = float(np.clip(r, -3, 3)), float(np.clip(r_anc, -3, 3))
    bm = BosonicModes(1, 1)
    bm.squeeze(0.3, 0.4, 0)
    V0 = np.array(bm.covs[0]).real
    bm.mb_squeeze_avg(0, r, phi, r_anc, eta)
    V = np.array(bm.covs[0]).real
    ph = phi + (np.pi if r < 0 else 0.0)
    ra = abs(r)
    R = lambda a: np.array([[np.cos(a), -np.sin(a)], [np.sin(a), np.cos(a)]])
    X = np.diag([np.exp(-ra), np.exp(ra)])
    Y = np.diag([(1 - np.exp(-2 * ra)) * np.exp(-2 * r_anc), (np.exp(2 * ra) - 1) * (1 - eta) / eta])
    W = R(ph / 2) @ (X @ R(-ph / 2) @ V0 @ R(-ph / 2).T @ X.T + Y) @ R(ph / 2).T
    what = f"BosonicModes.mb_squeeze_avg(0, r={r:.3g}, phi={phi:.3g}, r_anc={r_anc:.3g}, eta_anc={eta:.3g}) on a squeezed state"
    Om = np.array([[0, 1], [-1, 0]])
    if np.linalg.eigvalsh(V + 1j * Om).min() < -1e-9:
        return f"{what}: the result violates the uncertainty relation (min eigenvalue of V + i Omega = {np.linalg.eigvalsh(V + 1j * Om).min():.4f}, det V = {np.linalg.det(V):.4f})"
    if not np.allclose(V, W, atol=1e-8):
        return f"{what}: covariance {np.round(V, 4).tolist()} differs from the documented average map {np.round(W, 4).tolist()}"
    return None


def replay_mbsq(obligation, I):
    from native.common import run_replay
    bat = [dict(r=r, phi=p, r_anc=ra, eta_anc=e) for r in (0.6, -0.4, 0.0) for p in (0.0, 0.7) for ra in (1.2, 0.2) for e in (1.0, 0.6, 0.3)]
    run_replay(obligation, I, check_mbsq, bat)


def check_dyne(I):
    """BosonicModes.post_select_generaldyne on a random 2-mode, 2-component state with COMPLEX means against the component-wise
    Gaussian conditioning with the bilinear quadratic form (same clauses as the contract)"""
    from strawberryfields.backends.bosonicbackend.bosoniccircuit import BosonicModes
    meas = int(I.get("measured", 0))
    rng = np.random.RandomState(int(I.get("seed", 0)))
    n, K = 2, 2
    bm = BosonicModes(n, 1)
    bm.weights = rng.randn(K) + 1j * rng.randn(K)
    bm.means = 0.5 * (rng.randn(K, 2 * n) + 1j * rng.randn(K, 2 * n))
    A = rng.randn(K, 2 * n, 2 * n)
    bm.covs = A @ A.transpose(0, 2, 1) + np.eye(2 * n)
    w0, m0, c0 = bm.weights.copy(), bm.means.copy(), bm.covs.copy()
    S = rng.randn(2, 2); sig = S @ S.T + 0.5 * np.eye(2)
    v = rng.randn(2)
    bm.post_select_generaldyne(sig, [meas], v)
    mq, rq = [2 * meas, 2 * meas + 1], [2 * (1 - meas), 2 * (1 - meas) + 1]
    t = []
    for c in range(K):
        Ci = np.linalg.inv(c0[c][np.ix_(mq, mq)] + sig)
        dv = v - m0[c][mq]
        Bc = c0[c][np.ix_(rq, mq)]
        t.append(w0[c] * np.exp(-0.5 * dv @ Ci @ dv) / np.sqrt(np.linalg.det(2 * np.pi * (c0[c][np.ix_(mq, mq)] + sig))))
        if not np.allclose(bm.means[c][rq], m0[c][rq] + Bc @ Ci @ dv, atol=1e-9) or not np.allclose(bm.covs[c][np.ix_(rq, rq)], c0[c][np.ix_(rq, rq)] - Bc @ Ci @ Bc.T, atol=1e-9):
            return f"post_select_generaldyne(mode {meas}): conditional mean / covariance of component {c} differ from the Schur-complement update"
    t = np.array(t) / sum(t)
    if not np.allclose(bm.weights, t, atol=1e-9):
        return (f"post_select_generaldyne(mode {meas}) on components with complex means: new weights {np.round(bm.weights, 4).tolist()} differ from "
                f"w exp(-1/2 (v-m)^T (C+sigma)^-1 (v-m)) / sqrt(det 2 pi (C+sigma)), normalised: {np.round(t, 4).tolist()}")
    return None


def replay_dyne(obligation, I):
    from native.common import run_replay
    run_replay(obligation, I, check_dyne, [dict(measured=m, seed=sd) for m in (0, 1) for sd in range(4)])


def check_prepare(I):
    """Gaussian(V, r, decomp=False) on an ordered list of modes of a 4-mode register: bosonic simulator against the Gaussian one"""
    import itertools
    import strawberryfields as sf
    from strawberryfields import ops
    lists = [list(c) for k in (1, 2, 3) for c in itertools.permutations(range(4), k)]
    modes = lists[int(I.get("modes", 0)) % len(lists)]
    N = len(modes)
    rng = np.random.RandomState(5)
    A = rng.randn(2 * N, 2 * N)
    from thewalrus.random import random_symplectic
    S = random_symplectic(N)
    V = S @ np.diag(np.tile(1.0 + 0.3 * np.arange(N), 2)) @ S.T
    r = 0.3 * np.arange(1, 2 * N + 1) * (-1) ** np.arange(2 * N)
    res = {}
    for backend in ("gaussian", "bosonic"):
        prog = sf.Program(4)
        with prog.context as q:
            for k in range(4):
                ops.Sgate(0.1 * (k + 1)) | q[k]
            ops.Gaussian(V, r=r, decomp=False) | tuple(q[m] for m in modes)
        st = sf.Engine(backend).run(prog).state
        res[backend] = (np.array([st.quad_expectation(m, ph)[0] for m in range(4) for ph in (0, np.pi / 2)]),
                        np.array([st.quad_expectation(m, ph)[1] for m in range(4) for ph in (0, 0.7, np.pi / 2)]))
    want = np.zeros(8)
    for i, m in enumerate(modes):
        want[2 * m], want[2 * m + 1] = r[i], r[i + N]
    if not np.allclose(res["bosonic"][0], want, atol=1e-8):
        return f"bosonic Gaussian(V, r, decomp=False) | modes {modes}: (x, p) means by mode {np.round(res['bosonic'][0], 3).tolist()}; subsystem i belongs in the i-th listed mode: {np.round(want, 3).tolist()}"
    if not np.allclose(res["bosonic"][1], res["gaussian"][1], atol=1e-8):
        return f"bosonic Gaussian(V, r, decomp=False) | modes {modes}: quadrature variances differ from the Gaussian simulator"
    return None


def replay_prepare(obligation, I):
    from native.common import run_replay
    run_replay(obligation, I, check_prepare, [dict(modes=k) for k in range(0, 40, 3)])
