"""native replay of the TDMProgram typestate contracts (contracts/c13_tdm.py): a real program is brought into the form of
the counter-model by real calls, the operation is called, and the result is compared with a fresh program on which
the same form was requested directly (same clauses: circuit restored / circuit for the requested shots / refusal
leaves the program as it was / locked preserved).  No simulation: circuits are compared command by command."""
import itertools, warnings
warnings.filterwarnings("ignore")


def build(R0, timebins):
    import strawberryfields as sf
    from strawberryfields import ops
    prog = sf.TDMProgram(N=R0)
    with prog.context(list(range(1, timebins + 1)), [0.1 * k for k in range(timebins)]) as (p, q):
        ops.Sgate(0.7, 0) | q[R0 - 1]
        if R0 > 1:
            ops.BSgate(p[0]) | (q[0], q[R0 - 1])
        ops.Rgate(p[1]) | q[0]
    return prog


def show(prog):
    return [f"{type(c.op).__name__}{tuple(str(x) for x in c.op.p)}|{tuple(r.ind for r in c.reg)}" for c in prog.circuit]


def check(kind):
    def run(I):
        R0, tb = min(int(I.get("R0", 2)), 6), min(int(I.get("timebins", 3)), 8)
        form = ("rolled", "unrolled", "space")[int(I.get("form", 0))]
        k0, shots = min(int(I.get("cached_shots", 1)), 3), min(int(I.get("shots", 1)), 3)
        locked = bool(I.get("locked", 0))
        prog = build(R0, tb)
        orig, reg0 = show(prog), [r.ind for r in prog.register]
        if form == "unrolled":
            prog.unroll(shots=k0)
        if form == "space":
            prog.space_unroll(shots=k0)
        prog.locked = locked
        before = show(prog)
        what = f"N={R0}, {tb} time bins, program {form}" + (f"({k0} shots)" if form != "rolled" else "")
        if kind == "roll":
            prog.roll()
            if show(prog) != orig:
                return f"{what}: roll() does not restore the circuit"
            if [r.ind for r in prog.register] != reg0:
                return f"{what}: roll() leaves the register {[r.ind for r in prog.register]} instead of {reg0}"
        else:
            fresh = build(R0, tb)
            try:
                getattr(prog, kind)(shots=shots)
            except ValueError:
                if not (kind == "unroll" and form == "space"):
                    return f"{what}: {kind}({shots}) refused"
                if show(prog) != before:
                    return f"{what}: refused {kind}({shots}) changed the circuit"
                if prog.locked is not locked:
                    return f"{what}: refused {kind}({shots}) changed the locked flag to {prog.locked}"
                # the refusal must not be observable in what follows
                prog.space_unroll(shots=shots)
                fresh.space_unroll(shots=shots)
                strip = lambda l: [x.rsplit("|", 1)[0] for x in l]     # register indices after a second space-unrolling: open finding F16
                if strip(show(prog)) != strip(show(fresh)):
                    return (f"{what}: after the refused unroll({shots}), space_unroll({shots}) gives {len(prog.circuit)} commands; "
                            f"a fresh program gives {len(fresh.circuit)}")
                return None
            if kind == "unroll" and form == "space":
                return f"{what}: unroll({shots}) was not refused"
            getattr(fresh, kind)(shots=shots)
            if show(prog) != show(fresh):
                return f"{what}: {kind}({shots}) gives a circuit different from the one a fresh program gets ({len(prog.circuit)} vs {len(fresh.circuit)} commands)"
        if prog.locked is not locked:
            return f"{what}: {kind} changed the locked flag"
        return None
    return run


def battery():
    for form, R0, tb, k0, shots, locked in itertools.product(range(3), (1, 2, 3), (1, 2, 4), (1, 2), (1, 2), (0, 1)):
        yield dict(form=form, R0=R0, timebins=tb, cached_shots=k0, shots=shots, locked=locked)


def replay(kind, obligation, I):
    from native.common import run_replay
    run_replay(obligation, I, check(kind), battery())


# ---- replay of TDMProgram._unroll_program/emits-the-explicit-loop on real programs
UNROLL_CASES = [
    ([1], "default", False, (0, (0, 0), 0)), ([2], "default", False, (1, (0, 1), 0)), ([3], "default", False, (2, (1, 2), 0)),
    ([1, 2], "default", False, (2, (1, 2), 0)), ([2, 1, 2], "default", False, (4, (0, 3), 3)), ([3], 1, False, (2, (1, 2), 0)),
    ([3], 2, False, (2, (0, 2), 0)), ([4], -1, False, (3, (1, 2), 0)), ([2], "default", True, (1, (0, 1), 0)), ([3], "default", True, (2, (1, 2), 0)),
]


def _pos(N, shift, space, R, j, g):
    if space:
        return j + g
    if shift == "default":
        start = 0
        for nb in N:
            if start <= j < start + nb:
                return start + (j - start + g) % nb
            start += nb
    return (j + g * shift) % R


def check_unroll(I):
    import strawberryfields as sf
    from strawberryfields import ops
    N, shift, space, (g1, g2, gm) = UNROLL_CASES[int(I.get("case", 0))]
    tb = int(I.get("timebins", 2))
    shots = 1 if space else int(I.get("shots", 1))
    prog = sf.TDMProgram(N=list(N))
    A = [[0.1 * (t + 1) for t in range(tb)], [0.01 * (t + 1) for t in range(tb)]]
    with prog.context(*A, shift=shift) as (p, q):
        ops.Rgate(p[0]) | q[g1]
        if g2[0] != g2[1]:
            ops.BSgate(p[1], 0.5).H | (q[g2[0]], q[g2[1]])
        ops.MeasureHomodyne(p[0], select=0.25) | q[gm]
    rolled = [(type(c.op), getattr(c.op, "dagger", None), getattr(c.op, "select", None), [r.ind for r in c.reg], [str(x) for x in c.op.p]) for c in prog.circuit]
    (prog.space_unroll if space else prog.unroll)(shots=shots)
    R = len(prog.register)
    what = f"TDMProgram(N={N}), {tb} time bins, shift={shift!r}, {'space_unroll' if space else 'unroll'}(shots={shots})"
    if len(prog.circuit) != shots * tb * len(rolled):
        return f"{what}: {len(prog.circuit)} commands instead of {shots * tb * len(rolled)}"
    k = 0
    for s_ in range(shots):
        for t in range(tb):
            for (cls, dg, sel, reg, ps) in rolled:
                c = prog.circuit[k]
                k += 1
                want = [_pos(N, shift, space, R, j, s_ * tb + t) for j in reg]
                vals = [A[int(x.strip("{}")[1:])][t] if x.strip("{}").startswith("p") else float(x) for x in ps]
                got = [float(x) for x in c.op.p]
                if type(c.op) is not cls or getattr(c.op, "dagger", None) != dg or getattr(c.op, "select", None) != sel:
                    return f"{what}: command {k - 1} is {c.op} (inverse flag / post-selection / class differ from the rolled command)"
                if [r.ind for r in c.reg] != want:
                    return f"{what}: shot {s_}, time bin {t}: {cls.__name__} acts on modes {[r.ind for r in c.reg]}, the explicit loop has {want}"
                if any(abs(a - b) > 1e-12 for a, b in zip(got, vals)) or len(got) != len(vals):
                    return f"{what}: shot {s_}, time bin {t}: {cls.__name__} has parameters {got}, the explicit loop has {vals}"
    return None


def replay_unroll(obligation, I):
    from native.common import run_replay
    bat = [dict(case=c, timebins=t, shots=s) for c in range(len(UNROLL_CASES)) for t in (1, 2, 3, 5) for s in (1, 2)]
    run_replay(obligation, I, check_unroll, bat)


# ---- replay of reshape_samples/entry-(shot,band,bin)-is-the-outcome-of-that-pulse
RESHAPE_CASES = [([1], [0]), ([2], [0]), ([3], [0]), ([1, 2], [0, 1]), ([1, 2], [0, 2]), ([2, 1], [0, 2]), ([2, 1, 2], [0, 2, 3]), ([3, 2], [1, 3])]


def check_reshape(I):
    import numpy as np
    from strawberryfields.tdm.program import reshape_samples
    N, modes = RESHAPE_CASES[int(I.get("case", 0))]
    tb = int(I.get("timebins", 2))
    shots = int(I.get("shots", 1))
    R = sum(N)
    raw = {}
    for s in range(shots):
        for t in range(tb):
            for b, m in enumerate(modes):
                raw.setdefault(_pos(N, "default", False, R, m, s * tb + t), []).append(np.array([100 * s + 10 * b + t + 0.5]))
    try:
        res = reshape_samples(raw, list(modes), list(N), tb)
    except Exception as e:
        return f"reshape_samples(N={N}, measured modes {modes}, {tb} time bins, {shots} shots) raised {type(e).__name__}: {e}"
    for b, m in enumerate(modes):
        want = np.array([[100 * s + 10 * b + t + 0.5 for t in range(tb)] for s in range(shots)])
        if m not in res or np.shape(res[m]) != want.shape or not np.array_equal(np.array(res[m], dtype=float), want):
            return (f"reshape_samples(N={N}, measured modes {modes}, {tb} time bins, {shots} shots): entry of mode {m} is "
                    f"{np.array(res.get(m)).tolist()}; pulse (shot s, band {b}, bin t) was given the outcome 100 s + {10 * b} + t + 0.5")
    return None


def replay_reshape(obligation, I):
    from native.common import run_replay
    bat = [dict(case=c, timebins=t, shots=s) for c in range(len(RESHAPE_CASES)) for t in (1, 2, 3, 4, 6) for s in (1, 2, 3)]
    run_replay(obligation, I, check_reshape, bat)
