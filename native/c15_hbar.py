"""C15 bounded stand-in (labelled bounded): the same circuits at several hbar values, dimensionful parameters
rescaled by their documented units; dimensionless results must coincide, quadrature means scale with sqrt(hbar),
covariances with hbar, on every backend.  usage: c15_hbar.py <tier> <seed>"""
import os, sys, warnings
warnings.filterwarnings("ignore")
sys.path.insert(0, os.path.dirname(os.path.dirname(os.path.abspath(__file__))))
import numpy as np
import strawberryfields as sf
from strawberryfields import ops
from native.common import emit_bounded

tier = sys.argv[1] if len(sys.argv) > 1 else "quick"
seed = int(sys.argv[2]) if len(sys.argv) > 2 else 0
V, EVAL = [], [0]


def bad(msg):
    V.append(msg)
    d = os.path.join(os.path.dirname(os.path.dirname(os.path.abspath(__file__))), "replays", "C15")
    os.makedirs(d, exist_ok=True)
    p = os.path.join(d, f"bounded_{len(V)}.py")
    open(p, "w").write("# replay of a bounded stand-in violation (C15): re-run native/c15_hbar.py\nimport sys\nprint(%r)\nprint('REPLAY-VIOLATION')\nsys.exit(1)\n" % msg)
    print(f"NATIVE-VIOLATION finding=- replay={p} {msg}")


def circuits(hb):
    rt = np.sqrt(hb)
    Vt = np.array([[1.3, 0.2], [0.2, 0.9]])
    yield "X-Z-P", 1, lambda q: (ops.Sgate(0.3, 0.4) | q[0], ops.Xgate(0.5 * rt) | q[0], ops.Zgate(-0.3 * rt) | q[0], ops.Pgate(0.4) | q[0])
    yield "CX-CZ", 2, lambda q: (ops.Sgate(0.3) | q[0], ops.Dgate(0.3, 0.5) | q[1], ops.CXgate(0.4) | (q[0], q[1]), ops.CZgate(-0.3) | (q[0], q[1]))
    yield "Gaussian-prep", 1, lambda q: (ops.Gaussian(Vt * hb / 2, r=np.array([0.4, -0.2]) * np.sqrt(hb / 2)) | q[0],)
    yield "homodyne-select", 2, lambda q: (ops.S2gate(0.5) | (q[0], q[1]), ops.MeasureHomodyne(0.3, select=0.4 * rt) | q[0])
    yield "Vgate", 1, lambda q: (ops.Dgate(0.3) | q[0], ops.Vgate(0.1 / rt) | q[0])


def observe(state, n, hb, backend):
    out = {}
    out["mean_photon"] = [state.mean_photon(k)[0] for k in range(n)]
    out["quad/sqrt(hbar)"] = [state.quad_expectation(k, ph)[0] / np.sqrt(hb) for k in range(n) for ph in (0, np.pi / 2)]
    out["var/hbar"] = [state.quad_expectation(k, ph)[1] / hb for k in range(n) for ph in (0, np.pi / 2)]
    if backend != "bosonic":
        out["fock_prob"] = [state.fock_prob([1] * n), state.fock_prob([0] * n)]
    # dimensionless: photon-number parity of every mode subset
    import itertools
    out["parity"] = [float(np.real(state.parity_expectation(list(c)))) for r in range(1, n + 1) for c in itertools.combinations(range(n), r)]
    # every other dimensionless scalar the state object offers (whole register: multi-mode normalisations)
    for meth, args in (("purity", ()), ("fidelity_vacuum", ()), ("fidelity_coherent", ([0.1 + 0.2j] * n,)), ("trace", ())):
        f = getattr(state, meth, None)
        if callable(f):
            try:
                out[meth] = [complex(f(*args))]
            except (NotImplementedError, TypeError):
                pass
    return out


if __name__ == "__main__":
    hbars = (0.5, 2.0, 3.1) if tier == "quick" else (0.3, 0.5, 1.0, 1.7, 2.0, 3.1)
    old = sf.hbar
    try:
        for backend in ("gaussian", "bosonic", "fock"):
            ref = {}
            for hb in hbars:
                sf.hbar = hb
                for name, n, build in circuits(hb):
                    if name == "Vgate" and backend != "fock":
                        continue
                    if name == "Gaussian-prep" and backend == "bosonic":
                        continue
                    EVAL[0] += 1
                    prog = sf.Program(n)
                    with prog.context as q:
                        build(q)
                    kw = {"cutoff_dim": 14} if backend == "fock" else {}
                    try:
                        st = sf.Engine(backend, backend_options=kw).run(prog).state
                        obs = observe(st, n, hb, backend)
                    except Exception as e:
                        bad(f"{backend} {name} hbar={hb}: raised {type(e).__name__}: {e}")
                        continue
                    # the operation objects are shared by every run of the program: a second run (fresh engine) must see the
                    # same operations, whatever the hbar convention
                    try:
                        res2 = sf.Engine(backend, backend_options=kw).run(prog)
                        obs2 = observe(res2.state, n, hb, backend)
                        for k in obs:
                            if not np.allclose(obs[k], obs2[k], atol=1e-8):
                                bad(f"{backend} {name} hbar={hb}: running the same program a second time gives {k} = {np.round(obs2[k], 5).tolist()}, the first run gave {np.round(obs[k], 5).tolist()}")
                                break
                        if name == "homodyne-select" and abs(res2.samples[0, 0] - 0.4 * np.sqrt(hb)) > 1e-9:
                            bad(f"{backend} {name} hbar={hb}: second run reports the outcome {res2.samples[0, 0]:.6f}, selected {0.4 * np.sqrt(hb):.6f}")
                    except Exception as e:
                        bad(f"{backend} {name} hbar={hb}: second run raised {type(e).__name__}: {e}")
                    if name not in ref:
                        ref[name] = (hb, obs)
                        continue
                    hb0, o0 = ref[name]
                    for k in obs:
                        if not np.allclose(obs[k], o0[k], atol=(2e-3 if backend == "fock" else 1e-8)):
                            bad(f"{backend} {name}: {k} at hbar={hb} is {np.round(obs[k], 5).tolist()}, at hbar={hb0} it is {np.round(o0[k], 5).tolist()}")
    except Exception:
        import traceback
        traceback.print_exc()
        print("bounded stand-in crashed")
        sys.exit(3)
    finally:
        sf.hbar = old
    # a query must not rescale the state it is asked about (hbar = 2 hides such slips: the factor is 1)
    try:
        import native.c16_states as m16
        m16.bad = lambda msg, fid="-": bad(msg)
        m16.EVAL = EVAL
        m16.check_queries_are_pure(12)
    except Exception:
        import traceback
        traceback.print_exc()
        print("bounded stand-in crashed")
        sys.exit(3)
    emit_bounded("c15_hbar", EVAL[0], EVAL[0], [{"hbars": list(hbars), "circuits": ["X-Z-P", "CX-CZ", "Gaussian-prep", "homodyne-select", "Vgate"]}], len(V))
    sys.exit(1 if V else 0)
