"""native replay of contracts/c05_fock_prepare.py Circuit.dealloc: every mode of a real Fock-backend register is prepared
in its own coherent state, one Del command names the modes of the case IN THE ORDER OF THE CASE, and every surviving
mode must still carry its own amplitude (closed form <x> = 2 Re a, <p> = 2 Im a at hbar = 2)."""
import itertools, warnings
warnings.filterwarnings("ignore")
import numpy as np

DEALLOC_CASES = [(n, list(c), rp) for n in (2, 3, 4) for r in range(1, n) for c in itertools.permutations(range(n), r) for rp in (True, False)]
AMPS = [0.45 + 0.1j, -0.2 + 0.35j, 0.1 - 0.4j, -0.35 - 0.15j]


def check(kind):
    def run(I):
        import strawberryfields as sf
        from strawberryfields import ops
        n, modes, pure = DEALLOC_CASES[int(I.get("case", 0)) % len(DEALLOC_CASES)]
        prog = sf.Program(n)
        with prog.context as q:
            for k in range(n):
                ops.Coherent(abs(AMPS[k]), np.angle(AMPS[k])) | q[k]
            if not pure:
                ops.LossChannel(0.999999) | q[0]
            ops.Del | tuple(q[m] for m in modes)
        what = f"fock ({'pure' if pure else 'mixed'}), {n} modes, Del | {tuple(modes)}"
        try:
            st = sf.Engine("fock", backend_options={"cutoff_dim": 5}).run(prog).state
            keep = [m for m in range(n) if m not in modes]
            got = [(st.quad_expectation(i, 0)[0], st.quad_expectation(i, np.pi / 2)[0]) for i in range(len(keep))]
        except Exception as e:
            return f"{what}: raised {type(e).__name__}: {str(e)[:120]}"
        want = [(2 * AMPS[m].real, 2 * AMPS[m].imag) for m in keep]
        if not np.allclose(got, want, atol=2e-2):
            return f"{what}: surviving modes {keep} carry (<x>, <p>) = {np.round(got, 3).tolist()}, their own amplitudes give {np.round(want, 3).tolist()}"
        return None
    return run


def replay(kind, obligation, I):
    from native.common import run_replay
    run_replay(obligation, I, check(kind), [dict(case=k) for k in range(len(DEALLOC_CASES)) if DEALLOC_CASES[k][0] <= 3])
