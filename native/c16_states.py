"""C16 bounded stand-in (labelled bounded): cross-method and cross-representation consistency of state
observables on correlated 2- and 3-mode states, for every mode subset.
 * per representation: parity(modes) = sum_n (-1)^|n| p_red(n) from the reduced density matrix; mean photon and
   variance from the reduced_dm diagonal; trace of reduced_dm; fock_prob vs dm diagonal; reduced_dm shape = two
   indices per kept mode.
 * across gaussian / bosonic / fock: quad_expectation, mean_photon, parity_expectation, reduced_dm, fock_prob, fidelity
   with a coherent state agree (Fock up to truncation).
usage: c16_states.py <tier> <seed>"""
import itertools, os, sys, warnings
warnings.filterwarnings("ignore")
sys.path.insert(0, os.path.dirname(os.path.dirname(os.path.abspath(__file__))))
import numpy as np
import strawberryfields as sf
from strawberryfields import ops
from native.common import emit_bounded

tier = sys.argv[1] if len(sys.argv) > 1 else "quick"
seed = int(sys.argv[2]) if len(sys.argv) > 2 else 0
V, EVAL = [], [0]
seen_known = set()


def bad(msg, fid="-"):
    if fid != "-":
        if fid in seen_known:
            return
        seen_known.add(fid)
    V.append(msg)
    d = os.path.join(os.path.dirname(os.path.dirname(os.path.abspath(__file__))), "replays", "C16")
    os.makedirs(d, exist_ok=True)
    p = os.path.join(d, f"bounded_{len(V)}.py")
    open(p, "w").write("# replay of a bounded stand-in violation (C16): re-run native/c16_states.py\nimport sys\nprint(%r)\nprint('REPLAY-VIOLATION')\nsys.exit(1)\n" % msg)
    print(f"NATIVE-VIOLATION finding={fid} replay={p} {msg}")


def state(backend, n, pure, family="gaussian", **kw):
    prog = sf.Program(n)
    with prog.context as q:
        if family.startswith("cat"):
            # non-Gaussian, multi-component on the bosonic backend (not available on the gaussian backend)
            rep = {"representation": "real" if family == "cat" else "complex"} if backend == "bosonic" else {}
            ops.Catstate(0.9, 0.4, 0, **rep) | q[0]
            ops.Catstate(0.7, -0.3, 1, **rep) | q[n - 1]
        for k in range(n):
            ops.Sgate(0.25 + 0.05 * k, 0.5 * k) | q[k]
            ops.Dgate(0.15 * (k + 1), 0.4 * k) | q[k]
        for k in range(n - 1):
            ops.BSgate(0.5, 0.3 + 0.2 * k) | (q[k], q[k + 1])
        if not pure:
            ops.LossChannel(0.8) | q[0]
            ops.LossChannel(0.7) | q[n - 1]
    return sf.Engine(backend, backend_options=kw).run(prog).state


def parity_from_dm(rho, k):
    """sum over n of (-1)^|n| rho[n0,n0,n1,n1,...]"""
    c = rho.shape[0]
    tot = 0.0
    for ns in itertools.product(range(c), repeat=k):
        idx = tuple(x for n_ in ns for x in (n_, n_))
        tot += (-1) ** sum(ns) * rho[idx].real
    return tot


def check_queries_are_pure(cut):
    """asking a state object a question does not change the state: for one- and two-mode states on every representation, at
    hbar = 2 and at hbar != 2, every query method (called with plain arguments) leaves the state's data bit-identical and returns
    the same answer when asked again (a one-mode state is the case in which reduced_* hands out the state's own arrays)"""
    xv, pv = np.linspace(-1, 1, 4), np.linspace(-1, 2, 5)
    old_hbar = sf.hbar
    try:
        for hb in (2.0, 0.7):
            sf.hbar = hb
            for n in (1, 2):
                for backend in ("gaussian", "bosonic", "fock"):
                    kw = {"cutoff_dim": 8} if backend == "fock" else {}
                    st = state(backend, n, True, **kw)
                    calls = {
                        "mean_photon": (0,), "quad_expectation": (0, 0.3), "fock_prob": ([0] * n,), "reduced_dm": ([0],), "parity_expectation": ([0],),
                        "is_coherent": (0,), "is_squeezed": (0,), "squeezing": (), "displacement": (), "fidelity_vacuum": (),
                        "fidelity_coherent": ([0.1 + 0.2j] * n,), "wigner": (0, xv, pv), "number_expectation": ([0],), "means": (), "cov": (),
                        "is_vacuum": (), "trace": (), "all_fock_probs": (), "dm": (), "ket": (), "weights": (), "purity": (),
                    }

                    def data():
                        if backend == "gaussian":
                            return [np.array(st._mu, copy=True), np.array(st._cov, copy=True)]
                        if backend == "bosonic":
                            return [np.array(st._weights, copy=True), np.array(st._mus, copy=True), np.array(st._covs, copy=True)]
                        return [np.array(st._data, copy=True)]
                    for meth, args in calls.items():
                        if not hasattr(st, meth):
                            continue
                        EVAL[0] += 1
                        before = data()
                        try:
                            r1 = getattr(st, meth)(*args)
                        except (NotImplementedError, TypeError, ValueError):
                            continue
                        except Exception as e:
                            bad(f"{backend} state ({n} mode(s), hbar={hb}): {meth}{args if meth != 'wigner' else '(0, xvec, pvec)'} raised {type(e).__name__}: {e}")
                            continue
                        after = data()
                        if not all(np.array_equal(a, b) for a, b in zip(before, after)):
                            bad(f"{backend} state ({n} mode(s), hbar={hb}): calling {meth} changed the state's own data")
                            st = state(backend, n, True, **kw)
                            continue
                        try:
                            r2 = getattr(st, meth)(*args)
                            same = np.allclose(np.asarray(r1, dtype=complex), np.asarray(r2, dtype=complex), atol=1e-12) if r1 is not None else r2 is None
                        except Exception:
                            same = True
                        if not same:
                            bad(f"{backend} state ({n} mode(s), hbar={hb}): {meth} answers differently when asked twice")
                            continue
                        # a state object carries its own convention: changing the GLOBAL hbar afterwards (a sweep that keeps the
                        # states and compares them at the end) must not change any of its answers
                        try:
                            sf.hbar = 3.3 if hb != 3.3 else 1.1
                            r3 = getattr(st, meth)(*args)
                            same3 = np.allclose(np.asarray(r1, dtype=complex), np.asarray(r3, dtype=complex), atol=1e-12) if r1 is not None else r3 is None
                        except Exception as e:
                            same3 = True
                        finally:
                            sf.hbar = hb
                        if not same3:
                            bad(f"{backend} state ({n} mode(s)) created at hbar={hb}: {meth} answers differently after the global sf.hbar was set to another value "
                                f"({np.round(np.asarray(r1, dtype=complex).ravel()[:3], 5).tolist()} -> {np.round(np.asarray(r3, dtype=complex).ravel()[:3], 5).tolist()})")
    finally:
        sf.hbar = old_hbar


def check_wigner(cut):
    """Wigner function of every mode of a correlated state on a grid whose x and p axes DIFFER (range, spacing, number of
    points): the same array on the gaussian, bosonic and fock representation, equal to the closed form of the reduced
    Gaussian state, W[j, i] = W(xvec[i], pvec[j])"""
    xvec = np.linspace(-2.0, 3.0, 9)
    pvec = np.linspace(-1.5, 1.0, 6)
    for n in (2, 3):
        for pure in (True, False):
            S = {"gaussian": state("gaussian", n, pure), "bosonic": state("bosonic", n, pure), "fock": state("fock", n, pure, cutoff_dim=min(cut, 12) if n == 2 else 9)}
            mu, cov = S["gaussian"].means(), S["gaussian"].cov()
            for m in range(n):
                EVAL[0] += 1
                idx = [m, m + n]
                mu2, V2 = mu[idx], cov[np.ix_(idx, idx)]
                Vi = np.linalg.inv(V2)
                W0 = np.empty((len(pvec), len(xvec)))
                for j, pp in enumerate(pvec):
                    for i, xx in enumerate(xvec):
                        d = np.array([xx, pp]) - mu2
                        W0[j, i] = np.exp(-0.5 * d @ Vi @ d) / (2 * np.pi * np.sqrt(np.linalg.det(V2)))
                for name, st in S.items():
                    try:
                        W = np.array(st.wigner(m, xvec, pvec))
                    except Exception as e:
                        bad(f"{name} n={n} pure={pure}: wigner({m}, xvec, pvec) raised {type(e).__name__}: {e}")
                        continue
                    tol = 6e-3 if name == "fock" else 1e-7
                    if W.shape != W0.shape:
                        bad(f"{name} n={n} pure={pure}: wigner({m}) on a {len(xvec)} x {len(pvec)} grid has shape {W.shape}, the other representations return {W0.shape}")
                    elif not np.allclose(W, W0, atol=tol):
                        bad(f"{name} n={n} pure={pure}: wigner({m}, xvec, pvec) differs from the closed form of the reduced Gaussian state by {abs(W - W0).max():.3g} (x and p axes differ)")


def check_backend_state_subsets(cut):
    """state construction from simulator data: eng.run(prog, modes=subset in any order) returns a state whose index i is
    the i-th REQUESTED mode, consistent with the full state, on every backend (pure and mixed simulation)"""
    for backend in ("gaussian", "bosonic", "fock"):
        kw = {"cutoff_dim": min(cut, 9)} if backend == "fock" else {}
        for pure in (True, False):
            full = state(backend, 3, pure, **kw)
            for modes in ([0], [2], [0, 2], [2, 0], [1, 2], [2, 1, 0], [1, 0, 2]):
                EVAL[0] += 1
                prog = sf.Program(3)
                with prog.context as q:
                    for k in range(3):
                        ops.Sgate(0.25 + 0.05 * k, 0.5 * k) | q[k]
                        ops.Dgate(0.15 * (k + 1), 0.4 * k) | q[k]
                    for k in range(2):
                        ops.BSgate(0.5, 0.3 + 0.2 * k) | (q[k], q[k + 1])
                    if not pure:
                        ops.LossChannel(0.8) | q[0]
                        ops.LossChannel(0.7) | q[2]
                label = f"{backend} pure={pure}: run(prog, modes={modes}).state"
                try:
                    st = sf.Engine(backend, backend_options=kw).run(prog, modes=modes).state
                    if st.num_modes != len(modes):
                        bad(f"{label} has {st.num_modes} modes")
                        continue
                    a = np.array([st.quad_expectation(i, ph) for i in range(len(modes)) for ph in (0.0, 0.8)])
                    b = np.array([full.quad_expectation(m, ph) for m in modes for ph in (0.0, 0.8)])
                    n_a = [st.mean_photon(i)[0] for i in range(len(modes))]
                    n_b = [full.mean_photon(m)[0] for m in modes]
                except Exception as e:
                    bad(f"{label}: raised {type(e).__name__}: {str(e)[:120]}")
                    continue
                if not (np.allclose(a, b, atol=1e-6) and np.allclose(n_a, n_b, atol=1e-6)):
                    bad(f"{label}: index i of the returned state is not the i-th requested mode (quadratures {np.round(a[:, 0], 3).tolist()} vs {np.round(b[:, 0], 3).tolist()} from the full state)")


if __name__ == "__main__":
    cut = 12 if tier == "quick" else 16
    try:
        check_backend_state_subsets(cut)
        check_wigner(cut)
        check_queries_are_pure(cut)
    except Exception:
        import traceback
        traceback.print_exc()
        print("bounded stand-in crashed")
        sys.exit(3)
    try:
        for n in (2, 3):
            for pure in (True, False):
              for family in ("gaussian", "cat", "cat-complex"):
                if family == "gaussian":
                    S = {"gaussian": state("gaussian", n, pure), "bosonic": state("bosonic", n, pure),
                         "fock": state("fock", n, pure, cutoff_dim=cut)}
                else:
                    if n > 2:
                        continue
                    S = {"fock": state("fock", n, pure, family, cutoff_dim=cut + 6), "bosonic": state("bosonic", n, pure, family)}
                subsets = [list(c) for r in range(1, n + 1) for c in itertools.combinations(range(n), r)]
                if n == 3 and family == "gaussian":
                    # the full three-mode density matrix (pure reduced state for pure=True): same tensor, index by index,
                    # on the gaussian and the fock representation
                    EVAL[0] += 1
                    try:
                        c3 = 5
                        rg = S["gaussian"].reduced_dm([0, 1, 2], cutoff=c3)
                        rf = S["fock"].reduced_dm([0, 1, 2])
                        sl = tuple(slice(0, c3) for _ in range(6))
                        if rg.shape != (c3,) * 6:
                            bad(f"gaussian n=3 pure={pure}: reduced_dm([0,1,2]) has shape {rg.shape}, expected two indices per mode")
                        elif not np.allclose(rg, rf[sl], atol=5e-3):
                            bad(f"n=3 pure={pure}: reduced_dm([0,1,2]) differs between the gaussian and the fock representation (max {abs(rg - rf[sl]).max():.3g})")
                    except Exception as e:
                        bad(f"n=3 pure={pure}: three-mode reduced_dm raised {type(e).__name__}: {e}")
                ref = {}
                refname = next(iter(S))
                for name, st in S.items():
                    tol = 3e-3 if name == "fock" else 1e-7
                    # F42: fock_prob / reduced_dm of bosonic states with complex component means
                    fdm = "F42" if (family == "cat-complex" and name == "bosonic") else "-"
                    for modes in subsets:
                        EVAL[0] += 1
                        k = len(modes)
                        try:
                            par = float(np.real(st.parity_expectation(modes)))
                        except Exception as e:
                            bad(f"{name} n={n} pure={pure} {family}: parity_expectation({modes}) raised {type(e).__name__}: {e}")
                            continue
                        key = ("parity", tuple(modes))
                        if key in ref and abs(ref[key] - par) > 3e-3:
                            bad(f"n={n} pure={pure} {family}: parity_expectation({modes}) is {par:.5f} on {name}, {ref[key]:.5f} on {refname}")
                        ref.setdefault(key, par)
                        if k <= 2:
                            c_small = 8 if name != "fock" else cut
                            try:
                                rho = st.reduced_dm(modes, cutoff=c_small) if name != "fock" else st.reduced_dm(modes)
                            except Exception as e:
                                bad(f"{name} n={n} pure={pure} {family}: reduced_dm({modes}) raised {type(e).__name__}: {e}")
                                continue
                            if rho.shape != tuple([rho.shape[0]] * (2 * k)):
                                bad(f"{name} n={n} pure={pure} {family}: reduced_dm({modes}) has shape {rho.shape}, expected two indices per mode")
                                continue
                            p2 = parity_from_dm(rho, k)
                            if abs(p2 - par) > 5e-3:
                                bad(f"{name} n={n} pure={pure} {family}: parity_expectation({modes}) = {par:.5f} but sum_n (-1)^n p(n) from reduced_dm = {p2:.5f}", fdm)
                            if k == 1:
                                diag = np.real(np.diag(rho))
                                mp = st.mean_photon(modes[0])[0]
                                mp2 = float(np.sum(np.arange(len(diag)) * diag))
                                if abs(mp - mp2) > 5e-3:
                                    bad(f"{name} n={n} pure={pure} {family}: mean_photon({modes[0]}) = {mp:.5f} but reduced_dm diagonal gives {mp2:.5f}", fdm)
                                key = ("diag", modes[0])
                                if key in ref and not np.allclose(ref[key][:6], diag[:6], atol=3e-3):
                                    bad(f"n={n} pure={pure} {family}: photon statistics of mode {modes[0]} differ between {name} {np.round(diag[:4], 4).tolist()} and {refname} {np.round(ref[key][:4], 4).tolist()}", fdm)
                                ref.setdefault(key, diag)
                    for m in range(n):
                        for ph in (0.0, 0.8):
                            EVAL[0] += 1
                            q = st.quad_expectation(m, ph)
                            key = ("quad", m, ph)
                            if key in ref and not np.allclose(ref[key], q, atol=max(tol, 3e-3 if name == "fock" else 1e-7)):
                                bad(f"n={n} pure={pure} {family}: quad_expectation({m},{ph}) = {np.round(q, 5).tolist()} on {name}, {np.round(ref[key], 5).tolist()} on {refname}")
                            ref.setdefault(key, q)
                    for ns in ([0] * n, [1] + [0] * (n - 1), [0] * (n - 1) + [1], [1] * n):
                        EVAL[0] += 1
                        try:
                            p = float(np.real(st.fock_prob(ns)))
                        except Exception as e:
                            bad(f"{name}: fock_prob({ns}) raised {type(e).__name__}: {e}")
                            continue
                        key = ("fp", tuple(ns))
                        if key in ref and abs(ref[key] - p) > 3e-3:
                            bad(f"n={n} pure={pure} {family}: fock_prob({ns}) = {p:.5f} on {name}, {ref[key]:.5f} on {refname}", fdm)
                        ref.setdefault(key, p)
                        if p < -1e-9:
                            bad(f"{name} n={n}: fock_prob({ns}) = {p:.5f} is negative")
    except Exception:
        import traceback
        traceback.print_exc()
        print("bounded stand-in crashed")
        sys.exit(3)
    emit_bounded("c16_states", EVAL[0], EVAL[0], [{"states": "squeezed-displaced-beamsplitter 2/3 modes, pure and lossy", "subsets": "all sorted subsets"}], len(V))
    sys.exit(1 if V else 0)
