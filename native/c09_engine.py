"""C09 / C10 bounded stand-in (labelled bounded).
C09: (a) run([p1,p2]) vs run(p1);run(p2) vs run(p1 ++ p2) give the same final state; (b) reset() then running
behaves like a fresh engine; (c) re-running the same Program on a fresh engine gives the same result and the
program (circuit, op objects, parameters, dagger flags, registers) is identical before and after run / compile /
optimize; each on gaussian, fock, bosonic, including a measured parameter crossing the segment boundary.
C10: circuits with free / measured / arithmetic symbolic parameters give the same state as the circuit with the
values substituted, through compile, decomposition and optimisation.
usage: c09_engine.py <tier> <seed>"""
import itertools
import copy, os, sys, warnings
warnings.filterwarnings("ignore")
sys.path.insert(0, os.path.dirname(os.path.dirname(os.path.abspath(__file__))))
import numpy as np
import strawberryfields as sf
from strawberryfields import ops
from native.common import emit_bounded

tier = sys.argv[1] if len(sys.argv) > 1 else "quick"
seed = int(sys.argv[2]) if len(sys.argv) > 2 else 0
V, EVAL = [], [0]
seen_known = set()


def bad(msg, fid="-"):
    if fid != "-":
        if fid in seen_known:
            return
        seen_known.add(fid)
    V.append(msg)
    d = os.path.join(os.path.dirname(os.path.dirname(os.path.abspath(__file__))), "replays", "C09")
    os.makedirs(d, exist_ok=True)
    p = os.path.join(d, f"bounded_{len(V)}.py")
    open(p, "w").write("# replay of a bounded stand-in violation (C09/C10): re-run native/c09_engine.py\nimport sys\nprint(%r)\nprint('REPLAY-VIOLATION')\nsys.exit(1)\n" % msg)
    print(f"NATIVE-VIOLATION finding={fid} replay={p} {msg}")


def obs(state, n):
    return np.array([state.quad_expectation(m, ph)[j] for m in range(n) for ph in (0, np.pi / 2) for j in (0, 1)])


def fingerprint(prog):
    out = []
    for c in prog.circuit:
        out.append((id(c), id(c.op), type(c.op).__name__, tuple(id(p) for p in c.op.p), tuple(str(p) for p in c.op.p),
                    getattr(c.op, "dagger", None), tuple(r.ind for r in c.reg), tuple(id(r) for r in c.reg)))
    opts = (repr(sorted(prog.run_options.items())), repr(sorted(prog.backend_options.items())),
            tuple(sorted((k, repr(getattr(v, "val", None)), repr(getattr(v, "default", None))) for k, v in prog.free_params.items())))
    return (tuple(out), tuple(sorted(prog.reg_refs)), tuple(r.active for r in prog.reg_refs.values()), opts)


SEG = {
    "gates": (lambda q: (ops.Sgate(0.3, 0.2) | q[0], ops.BSgate(0.4, 0.3) | (q[0], q[1])),
              lambda q: (ops.Dgate(0.3, 0.1) | q[1], ops.Rgate(0.7).H | q[0], ops.BSgate(0.2, 0.5).H | (q[1], q[0]))),
    "feed-forward": (lambda q: (ops.S2gate(0.4) | (q[0], q[1]), ops.MeasureHomodyne(0.0, select=0.35) | q[0]),
                     lambda q: (ops.Xgate(q[0].par) | q[1], ops.Rgate(0.3) | q[1])),
    "channels": (lambda q: (ops.Coherent(0.4) | q[0], ops.LossChannel(0.8) | q[0], ops.LossChannel(0.9) | q[0]),
                 lambda q: (ops.BSgate(0.5, 0.1) | (q[0], q[1]), ops.LossChannel(0.7) | q[1])),
}


def check_sequencing():
    for backend in ("gaussian", "fock", "bosonic"):
        kw = {"cutoff_dim": 12} if backend == "fock" else {}
        tol = 3e-3 if backend == "fock" else 1e-8
        for name, (s1, s2) in SEG.items():
            EVAL[0] += 1
            results = {}
            try:
                # (1) one call with two programs
                p1 = sf.Program(2)
                with p1.context as q:
                    s1(q)
                p2 = sf.Program(p1)
                with p2.context as q:
                    s2(q)
                eng = sf.Engine(backend, backend_options=kw)
                results["run([p1,p2])"] = obs(eng.run([p1, p2]).state, 2)
                # (2) two calls
                p1 = sf.Program(2)
                with p1.context as q:
                    s1(q)
                p2 = sf.Program(p1)
                with p2.context as q:
                    s2(q)
                eng = sf.Engine(backend, backend_options=kw)
                eng.run(p1)
                results["run(p1);run(p2)"] = obs(eng.run(p2).state, 2)
                # (3) concatenated
                pc = sf.Program(2)
                with pc.context as q:
                    s1(q)
                    s2(q)
                eng = sf.Engine(backend, backend_options=kw)
                results["run(p1++p2)"] = obs(eng.run(pc).state, 2)
                # (4) after reset the engine behaves like a fresh one
                eng.reset()
                if eng.run_progs or eng.samples is not None:
                    bad(f"{backend} {name}: reset() left run_progs/samples behind")
                pc2 = sf.Program(2)
                with pc2.context as q:
                    s1(q)
                    s2(q)
                results["after reset"] = obs(eng.run(pc2).state, 2)
            except Exception as e:
                fid = "F9" if backend == "bosonic" else "-"
                bad(f"{backend} {name}: raised {type(e).__name__}: {e}", fid)
                continue
            ref = results["run(p1++p2)"]
            for k, v in results.items():
                if not np.allclose(v, ref, atol=tol):
                    fid = "F9" if (backend == "bosonic" and k in ("run([p1,p2])", "run(p1);run(p2)")) else "-"
                    bad(f"{backend} {name}: {k} gives {np.round(v, 4).tolist()} but the concatenated program gives {np.round(ref, 4).tolist()}", fid)


def check_repeated_feedforward_segment():
    """C10/C09: a measured parameter evaluates to the MOST RECENT outcome of its mode also when the feed-forward segment is
    the same Program object run again after the mode was re-measured by another segment.  Every sequence of <= 4 segments
    over {M_k: homodyne on q0 selecting a distinct value, F: Xgate(q0.par) | q1 (one object, reused)} that starts with a
    measurement; one run([..]) call and one call per segment; closed form <x_1> = sum of the latest outcome at each F."""
    vals = [0.5, -1.5, 0.9, -0.3]
    for L in (2, 3, 4):
        for pat in itertools.product("MF", repeat=L - 1):
            pat = ("M",) + pat
            if pat.count("F") == 0:
                continue
            for how in ("one call", "call per segment"):
                EVAL[0] += 1
                label = "".join(pat) + " / " + how
                try:
                    F = sf.Program(2)
                    with F.context as q:
                        ops.Xgate(q[0].par) | q[1]
                    segs, latest, expected, k = [], None, 0.0, 0
                    for c in pat:
                        if c == "M":
                            m = sf.Program(2)
                            with m.context as q:
                                ops.MeasureHomodyne(0.0, select=vals[k]) | q[0]
                            latest = vals[k]; k += 1
                            segs.append(m)
                        else:
                            expected += latest
                            segs.append(F)
                    eng = sf.Engine("gaussian")
                    if how == "one call":
                        st = eng.run(segs).state
                    else:
                        for sg in segs:
                            st = eng.run(sg).state
                    got = st.quad_expectation(1, 0)[0]
                except Exception as e:
                    bad(f"repeated feed-forward segment [{label}]: raised {type(e).__name__}: {str(e)[:150]}")
                    continue
                if abs(got - expected) > 1e-8:
                    bad(f"repeated feed-forward segment [{label}]: <x> of the fed-forward mode = {got:.4f}, the most recent outcomes give {expected:.4f}")


def check_handover_with_register_changes():
    """C09: measured values cross a segment boundary by MODE (not by position) - the earlier segment deletes a lower-indexed
    mode before / after measuring, the later segment feeds the outcome forward; one call, two calls and the concatenated
    program agree with the closed form <x> = selected outcome"""
    variants = {
        "Del q0 then measure q1, feed q2": (lambda q: (ops.Del | q[0], ops.MeasureHomodyne(0.0, select=0.7) | q[1]), 1, 2),
        "measure q1 then Del q0, feed q2": (lambda q: (ops.MeasureHomodyne(0.0, select=0.7) | q[1], ops.Del | q[0]), 1, 2),
        "measure q2 and q1, Del q0, feed q1's outcome to q2": (lambda q: (ops.MeasureHomodyne(0.0, select=-0.4) | q[2], ops.MeasureHomodyne(0.0, select=0.7) | q[1], ops.Del | q[0]), 1, 2),
        "Del q1, measure q2, feed q0": (lambda q: (ops.Del | q[1], ops.MeasureHomodyne(0.0, select=0.7) | q[2]), 2, 0),
    }
    # the LATER segment changes the register too (deletes / creates modes before or after feeding forward)
    seg2s = {
        "": lambda p2, src, dst: (ops.Xgate(p2.reg_refs[src].par) | p2.reg_refs[dst],),
        "; successor deletes the measured mode afterwards": lambda p2, src, dst: (ops.Xgate(p2.reg_refs[src].par) | p2.reg_refs[dst], ops.Del | p2.reg_refs[src]),
        "; successor creates a mode first": lambda p2, src, dst: (ops.New(1), ops.Xgate(p2.reg_refs[src].par) | p2.reg_refs[dst]),
    }
    for backend in ("gaussian", "fock"):
        kw = {"cutoff_dim": 10} if backend == "fock" else {}
        tol = 2e-2 if backend == "fock" else 1e-8
        for (label, (seg1, src, dst)), (l2, seg2) in itertools.product(variants.items(), seg2s.items()):
            EVAL[0] += 1
            label = label + l2

            def xmean(state, prog_last):
                # position of mode dst among the live modes
                live = [r.ind for r in prog_last.register]
                return state.quad_expectation(live.index(dst), 0)[0]
            res = {}
            try:
                p1 = sf.Program(3)
                with p1.context as q:
                    seg1(q)
                p2 = sf.Program(p1)
                with p2.context as q:
                    seg2(p2, src, dst)
                reg1 = [(r.ind, r.active) for r in p1.reg_refs.values()]
                eng = sf.Engine(backend, backend_options=kw)
                res["run([p1, p2])"] = xmean(eng.run([p1, p2]).state, p2)
                if [(r.ind, r.active) for r in p1.reg_refs.values()] != reg1:
                    bad(f"{backend} [{label}]: writing / running the successor changed the register of the first program: {reg1} -> {[(r.ind, r.active) for r in p1.reg_refs.values()]}")
                p1 = sf.Program(3)
                with p1.context as q:
                    seg1(q)
                p2 = sf.Program(p1)
                with p2.context as q:
                    seg2(p2, src, dst)
                eng = sf.Engine(backend, backend_options=kw)
                eng.run(p1)
                res["run(p1); run(p2)"] = xmean(eng.run(p2).state, p2)
                pc = sf.Program(3)
                with pc.context as q:
                    seg1(q)
                    seg2(pc, src, dst)
                res["run(p1 ++ p2)"] = xmean(sf.Engine(backend, backend_options=kw).run(pc).state, pc)
            except Exception as e:
                bad(f"{backend} [{label}]: raised {type(e).__name__}: {str(e)[:150]} (after {list(res)})")
                continue
            for k, v in res.items():
                if abs(v - 0.7) > tol:
                    bad(f"{backend} [{label}]: {k} gives <x> = {v:.4f} on the fed-forward mode, the selected outcome is 0.7")


def check_reset_clears_every_outcome():
    """C09: after reset() the engine behaves like a fresh one - no register of a program that was run keeps a measured value,
    ALSO for modes that were measured and then deleted; a successor segment that feeds such a value forward cannot be run on
    its own after the reset (a fresh engine refuses it with ParameterError)"""
    from strawberryfields.parameters import ParameterError
    for backend in ("gaussian", "fock"):
        kw = {"cutoff_dim": 8} if backend == "fock" else {}
        for when in ("deleted in the successor", "deleted in the successor after another gate"):
            EVAL[0] += 1
            p1 = sf.Program(2)
            with p1.context as q:
                ops.MeasureHomodyne(0.0, select=0.7) | q[0]
            p2 = sf.Program(p1)
            with p2.context as q:
                ops.Xgate(p2.reg_refs[0].par) | p2.reg_refs[1]
                if when != "deleted in the successor":
                    ops.Rgate(0.3) | p2.reg_refs[1]
                ops.Del | p2.reg_refs[0]
            eng = sf.Engine(backend, backend_options=kw)
            try:
                eng.run([p1, p2])
            except Exception as e:
                bad(f"{backend} reset [{when}]: run([p1, p2]) raised {type(e).__name__}: {str(e)[:120]}")
                continue
            eng.reset()
            left = {(name, k): r.val for name, p in (("p1", p1), ("p2", p2)) for k, r in p.reg_refs.items() if r.val is not None}
            if left:
                bad(f"{backend} reset [{when}]: reset() left measured values in the registers of programs that were run: {left}")
            try:
                eng.run(p2)
                bad(f"{backend} reset [{when}]: after reset() the successor segment ran on its own using an outcome measured BEFORE the reset (a fresh engine raises ParameterError)")
            except ParameterError:
                pass
            except Exception as e:
                pass                      # a register mismatch is a refusal as well


def check_untouched():
    for backend in ("gaussian", "fock", "bosonic"):
        kw = {"cutoff_dim": 10} if backend == "fock" else {}
        for name in ("gates", "channels"):
            s1, s2 = SEG[name]
            EVAL[0] += 1
            prog = sf.Program(2)
            with prog.context as q:
                s1(q)
                s2(q)
                ops.Pgate(0.3).H | q[0]
                ops.CXgate(0.2) | (q[0], q[1])
            prog.run_options = {"shots": None}
            prog.backend_options = dict(kw)
            fp0 = fingerprint(prog)
            r1 = obs(sf.Engine(backend, backend_options=kw).run(prog).state, 2)
            if fingerprint(prog) != fp0:
                bad(f"{backend} {name}: running the program changed it (circuit / operation objects / parameters / flags / options)")
            # run options given to the engine take precedence for that run only and are not written into the program
            sf.Engine(backend, backend_options=kw).run(prog, modes=[0])
            if fingerprint(prog) != fp0:
                bad(f"{backend} {name}: run(prog, modes=[0]) wrote its options into the user's program: {prog.run_options}")
            # what is done to a compiled / optimised copy does not reach the user's program
            cp = prog.compile(compiler=backend)
            cp.run_options["shots"] = 7
            cp.backend_options["cutoff_dim"] = 3
            if fingerprint(prog) != fp0:
                bad(f"{backend} {name}: editing the options of the compiled copy changed the user's program (shared dictionaries)")
            r2 = obs(sf.Engine(backend, backend_options=kw).run(prog).state, 2)
            if not np.allclose(r1, r2, atol=1e-10):
                bad(f"{backend} {name}: running the same program again on a fresh engine gives a different state")
            for co in ({"compiler": backend}, {"compiler": backend, "optimize": True}):
                prog.compile(**co)
                if fingerprint(prog) != fp0:
                    bad(f"{backend} {name}: compile({co}) changed the user's program")
            prog.optimize()
            if fingerprint(prog) != fp0:
                bad(f"{backend} {name}: optimize() changed the user's program")
    # a gate whose backend call fails must be left untouched (daggered gate: first parameter negated while applied)
    EVAL[0] += 1
    g = ops.Dgate(1.0, 0.5j).H
    before = list(g.p)
    prog = sf.Program(1)
    with prog.context as q:
        g | q[0]
    try:
        sf.Engine("gaussian").run(prog)
    except Exception:
        pass
    if not all(a is b or a == b for a, b in zip(g.p, before)):
        bad(f"Dgate(1.0, 0.5j).H: after a failing run the operation holds parameters {g.p}, before {before}")


def check_symbolic():
    """C10: symbolic == substituted"""
    pf = sf.math
    cases = {
        "free": (lambda q, a, b: (ops.Sgate(a, b) | q[0], ops.BSgate(a * 2, b - 0.1) | (q[0], q[1]), ops.Pgate(a) | q[1])),
        "functions": (lambda q, a, b: (ops.Dgate(pf.sqrt(a * a + 0.01), pf.atan2(b, a)) | q[0], ops.Rgate(pf.sin(a) * 2) | q[0], ops.CXgate(a - b) | (q[0], q[1]))),
        "homodyne-angle": (lambda q, a, b: (ops.S2gate(0.4) | (q[0], q[1]), ops.MeasureHomodyne(a * 2, select=0.3) | q[0], ops.Rgate(b) | q[1])),
        "mergeable": (lambda q, a, b: (ops.Rgate(a) | q[0], ops.Rgate(b) | q[0], ops.Sgate(a) | q[1], ops.Sgate(b).H | q[1], ops.BSgate(0.3, 0.1) | (q[0], q[1]))),
    }
    vals = {"a": 0.37, "b": -0.21}
    for backend in ("gaussian", "fock", "bosonic"):
        kw = {"cutoff_dim": 12} if backend == "fock" else {}
        tol = 3e-3 if backend == "fock" else 1e-8
        for name, build in cases.items():
            for co in ({}, {"optimize": True}):
                EVAL[0] += 1
                ps = sf.Program(2)
                a, b = ps.params("a", "b")
                with ps.context as q:
                    build(q, a, b)
                pn = sf.Program(2)
                with pn.context as q:
                    build(q, vals["a"], vals["b"])
                try:
                    rs = obs(sf.Engine(backend, backend_options=kw).run(ps, args=vals, compile_options=dict(co)).state, 2)
                    rn = obs(sf.Engine(backend, backend_options=kw).run(pn, compile_options=dict(co)).state, 2)
                except Exception as e:
                    bad(f"C10 {backend} {name} {co}: raised {type(e).__name__}: {e}")
                    continue
                if not np.allclose(rs, rn, atol=tol):
                    bad(f"C10 {backend} {name} {co}: symbolic program gives {np.round(rs, 4).tolist()}, substituted program {np.round(rn, 4).tolist()}")
                    continue
                # the SAME program object bound to other values and run again (fresh engine): the symbols stand for the new values
                vals2 = {"a": -0.52, "b": 0.44}
                pn2 = sf.Program(2)
                with pn2.context as q:
                    build(q, vals2["a"], vals2["b"])
                try:
                    rs2 = obs(sf.Engine(backend, backend_options=kw).run(ps, args=vals2, compile_options=dict(co)).state, 2)
                    rn2 = obs(sf.Engine(backend, backend_options=kw).run(pn2, compile_options=dict(co)).state, 2)
                except Exception as e:
                    bad(f"C10 {backend} {name} {co}: re-running with new bindings raised {type(e).__name__}: {e}")
                    continue
                if not np.allclose(rs2, rn2, atol=tol):
                    bad(f"C10 {backend} {name} {co}: the same program re-run with a = {vals2['a']}, b = {vals2['b']} gives {np.round(rs2, 4).tolist()}, the substituted program {np.round(rn2, 4).tolist()}")
        # unbound parameter -> ParameterError
        EVAL[0] += 1
        pu_ = sf.Program(1)
        a = pu_.params("a")
        with pu_.context as q:
            ops.Rgate(a) | q[0]
        try:
            sf.Engine(backend, backend_options=kw).run(pu_)
            bad(f"C10 {backend}: running a program with an unbound free parameter did not raise")
        except sf.parameters.ParameterError:
            pass
        except Exception as e:
            bad(f"C10 {backend}: unbound free parameter raised {type(e).__name__} instead of ParameterError")
    # measured parameter: most recent outcome (measure, use, re-prepare, re-measure, use)
    EVAL[0] += 1
    prog = sf.Program(2)
    with prog.context as q:
        ops.Coherent(0.3) | q[0]
        ops.MeasureHomodyne(0.0, select=0.4) | q[0]
        ops.Xgate(q[0].par) | q[1]
        ops.Coherent(0.2) | q[0]
        ops.MeasureHomodyne(0.0, select=-0.9) | q[0]
        ops.Xgate(q[0].par) | q[1]
    x = sf.Engine("gaussian").run(prog).state.quad_expectation(1)[0]
    if abs(x - (0.4 - 0.9)) > 1e-8:
        bad(f"C10: measured parameter used twice around a re-measurement: <x> of mode 1 is {x:.4f}, expected {0.4 - 0.9:.4f}")


def check_measured_functions():
    """C10: a measured parameter behaves like the outcome it stands for, whatever the type of the outcome
    (real homodyne / integer Fock / complex heterodyne) and under every function of sf.math"""
    import cmath
    from strawberryfields.parameters import par_evaluate
    from strawberryfields.program_utils import RegRef
    pf = sf.math
    funcs = {
        "q": (lambda q: q, lambda v: v),
        "re(q)": (lambda q: pf.re(q), lambda v: complex(v).real),
        "im(q)": (lambda q: pf.im(q), lambda v: complex(v).imag),
        "conjugate(q)": (lambda q: pf.conjugate(q), lambda v: complex(v).conjugate()),
        "Abs(q)": (lambda q: pf.Abs(q), lambda v: abs(v)),
        "Abs(q)**2": (lambda q: pf.Abs(q) ** 2, lambda v: abs(v) ** 2),
        "q*conjugate(q)": (lambda q: q * pf.conjugate(q), lambda v: abs(v) ** 2),
        "arg(q)": (lambda q: pf.arg(q), lambda v: cmath.phase(v)),
        "exp(q)": (lambda q: pf.exp(q), lambda v: cmath.exp(v)),
        "sqrt(q*q)": (lambda q: pf.sqrt(q * q), lambda v: cmath.sqrt(complex(v) * complex(v))),
        "2*q**2-q/3": (lambda q: 2 * q ** 2 - q / 3, lambda v: 2 * v ** 2 - v / 3),
        "sin(q)+cos(q)": (lambda q: pf.sin(q) + pf.cos(q), lambda v: cmath.sin(v) + cmath.cos(v)),
    }
    for v in (0.7, -1.3, 3, 0, 0.3 + 0.4j, -0.25 - 1.5j, 2j):
        for name, (build, ref) in funcs.items():
            if name == "arg(q)" and v == 0:
                continue
            EVAL[0] += 1
            r = RegRef(0)
            e = build(r.par)
            r.val = v
            try:
                got = complex(par_evaluate(e))
            except Exception as ex:
                bad(f"C10: par_evaluate({name}) with outcome {v!r} raised {type(ex).__name__}: {ex}")
                continue
            if abs(got - complex(ref(v))) > 1e-9:
                bad(f"C10: {name} of a measured parameter with outcome {v!r} evaluates to {got}, the function of the outcome is {complex(ref(v))}")
    # expressions mixing a measured and a FREE parameter, asymmetric in the two: Xgate(q0 - g), Zgate(g cos(q0)) on the gaussian backend
    for optimize in (False, True):
        EVAL[0] += 1
        prog = sf.Program(2)
        g = prog.params("g")
        with prog.context as q:
            ops.MeasureHomodyne(0.0, select=0.7) | q[0]
            ops.Xgate(q[0].par - g) | q[1]
            ops.Zgate(g * pf.cos(q[0].par)) | q[1]
        try:
            st = sf.Engine("gaussian").run(prog, args={"g": 0.2}, compile_options={"optimize": optimize}).state
            got = (st.quad_expectation(1, 0)[0], st.quad_expectation(1, np.pi / 2)[0])
        except Exception as ex:
            bad(f"C10: Xgate(q0 - g), Zgate(g cos(q0)) with g = 0.2 bound at run time (optimize={optimize}) raised {type(ex).__name__}: {ex}")
            continue
        want = (0.7 - 0.2, 0.2 * np.cos(0.7))
        if not np.allclose(got, want, atol=1e-8):
            bad(f"C10: Xgate(q0 - g); Zgate(g cos(q0)) with outcome 0.7 and g = 0.2 (optimize={optimize}): (<x>, <p>) of mode 1 = {np.round(got, 4).tolist()}, the substituted circuit gives {np.round(want, 4).tolist()}")
    # feed-forward of a complex (heterodyne) outcome through im / re on the gaussian backend
    for name, build, expect in (("Zgate(1.5*im(q0))", lambda q: ops.Zgate(1.5 * pf.im(q[0].par)) | q[1], (0.0, 1.5 * 0.4)),
                                ("Xgate(2*re(q0))", lambda q: ops.Xgate(2 * pf.re(q[0].par)) | q[1], (2 * 0.3, 0.0))):
        EVAL[0] += 1
        prog = sf.Program(2)
        with prog.context as q:
            ops.MeasureHeterodyne(select=0.3 + 0.4j) | q[0]
            build(q)
        try:
            st = sf.Engine("gaussian").run(prog).state
            got = (st.quad_expectation(1, 0)[0], st.quad_expectation(1, np.pi / 2)[0])
        except Exception as ex:
            bad(f"C10: heterodyne outcome 0.3+0.4j fed forward through {name} raised {type(ex).__name__}: {ex}")
            continue
        if not np.allclose(got, expect, atol=1e-8):
            bad(f"C10: heterodyne outcome 0.3+0.4j fed forward through {name}: (<x>,<p>) of mode 1 = {np.round(got, 4).tolist()}, the substituted circuit gives {list(expect)}")


def check_array_parameters():
    """C10: ARRAY-valued parameters whose elements are expressions of measured parameters (the documented way to build
    them: number array * q.par) behave like the substituted arrays - with and without the optimiser / scheduler, when the
    operation acts on another mode than the measured one, and when the mode is measured twice (most recent outcome)."""
    pf = sf.math
    V2 = np.diag([0.5488, 1.8221])
    c = np.array([1.0, 0.5])
    builders = {
        "number-array * q": lambda qp: c * qp,
        "array of functions": lambda qp: np.array([pf.sin(qp) + qp, 0.5 * qp], dtype=object),
        "array mixing a number and an expression": lambda qp: np.array([0.25, 2 * qp], dtype=object),
    }
    numeric = {
        "number-array * q": lambda v: c * v,
        "array of functions": lambda v: np.array([np.sin(v) + v, 0.5 * v]),
        "array mixing a number and an expression": lambda v: np.array([0.25, 2 * v]),
    }
    for name, build in builders.items():
        for twice in (False, True):
            for optimize in (False, True):
                EVAL[0] += 1
                prog = sf.Program(2)
                with prog.context as q:
                    ops.Squeezed(0.4, 0) | q[0]
                    ops.MeasureHomodyne(0, select=0.7) | q[0]
                    if twice:
                        ops.Dgate(0.5 * q[0].par, 0) | q[1]
                        ops.Squeezed(0.3, 0) | q[0]
                    r = build(q[0].par)
                    if twice:
                        ops.MeasureHomodyne(0, select=-0.4) | q[0]
                        # the array parameter is built from the symbol; it must see the outcome of the measurement
                        # that precedes the operation in program order
                    ops.Gaussian(V2, r=r, decomp=False) | q[1]
                last = -0.4 if twice else 0.7
                label = f"C10: Gaussian(V, r={name}) | q[1] after {'two measurements' if twice else 'a measurement'} of q[0], optimize={optimize}"
                try:
                    if optimize:
                        prog = prog.optimize()
                    st = sf.Engine("gaussian").run(prog).state
                    got = np.array([st.quad_expectation(1, 0)[0], st.quad_expectation(1, np.pi / 2)[0]])
                except Exception as ex:
                    bad(f"{label}: raised {type(ex).__name__}: {str(ex)[:150]} (the substituted circuit runs)")
                    continue
                want = numeric[name](last)
                if not np.allclose(got, want, atol=1e-8):
                    bad(f"{label}: means of mode 1 = {np.round(got, 4).tolist()}, the substituted circuit gives {np.round(want, 4).tolist()}")


def check_symbol_identity():
    """F11: same-named symbols of different programs"""
    EVAL[0] += 1
    p1, p2 = sf.Program(1), sf.Program(1)
    a1 = p1.params("a")
    p1.bind_params({"a": 0.5})
    a2 = p2.params("a")
    if a1 is a2 or a1.val != 0.5:
        bad("C10: creating the free parameter 'a' in a second program reset/aliased the bound parameter 'a' of the first program", "F11")


if __name__ == "__main__":
    prop = sys.argv[3] if len(sys.argv) > 3 else "both"
    fns = {"C09": (check_sequencing, check_handover_with_register_changes, check_repeated_feedforward_segment, check_reset_clears_every_outcome, check_untouched), "C10": (check_repeated_feedforward_segment, check_symbolic, check_measured_functions, check_array_parameters, check_symbol_identity)}.get(
        prop, (check_sequencing, check_handover_with_register_changes, check_repeated_feedforward_segment, check_reset_clears_every_outcome, check_untouched, check_symbolic, check_measured_functions, check_array_parameters, check_symbol_identity))
    for f in fns:
        try:
            f()
        except Exception:
            import traceback
            traceback.print_exc()
            print("bounded stand-in crashed in", f.__name__)
            sys.exit(3)
    emit_bounded("c09_engine", EVAL[0], EVAL[0], [{"segments": list(SEG), "backends": ["gaussian", "fock", "bosonic"]}], len(V))
    sys.exit(1 if V else 0)
