"""native contract evaluators for GaussianModes (C01/C05/C07/C08): the real methods against an
independent numeric Bogoliubov / channel calculation on random physical-looking moment matrices."""
import itertools
import numpy as np
from strawberryfields.backends.gaussianbackend.gaussiancircuit import GaussianModes


def rand_state(n, rng):
    g = GaussianModes(n)
    X = rng.randn(n, n) + 1j * rng.randn(n, n)
    g.nmat = X @ X.conj().T * 0.3          # hermitian
    Y = rng.randn(n, n) + 1j * rng.randn(n, n)
    g.mmat = (Y + Y.T) * 0.2               # symmetric
    g.mean = rng.randn(n) + 1j * rng.randn(n)
    return g


def bogo(N, M, al, A, B):
    n = len(al)
    Nt = A.conj() @ N @ A.T + A.conj() @ M.conj() @ B.T + B.conj() @ M @ A.T + B.conj() @ (N.T + np.eye(n)) @ B.T
    Mt = A @ M @ A.T + A @ (N.T + np.eye(n)) @ B.T + B @ N @ A.T + B @ M.conj() @ B.T
    return Nt, Mt, A @ al + B @ al.conj()


def expect(method, args, N, M, al):
    n = len(al)
    A = np.eye(n, dtype=complex); B = np.zeros((n, n), dtype=complex)
    if method == "squeeze":
        r, phi, k = args
        A[k, k] = np.cosh(r); B[k, k] = -np.exp(1j * phi) * np.sinh(r)
    elif method == "phase_shift":
        phi, k = args
        A[k, k] = np.exp(1j * phi)
    elif method == "beamsplitter":
        th, phi, k, l = args
        A[k, k] = np.cos(th); A[k, l] = np.exp(1j * phi) * np.sin(th)
        A[l, l] = np.cos(th); A[l, k] = -np.exp(-1j * phi) * np.sin(th)
    elif method == "displace":
        r, phi, k = args
        al = al.copy(); al[k] += r * np.exp(1j * phi)
        return N, M, al
    elif method in ("loss", "thermal_loss"):
        T, k = args[0], args[-1]
        f = np.ones(n); f[k] = np.sqrt(T)
        N2 = N * np.outer(f, f); M2 = M * np.outer(f, f)
        if method == "thermal_loss":
            N2 = N2.copy(); N2[k, k] += (1 - T) * args[1]
        return N2, M2, al * f
    elif method == "init_thermal":
        pop, k = args
        f = np.ones(n); f[k] = 0
        N2 = N * np.outer(f, f); N2[k, k] = pop
        return N2, M * np.outer(f, f), al * f
    return bogo(N, M, al, A, B)


def check(inp):
    method, n, args, seed = inp
    rng = np.random.RandomState(seed)
    g = rand_state(n, rng)
    N, M, al = g.nmat.copy(), g.mmat.copy(), g.mean.copy()
    if method == "add_mode":
        g.add_mode(*args)
        k = args[0]
        if g.nlen != n + k:
            return f"add_mode({k}): nlen {g.nlen}"
        N2 = np.zeros((n + k, n + k), complex); N2[:n, :n] = N
        M2 = np.zeros((n + k, n + k), complex); M2[:n, :n] = M
        a2 = np.zeros(n + k, complex); a2[:n] = al
        if not (np.allclose(g.nmat, N2) and np.allclose(g.mmat, M2) and np.allclose(g.mean, a2)):
            return f"add_mode({k}) on a {n}-mode state does not keep the moments of the old modes (max |dN|={abs(g.nmat - N2).max():.3g})"
        if list(g.active) != list(range(n + k)):
            return f"add_mode({k}): active = {g.active}"
        return None
    getattr(g, method)(*args)
    eN, eM, ea = expect(method, args, N, M, al)
    for nm, got, exp in (("N", g.nmat, eN), ("M", g.mmat, eM), ("alpha", g.mean, ea)):
        if not np.allclose(got, exp, atol=1e-10):
            i = np.unravel_index(np.argmax(abs(got - exp)), got.shape)
            return f"{method}{args} on {n} modes: {nm}{list(map(int, i))} = {got[i]:.5f}, documented action gives {exp[i]:.5f}"
    return None


def battery(method):
    seeds = range(3)
    for n in (1, 2, 3, 4):
        for sd in seeds:
            if method == "add_mode":
                for k in (1, 2):
                    yield (method, n, (k,), sd)
                continue
            for k in range(n):
                if method in ("squeeze", "displace"):
                    for r, phi in ((0.4, 0.7), (-0.3, 2.5)):
                        yield (method, n, (r, phi, k), sd)
                elif method == "phase_shift":
                    yield (method, n, (0.9, k), sd)
                elif method == "beamsplitter":
                    for l in range(n):
                        if l != k:
                            yield (method, n, (0.6, 1.1, k, l), sd)
                elif method == "loss":
                    yield (method, n, (0.6, k), sd)
                elif method == "thermal_loss":
                    yield (method, n, (0.6, 1.3, k), sd)
                elif method == "init_thermal":
                    yield (method, n, (0.7, k), sd)


def replay(method, obligation, I):
    from native.common import run_replay
    run_replay(obligation, None, check, battery(method))
