"""C02 bounded stand-in (labelled bounded): decomposed vs natively applied operations on the Gaussian backend for
the LAPACK-based / data-dependent decompositions: Gaussian state preparation (all branches: pure diagonal x- and
p-squeezed, rotated blocks over the full angle range, thermal, general Williamson), GaussianTransform
(passive / active), GraphEmbed, BipartiteGraphEmbed, on every order of target modes of a 3-mode register.
usage: c02_preps.py <tier> <seed>"""
import itertools, os, sys, warnings
warnings.filterwarnings("ignore")
sys.path.insert(0, os.path.dirname(os.path.dirname(os.path.abspath(__file__))))
import numpy as np
import strawberryfields as sf
from strawberryfields import ops
from native.common import emit_bounded

tier = sys.argv[1] if len(sys.argv) > 1 else "quick"
seed = int(sys.argv[2]) if len(sys.argv) > 2 else 0
V, EVAL = [], [0]


def bad(msg):
    V.append(msg)
    d = os.path.join(os.path.dirname(os.path.dirname(os.path.abspath(__file__))), "replays", "C02")
    os.makedirs(d, exist_ok=True)
    p = os.path.join(d, f"bounded_preps_{len(V)}.py")
    open(p, "w").write("# replay of a bounded stand-in violation (C02): re-run native/c02_preps.py\nimport sys\nprint(%r)\nprint('REPLAY-VIOLATION')\nsys.exit(1)\n" % msg)
    print(f"NATIVE-VIOLATION finding=- replay={p} {msg}")


def run(op_factory, modes, n, compiler):
    prog = sf.Program(n)
    with prog.context as q:
        for k in range(n):
            ops.Sgate(0.2 + 0.1 * k, 0.3 * k) | q[k]
            ops.Dgate(0.1 * (k + 1), 0.2) | q[k]
        if n > 1:
            ops.BSgate(0.4, 0.2) | (q[0], q[n - 1])
        op_factory() | tuple(q[m] for m in modes)
    eng = sf.Engine("gaussian")
    st = eng.run(prog, compile_options={"compiler": compiler} if compiler else {}).state
    return st.means(), st.cov()


def sq_block(r, phi):
    c, s = np.cos(phi / 2), np.sin(phi / 2)
    R = np.array([[c, -s], [s, c]])
    return R @ np.diag([np.exp(-2 * r), np.exp(2 * r)]) @ R.T


def xxpp(blocks):
    n = len(blocks)
    M = np.zeros((2 * n, 2 * n))
    for k, v in enumerate(blocks):
        M[k, k], M[k, k + n], M[k + n, k], M[k + n, k + n] = v[0, 0], v[0, 1], v[1, 0], v[1, 1]
    return M


def compare(label, make_decomposed, make_native, modes, n):
    EVAL[0] += 1
    try:
        m1, c1 = run(make_decomposed, modes, n, None)
        m2, c2 = run(make_native, modes, n, None)
    except Exception as e:
        return bad(f"{label} on modes {modes}: raised {type(e).__name__}: {e}")
    err = max(abs(m1 - m2).max(), abs(c1 - c2).max())
    if err > 1e-7:
        bad(f"{label} on modes {modes}: decomposed and natively applied operation give different states (max difference {err:.3g})")


def check_every_gate_dagger(rng):
    """for EVERY Gate subclass of ops.py (found by introspection): the gate followed by its .H form is the identity on a
    correlated non-vacuum state, whether it is applied natively or through its decomposition; the commands of a decomposition do
    not share operation objects (Gate.decompose flips the inverse flag of each command in place)"""
    import inspect
    from strawberryfields.program_utils import RegRef
    ARGS = {"Dgate": (0.3, 0.4), "Xgate": (0.4,), "Zgate": (-0.3,), "Sgate": (0.3, 0.5), "Rgate": (0.6,), "Pgate": (0.3,), "Vgate": (0.1,),
            "Kgate": (0.2,), "Fouriergate": (), "BSgate": (0.4, 0.7), "MZgate": (0.5, 0.9), "sMZgate": (0.4, 1.3), "S2gate": (0.3, 0.6),
            "CXgate": (0.3,), "CZgate": (-0.4,), "CKgate": (0.2,)}
    NON_GAUSSIAN = {"Vgate", "Kgate", "CKgate"}
    SKIP = {"Ggate"}                        # needs a symplectic matrix argument; covered through GaussianTransform
    names = sorted(n for n, c in inspect.getmembers(ops, inspect.isclass)
                   if c.__module__ == ops.__name__ and issubclass(c, ops.Gate) and c is not ops.Gate and not n.startswith("_"))
    for name in names:
        if name in SKIP:
            continue
        if name not in ARGS:
            bad(f"gate class {name} has no argument pattern in the stand-in (new class?)")
            continue
        cls = getattr(ops, name)
        ns = cls.ns if cls.ns else 1
        for modes in ([(0,), (2,)] if ns == 1 else [(0, 1), (2, 0)]):
            EVAL[0] += 1
            g = cls(*ARGS[name])
            # decomposition products are distinct objects
            if hasattr(g, "_decompose") and type(g)._decompose is not ops.Operation._decompose:
                try:
                    cmds = g._decompose([RegRef(m) for m in modes])
                    if len({id(c.op) for c in cmds}) != len(cmds):
                        bad(f"{name}._decompose puts one operation object into several commands (inverting the decomposition flips its flag twice)")
                except NotImplementedError:
                    pass
            backend = "fock" if name in NON_GAUSSIAN else "gaussian"
            kw = {"cutoff_dim": 10} if backend == "fock" else {}
            def state(with_gate):
                prog = sf.Program(3)
                with prog.context as q:
                    for k in range(3):
                        ops.Sgate(0.15 + 0.05 * k, 0.3 * k) | q[k]
                        ops.Dgate(0.1 * (k + 1), 0.2) | q[k]
                    ops.BSgate(0.4, 0.2) | (q[0], q[2])
                    if with_gate:
                        gg = cls(*ARGS[name])
                        gg | tuple(q[m] for m in modes)
                        gg.H | tuple(q[m] for m in modes)
                st = sf.Engine(backend, backend_options=kw).run(prog).state
                return np.array([st.quad_expectation(m, ph) for m in range(3) for ph in (0.0, 0.9, np.pi / 2)])
            try:
                a, b = state(False), state(True)
            except Exception as e:
                bad(f"{name} then {name}.H on modes {modes} ({backend}): raised {type(e).__name__}: {e}")
                continue
            tol = 3e-3 if backend == "fock" else 1e-8
            if name == "MZgate" and backend == "gaussian":
                pass
            if not np.allclose(a, b, atol=tol):
                bad(f"{name}{ARGS[name]} followed by its .H form on modes {modes} ({backend} backend) is not the identity (max moment change {abs(a - b).max():.3g})")


def embedded_moments(A, total_photons):
    """documented state of a graph embedding: the pure Gaussian state whose adjacency ('A') matrix is c*A with the scale c fixed
    by the requested total mean photon number.  Returns N = <a_i^+ a_j>, M = <a_i a_j> (independent numpy calculation)."""
    n = len(A)
    sv = np.linalg.svd(A, compute_uv=False)
    lo, hi = 0.0, (1 - 1e-12) / sv.max()
    for _ in range(200):
        c = (lo + hi) / 2
        tot = np.sum((c * sv) ** 2 / (1 - (c * sv) ** 2))
        lo, hi = (c, hi) if tot < total_photons else (lo, c)
    Ac = c * A
    # sigma_Q = (1 - X AA)^-1 with AA = diag(Ac, Ac*):  N = (1 - Ac* Ac)^-1 - 1 (transposed), M = Ac (1 - Ac* Ac)^-1
    G = np.linalg.inv(np.eye(n) - Ac.conj() @ Ac)
    return (G - np.eye(n)).T, Ac @ G


def state_moments(prog, n):
    st = sf.Engine("gaussian").run(prog).state
    cov = st.cov() / (sf.hbar / 2)
    X, P, XP = cov[:n, :n], cov[n:, n:], cov[:n, n:]
    Nm = (X + P + 1j * (XP - XP.T)) / 4 - np.eye(n) / 2
    Mm = (X - P + 1j * (XP + XP.T)) / 4
    return Nm, Mm, st.means()


def check_embeddings(rng):
    """GraphEmbed / BipartiteGraphEmbed decomposed and run from vacuum on permuted target modes: photon numbers (the requested
    mean photon number per mode is respected) and all second moments of the documented state"""
    A3 = np.array([[0.0, 1.0, 0.4], [1.0, 0.0, 0.7], [0.4, 0.7, 0.0]])
    B2 = np.array([[0.6, 0.2], [0.3, -0.5]])
    for mp in (1.0, 0.25, 1.7):
        for modes in ((0, 1, 2), (2, 0, 1)):
            EVAL[0] += 1
            prog = sf.Program(3)
            with prog.context as q:
                ops.GraphEmbed(A3, mean_photon_per_mode=mp) | tuple(q[m] for m in modes)
            try:
                Nm, Mm, mu = state_moments(prog, 3)
            except Exception as e:
                bad(f"GraphEmbed(mean_photon_per_mode={mp}) on modes {modes}: raised {type(e).__name__}: {e}")
                continue
            N0, M0 = embedded_moments(A3, 3 * mp)
            P = np.zeros((3, 3)); P[list(modes), range(3)] = 1          # operator index a -> register mode modes[a]
            N0r, M0r = P @ N0 @ P.T, P @ M0 @ P.T
            if abs(np.trace(Nm).real - 3 * mp) > 1e-6:
                bad(f"GraphEmbed(mean_photon_per_mode={mp}) on modes {modes}: total mean photon number {np.trace(Nm).real:.5f}, requested {3 * mp}")
            elif not (np.allclose(abs(Nm), abs(N0r), atol=1e-6) and np.allclose(abs(Mm), abs(M0r), atol=1e-6)):
                bad(f"GraphEmbed(mean_photon_per_mode={mp}) on modes {modes}: second moments differ from the documented state (|N| diff {abs(abs(Nm) - abs(N0r)).max():.3g}, |M| diff {abs(abs(Mm) - abs(M0r)).max():.3g})")
        for edges in (True, False):
            for modes in ((0, 1, 2, 3), (1, 3, 0, 2)):
                EVAL[0] += 1
                Afull = np.block([[np.zeros((2, 2)), B2], [B2.T, np.zeros((2, 2))]])
                prog = sf.Program(4)
                with prog.context as q:
                    ops.BipartiteGraphEmbed(B2 if edges else Afull, mean_photon_per_mode=mp, edges=edges) | tuple(q[m] for m in modes)
                try:
                    Nm, Mm, mu = state_moments(prog, 4)
                except Exception as e:
                    bad(f"BipartiteGraphEmbed(mean_photon_per_mode={mp}, edges={edges}) on modes {modes}: raised {type(e).__name__}: {e}")
                    continue
                N0, M0 = embedded_moments(Afull, 4 * mp)
                P = np.zeros((4, 4)); P[list(modes), range(4)] = 1
                N0r, M0r = P @ N0 @ P.T, P @ M0 @ P.T
                if abs(np.trace(Nm).real - 4 * mp) > 1e-6:
                    bad(f"BipartiteGraphEmbed(mean_photon_per_mode={mp}, edges={edges}) on modes {modes}: total mean photon number {np.trace(Nm).real:.5f}, requested {4 * mp}")
                elif not (np.allclose(abs(Nm), abs(N0r), atol=1e-6) and np.allclose(abs(Mm), abs(M0r), atol=1e-6)):
                    bad(f"BipartiteGraphEmbed(mean_photon_per_mode={mp}, edges={edges}) on modes {modes}: second moments differ from the documented state (|N| diff {abs(abs(Nm) - abs(N0r)).max():.3g}, |M| diff {abs(abs(Mm) - abs(M0r)).max():.3g})")


if __name__ == "__main__":
    rng = np.random.RandomState(seed)
    hb = sf.hbar
    try:
        check_embeddings(rng)
        check_every_gate_dagger(rng)
    except Exception:
        import traceback
        traceback.print_exc()
        print("bounded stand-in crashed")
        sys.exit(3)
    try:
        angles = np.linspace(-np.pi, np.pi, 9 if tier == "quick" else 25)
        for modes in ([0], [2]):
            for r in (0.4, 1.0):
                for expr in (np.exp(-2 * r), np.exp(2 * r)):
                    Vm = np.diag([expr, 1 / expr]) * hb / 2
                    compare(f"Gaussian(pure diagonal V_xx={expr:.3f})", lambda: ops.Gaussian(Vm), lambda: ops.Gaussian(Vm, decomp=False), modes, 3)
                for phi in angles:
                    Vm = sq_block(r, phi) * hb / 2
                    compare(f"Gaussian(rotated squeezed r={r}, phi={phi:.3f})", lambda: ops.Gaussian(Vm, r=np.array([0.3, -0.2])),
                            lambda: ops.Gaussian(Vm, r=np.array([0.3, -0.2]), decomp=False), modes, 3)
            Vm = np.eye(2) * 2.3 * hb / 2
            compare("Gaussian(thermal)", lambda: ops.Gaussian(Vm), lambda: ops.Gaussian(Vm, decomp=False), modes, 3)
            # diagonal covariance matrices of every kind: mixed with unequal quadrature variances (squeezed thermal), equal
            # ones (thermal), at the vacuum level in one quadrature only
            for vx, vp in ((0.9, 3.6), (3.6, 0.9), (1.0, 2.5), (2.5, 1.0), (0.5, 2.0 + 1e-3), (1.7, 1.7)):
                Vm = np.diag([vx, vp]) * hb / 2
                compare(f"Gaussian(diagonal V_xx={vx}, V_pp={vp})", lambda: ops.Gaussian(Vm, r=np.array([0.2, -0.1])),
                        lambda: ops.Gaussian(Vm, r=np.array([0.2, -0.1]), decomp=False), modes, 3)
        for modes in ([0, 1], [1, 0], [2, 0]):
            # products of different kinds of diagonal single-mode states: thermal x squeezed vacuum, thermal x squeezed thermal, ...
            for (ax, ap), (bx, bp) in (((2.4, 2.4), (np.exp(-1.0), np.exp(1.0))), ((2.4, 2.4), (2.7, 0.8)), ((0.8, 2.7), (2.7, 0.8)), ((1.0, 1.0), (3.0, 3.0))):
                Vm = np.diag([ax, bx, ap, bp]) * hb / 2
                compare(f"Gaussian(diagonal product ({ax:.3g},{ap:.3g}) x ({bx:.3g},{bp:.3g}))", lambda: ops.Gaussian(Vm), lambda: ops.Gaussian(Vm, decomp=False), modes, 3)
            for phi in angles[::2]:
                Vm = xxpp([sq_block(0.5, phi), sq_block(0.3, phi + 1.1)]) * hb / 2
                compare(f"Gaussian(two rotated blocks, phi={phi:.3f})", lambda: ops.Gaussian(Vm), lambda: ops.Gaussian(Vm, decomp=False), modes, 3)
            A = rng.randn(4, 4); Vm = (A @ A.T + np.eye(4)) * hb / 2
            # make it a valid covariance: symplectic-transform a thermal state instead of a random PSD matrix
            from thewalrus.random import random_symplectic
            S = random_symplectic(2)
            Vm = S @ np.diag([1.5, 2.0, 1.5, 2.0]) @ S.T * hb / 2
            compare("Gaussian(general mixed, Williamson)", lambda: ops.Gaussian(Vm), lambda: ops.Gaussian(Vm, decomp=False), modes, 3)
            Vp = S @ S.T * hb / 2
            compare("Gaussian(general pure)", lambda: ops.Gaussian(Vp), lambda: ops.Gaussian(Vp, decomp=False), modes, 3)
    except Exception:
        import traceback
        traceback.print_exc()
        print("bounded stand-in crashed")
        sys.exit(3)
    emit_bounded("c02_preps", EVAL[0], EVAL[0], [{"branches": ["pure diagonal x/p", "rotated block", "thermal", "general Williamson"]}], len(V))
    sys.exit(1 if V else 0)
