"""ghost LABELLED TENSORS: every axis carries (mode, 'k' | 'b'); einsum / transpose / tensordot are evaluated over labels
and the MEANING of each contraction is checked (only ket against bra of one mode may be summed).  Shared by the Fock
index-bookkeeping contracts (c16_fock_indices.py, c05_fock_prepare.py)."""
import types


class LT:
    """ghost tensor: labels[i] = (mode, 'k'|'b') of axis i; `bad` records a meaningless contraction"""
    def __init__(self, labels, bad=None, traced=()):
        self.labels, self.bad, self.traced = list(labels), bad, tuple(traced)
        self.shape = tuple(3 for _ in self.labels)
        self.ndim = len(self.labels)

    def conj(self):
        return LT([(m, "b" if s == "k" else "k") for m, s in self.labels], self.bad, self.traced)

    @property
    def real(self):
        return self

    def transpose(self, *perm):
        perm = perm[0] if len(perm) == 1 and not isinstance(perm[0], int) else perm
        return LT([self.labels[int(p)] for p in perm], self.bad, self.traced)

    def astype(self, *a, **k):
        return self

    def reshape(self, *shape):
        shape = shape[0] if len(shape) == 1 and not isinstance(shape[0], int) else shape
        return self if tuple(shape) == self.shape else LT([], f"reshape {self.shape} -> {tuple(shape)} is not modelled")


def tensordot(a, b, axes=0):
    if axes != 0:
        return LT([], "tensordot with axes != 0 is not modelled")
    return LT(a.labels + b.labels, a.bad or b.bad, a.traced + b.traced)


def einsum(eqn, *ops):
    eqn = eqn.replace(" ", "")
    lhs, _, rhs = eqn.partition("->")
    terms = lhs.split(",")
    bad = next((o.bad for o in ops if o.bad), None)
    traced = [t for o in ops for t in o.traced]
    if len(terms) != len(ops) or any(len(t) != o.ndim for t, o in zip(terms, ops)):
        return LT([], bad or f"einsum '{eqn}': operand ranks do not match")
    where = {}
    for t, o in zip(terms, ops):
        for ch, lab in zip(t, o.labels):
            where.setdefault(ch, []).append(lab)
    out = []
    for ch, labs in where.items():
        if ch in rhs:
            if len(labs) != 1:
                bad = bad or f"einsum '{eqn}': index {ch} is kept but appears {len(labs)} times"
        else:
            if len(labs) == 2 and labs[0][0] == labs[1][0] and {labs[0][1], labs[1][1]} == {"k", "b"}:
                traced.append(labs[0][0])
            else:
                bad = bad or f"einsum '{eqn}': index {ch} sums {labs} - not the ket and bra index of one mode"
    for ch in rhs:
        if ch not in where:
            return LT([], f"einsum '{eqn}': output index {ch} unknown")
        out.append(where[ch][0])
    if "->" not in eqn:
        out = []
    return LT(out, bad, traced)


def fake_np(real):
    ns = types.SimpleNamespace()
    ns.__dict__.update({k: getattr(real, k) for k in ("array", "argsort", "arange", "zeros", "sort", "pi", "sqrt", "exp", "conj", "dot", "vdot", "allclose", "ndarray")
                        if hasattr(real, k)})
    ns.einsum = einsum
    ns.tensordot = tensordot
    ns.transpose = lambda a, axes=None: a.transpose(*axes) if isinstance(a, LT) else real.transpose(a, axes)
    return ns
