"""Spec-side semantics of a list of Commands: the documented Heisenberg (Bogoliubov) action of
each primitive from the docstrings of strawberryfields/ops.py, composed in application order.

A Gaussian unitary acts on the mode operators as  a -> A a + B a^dag + delta.  In the xxpp
quadrature ordering (x = sqrt(hbar/2)(a + a^dag), p = -i sqrt(hbar/2)(a - a^dag)) this is
    S = [[Re(A+B), -Im(A-B)], [Im(A+B), Re(A-B)]],   d = sqrt(2 hbar) (Re delta, Im delta)
and a sequence U_m ... U_1 (U_1 applied first) composes to  S = S_m ... S_1,  d = S_m(...)+d_m.
The documented convention 'the inverse of a gate is obtained by negating its first parameter' is
what `dagger` means here.
"""
import numpy as np
import z3
from pyvc.api import *


def cplx(x):
    return x if isinstance(x, SC) else SC.lift(x)


def expi(m, phi):
    return SC(z3real(m.cos(phi)), z3real(m.sin(phi)))


def bogoliubov(name, p, m, hbar):
    """documented (A, B, delta) on the gate's own modes, as nested lists of SC"""
    Z, O = SC.lift(0), SC.lift(1)
    if name == "Dgate":
        r, phi = p
        return [[O]], [[Z]], [cplx(r) * expi(m, phi)]
    if name == "Xgate":
        return [[O]], [[Z]], [cplx(p[0] / m.sqrt(2 * hbar))]
    if name == "Zgate":
        return [[O]], [[Z]], [cplx(p[0] / m.sqrt(2 * hbar)) * SC.lift(1j)]
    if name == "Rgate":
        return [[expi(m, p[0])]], [[Z]], [Z]
    if name == "Fouriergate":
        return [[expi(m, p[0])]], [[Z]], [Z]
    if name == "Sgate":
        r, phi = p
        return [[cplx(m.cosh(r))]], [[-(expi(m, phi) * m.sinh(r))]], [Z]
    if name == "Pgate":
        s = p[0]
        return [[O + SC.lift(1j) * (s / 2)]], [[SC.lift(1j) * (s / 2)]], [Z]
    if name == "BSgate":
        th, phi = p
        c, s = m.cos(th), m.sin(th)
        e = expi(m, phi)
        return [[cplx(c), -(e.conjugate() * s)], [e * s, cplx(c)]], [[Z, Z], [Z, Z]], [Z, Z]
    if name == "S2gate":
        r, phi = p
        ch, sh = m.cosh(r), m.sinh(r)
        e = expi(m, phi)
        return [[cplx(ch), Z], [Z, cplx(ch)]], [[Z, e * sh], [e * sh, Z]], [Z, Z]
    if name == "CXgate":
        s = p[0]
        hs = cplx(s / 2)
        return [[O, -hs], [hs, O]], [[Z, hs], [hs, Z]], [Z, Z]
    if name == "CZgate":
        s = p[0]
        ih = SC.lift(1j) * (s / 2)
        return [[O, ih], [ih, O]], [[Z, ih], [ih, Z]], [Z, Z]
    if name == "MZgate":
        pin, pex = p
        ein, eex = expi(m, pin), expi(m, pex)
        half = SC.lift(0.5)
        i = SC.lift(1j)
        U = [[half * (ein - 1) * eex, half * i * (ein + 1)],
             [half * i * (ein + 1) * eex, half * (O - ein)]]
        return U, [[Z, Z], [Z, Z]], [Z, Z]
    if name == "sMZgate":
        # documented (class comment / Bell-Walmsley): local phase shifts R(phi_in - pi/2), R(phi_ex - pi/2) between two
        # 50-50 beamsplitters BS(pi/4, pi/2) = [[1, i], [i, 1]] / sqrt(2)
        pin, pex = p
        a, b = expi(m, pin - np.pi / 2), expi(m, pex - np.pi / 2)
        half = SC.lift(0.5)
        i = SC.lift(1j)
        U = [[half * (a - b), half * i * (a + b)],
             [half * i * (a + b), half * (b - a)]]
        return U, [[Z, Z], [Z, Z]], [Z, Z]
    raise Undecided(f"no documented Bogoliubov action for {name}")


def symplectic(name, p, modes, n, m, hbar):
    """(S, d): 2n x 2n object array and 2n vector, identity outside `modes`"""
    A, B, dl = bogoliubov(name, p, m, hbar)
    S = np.empty((2 * n, 2 * n), dtype=object)
    S.fill(0)
    for k in range(2 * n):
        S[k, k] = 1
    d = np.empty(2 * n, dtype=object)
    d.fill(0)
    w = m.sqrt(2 * hbar)
    for a, ma in enumerate(modes):
        for b, mb in enumerate(modes):
            P = A[a][b] + B[a][b]
            Q = A[a][b] - B[a][b]
            S[ma, mb] = P.real
            S[ma, mb + n] = -Q.imag
            S[ma + n, mb] = P.imag
            S[ma + n, mb + n] = Q.real
        d[ma] = w * dl[a].real
        d[ma + n] = w * dl[a].imag
    return S, d


def sem(seq, n, m, hbar=2):
    """documented action of a command list (first command applied first)"""
    S = np.empty((2 * n, 2 * n), dtype=object)
    S.fill(0)
    for k in range(2 * n):
        S[k, k] = 1
    d = np.empty(2 * n, dtype=object)
    d.fill(0)
    for cmd in seq:
        op = cmd.op
        name = type(op).__name__
        p = list(op.p)
        if getattr(op, "dagger", False):
            p[0] = -p[0]
        modes = [r.ind for r in cmd.reg]
        Sg, dg = symplectic(name, p, modes, n, m, hbar)
        S = Sg.dot(S)
        d = Sg.dot(d) + dg
    return S, d


def ensure_equal(h, tag, S1, d1, S2, d2):
    n2 = S1.shape[0]
    for a in range(n2):
        for b in range(n2):
            h.ensure(f"{tag}S[{a},{b}]", eqv(S1[a, b], S2[a, b]))
        h.ensure(f"{tag}d[{a}]", eqv(d1[a], d2[a]))


def inverse(S, d):
    """inverse of an affine symplectic map: S^-1 = Omega^T S^T Omega, d' = -S^-1 d"""
    n2 = S.shape[0]
    n = n2 // 2
    Om = np.empty((n2, n2), dtype=object)
    Om.fill(0)
    for k in range(n):
        Om[k, k + n] = 1
        Om[k + n, k] = -1
    Si = Om.T.dot(S.T).dot(Om)
    return Si, -(Si.dot(d))


def identity(n):
    S = np.empty((2 * n, 2 * n), dtype=object)
    S.fill(0)
    for k in range(2 * n):
        S[k, k] = 1
    d = np.empty(2 * n, dtype=object)
    d.fill(0)
    return S, d


def compose(S2, d2, S1, d1):
    """(S2,d2) after (S1,d1)"""
    return S2.dot(S1), S2.dot(d1) + d2
