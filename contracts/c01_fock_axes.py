"""C01 / C05 - Fock simulator axis bookkeeping (backends/fockbackend/circuit.py:Circuit.apply_twomode_gate).
The state tensor is replaced by a ghost AXIS TRACKER (a record of which original axis sits where; `transpose`
composes permutations exactly as numpy does) and the numba contraction kernels by recording stubs.  Contract: when a
kernel runs, the two leading axes of the state are the (ket, then bra) axes of the two target modes IN THE ORDER the
operator expects them, and the tensor handed back has every axis where it was (frame: no other mode is moved).
Enumerated: register sizes 2..5, every ordered pair of target modes, pure and mixed representation, both kernels
(shape-bounded: the tensor rank is a Python-level structure)."""
import itertools
import numpy as np
from pyvc.api import *

FC = "strawberryfields.backends.fockbackend.circuit"

native(["C01", "C05", "C07"], "c01_backends", "native/c01_backends.py",
       bound="12 gate classes (+dagger), LossChannel, ThermalLossChannel, 4 preparations on every (ordered) placement in 2- and 3-mode "
             "registers from a correlated displaced-squeezed input; gaussian / bosonic exact, fock cutoff 10 (2 modes) / 8 (3 modes), pure "
             "and mixed representation; C07: uncertainty relation, hermiticity, trace, positivity of the produced states", timeout=1500)


class Axes:
    """ghost state tensor: axes[i] = original axis now at position i"""
    def __init__(self, axes):
        self.axes = list(axes)

    def transpose(self, perm):
        perm = [int(p) for p in perm]
        assert sorted(perm) == list(range(len(self.axes)))
        return Axes([self.axes[p] for p in perm])


class Oper:
    """ghost operator tensor of a two-mode gate, index pairs (out_a, in_a, out_b, in_b)"""
    def __init__(self, axes=(0, 1, 2, 3), conj=False):
        self.axes, self.cj = tuple(axes), conj

    def transpose(self, *perm):
        perm = perm[0] if len(perm) == 1 and not isinstance(perm[0], int) else perm
        return Oper([self.axes[int(p)] for p in perm], self.cj)

    def conj(self):
        return Oper(self.axes, not self.cj)

    def first(self):
        """which of the gate's two modes the leading index pair refers to (0 or 1), None if the pairs are torn"""
        return {(0, 1, 2, 3): 0, (2, 3, 0, 1): 1}.get(self.axes)


from native.c01_backends_cases import AXIS_CASES as CASES


@proof(["C01", "C05"], FC + ":Circuit.apply_twomode_gate", native="from native.c01_backends import replay_axes; replay_axes(OBLIGATION, I)")
def _twomode_axes(h):
    fc = h.module(FC)
    k = h._reg("case", h.eng.choose(len(CASES), "case"))
    n, a, b, pure, gate = CASES[k]
    rank = n if pure else 2 * n
    calls = []

    def kernel(mat, state, trunc):
        calls.append((mat, list(state.axes)))
        return state
    c = h.new(fc.Circuit, _num_modes=n, _trunc=3, _pure=pure, _state=Axes(range(rank)))
    with h.stubbed(fc.Circuit, "_apply_two_mode_passive", staticmethod(kernel)), h.stubbed(fc.Circuit, "_apply_S2", staticmethod(kernel)):
        out = h.call(c.apply_twomode_gate, Oper(), [a, b], gate)
    h.ensure("no-exception", out.returned, bounded_shape=True)
    if not out.returned:
        return
    modes = (a, b)
    if pure:
        ok = len(calls) == 1
        for mat, axes in calls:
            f = mat.first()
            ok = ok and f is not None and not mat.cj and axes[0] == modes[f] and axes[1] == modes[1 - f]
        h.ensure("kernel-sees-the-two-target-modes-in-operator-order", ok, bounded_shape=True)
    else:
        ok = len(calls) == 2 and calls[0][0].cj != calls[1][0].cj
        for mat, axes in calls:
            f = mat.first()
            off = 1 if mat.cj else 0          # conjugated operator acts on the bra axes
            ok = ok and f is not None and axes[0] == 2 * modes[f] + off and axes[1] == 2 * modes[1 - f] + off
        h.ensure("kernel-sees-ket-then-bra-axes-of-the-target-modes-in-operator-order", ok, bounded_shape=True)
    h.ensure("every-axis-back-in-place", isinstance(out.value, Axes) and out.value.axes == list(range(rank)), bounded_shape=True)
