"""C18 - Program.__eq__ (strawberryfields/program.py) and program_equivalence (program_utils.py)

__eq__ is proved for circuits of ARBITRARY (symbolic) length: the two circuits are symbolic lists
whose elements are read-only stubs generated from the index (class tag, parameter list, register
list, dagger flag, select option are uninterpreted functions of the position).  Soundness clause
taken from the property statement: reported equal  ==>  same number of commands and, position by
position, same class, same parameters, same modes, same inverse flag, same post-selection.
"""
import z3
from pyvc.api import *

P = "strawberryfields.program"
PU = "strawberryfields.program_utils"


def make_side(h, side, RegRef):
    eng = h.eng
    I = z3.IntSort()
    cls_f = eng.fresh_fun(f"cls_{side}", I, I)
    dag_f = eng.fresh_fun(f"dag_{side}", I, z3.BoolSort())
    hasdag_f = eng.fresh_fun(f"hasdag_{side}", I, z3.BoolSort())
    np_f = eng.fresh_fun(f"np_{side}", I, I)
    p_f = eng.fresh_fun(f"p_{side}", I, I, z3.RealSort())
    nr_f = eng.fresh_fun(f"nr_{side}", I, I)
    r_f = eng.fresh_fun(f"r_{side}", I, I, I)
    sel_n = eng.fresh_fun(f"selnone_{side}", I, z3.BoolSort())
    sel_v = eng.fresh_fun(f"selval_{side}", I, I)
    q = eng.fresh("q", I, bound=True)
    eng.assume(z3.ForAll([q], z3.And(np_f(q) >= 0, nr_f(q) >= 0)))

    class OpStub:
        def __init__(self, i):
            self._i = i
            self.p = SList("real", lambda j: SV(p_f(i, j)), SV(np_f(i)))
            self.dagger = SV(dag_f(i))
            self.select = SOpt(sel_n(i), sel_v(i))
        __class__ = property(lambda self: SV(cls_f(self._i)))

    def regref(i, j):
        r = RegRef.__new__(RegRef)
        r.ind = SV(r_f(i, j))
        r.active = True
        r.val = None
        return r

    class CmdStub:
        def __init__(self, i):
            self.op = OpStub(i)
            self.reg = SList(("obj", lambda nm, j: regref(i, j)), lambda j: regref(i, j), SV(nr_f(i)))

    n = h.int(f"len_{side}", lo=0)
    circ = SList(("obj", None), lambda i: CmdStub(i), n)
    fns = dict(cls=cls_f, dag=dag_f, np=np_f, p=p_f, nr=nr_f, r=r_f, seln=sel_n, selv=sel_v, n=n)
    return circ, fns


def cmds_equal(A, B, i, strong=True):
    """command i of A and of B agree on everything the property lists"""
    j = z3.Int("ceq_j")
    base = [A["cls"](i) == B["cls"](i),
            A["np"](i) == B["np"](i),
            z3.ForAll([j], z3.Implies(z3.And(j >= 0, j < A["np"](i)), A["p"](i, j) == B["p"](i, j))),
            A["nr"](i) == B["nr"](i),
            z3.ForAll([j], z3.Implies(z3.And(j >= 0, j < A["nr"](i)), A["r"](i, j) == B["r"](i, j)))]
    return base


def same_at(A, B, i):
    """the property's per-position clause: same class, parameters, modes, inverse flag, post-selection"""
    j = z3.Int("inv_j")
    return z3.And(
        A["cls"](i) == B["cls"](i),
        A["np"](i) == B["np"](i),
        z3.ForAll([j], z3.Implies(z3.And(j >= 0, j < A["np"](i)), A["p"](i, j) == B["p"](i, j))),
        A["nr"](i) == B["nr"](i),
        z3.ForAll([j], z3.Implies(z3.And(j >= 0, j < A["nr"](i)), A["r"](i, j) == B["r"](i, j))),
        A["dag"](i) == B["dag"](i),
        A["seln"](i) == B["seln"](i), z3.Implies(z3.Not(A["seln"](i)), A["selv"](i) == B["selv"](i)))


def _eq_inv(v):
    A, B = v.ghost["A"], v.ghost["B"]
    i = z3.Int("inv_i")
    return SV(z3.ForAll([i], z3.Implies(z3.And(i >= 0, i < v.idx.t), same_at(A, B, i))))


loop_inv(P + ":Program.__eq__#0", inv=_eq_inv)


@proof("C18", P + ":Program.__eq__", name="Program.__eq__/soundness",
       native="from native.c18_eq import replay; replay('eq', OBLIGATION, I)")
def _eq(h):
    Program = h.cls(P, "Program")
    RegRef = h.cls(PU, "RegRef")
    cA, A = make_side(h, "a", RegRef)
    cB, B = make_side(h, "b", RegRef)
    h.ghost(A=A, B=B)
    tA, tB = h.int("target_a"), h.int("target_b")
    regs = {0: RegRef(0), 1: RegRef(1)}
    a = h.new(Program, _target=tA, reg_refs=dict(regs), circuit=cA)
    b = h.new(Program, _target=tB, reg_refs=dict(regs), circuit=cB)
    out = h.call(a.__eq__, b)
    h.ensure("no-exception", out.returned)
    if not out.returned:
        return
    res = out.value
    if res is not True and not (isinstance(res, SV)):
        h.ensure("returns-bool", res is False)
        return
    eq = True if res is True else res
    i = h.eng.fresh("pos", z3.IntSort())
    inr = z3.And(i >= 0, i < A["n"].t)
    j = z3.Int("post_j")
    h.ensure("equal=>target", Implies(eq, tA == tB))
    h.ensure("equal=>same-length", Implies(eq, A["n"] == B["n"]))
    h.ensure("equal=>same-class", Implies(And(eq, SV(inr), SV(i < B["n"].t)), SV(A["cls"](i) == B["cls"](i))))
    h.ensure("equal=>same-param-count", Implies(And(eq, SV(inr), SV(i < B["n"].t)), SV(A["np"](i) == B["np"](i))))
    h.ensure("equal=>same-params", Implies(And(eq, SV(inr), SV(i < B["n"].t)),
             SV(z3.ForAll([j], z3.Implies(z3.And(j >= 0, j < A["np"](i)), A["p"](i, j) == B["p"](i, j))))))
    h.ensure("equal=>same-mode-count", Implies(And(eq, SV(inr), SV(i < B["n"].t)), SV(A["nr"](i) == B["nr"](i))))
    h.ensure("equal=>same-modes", Implies(And(eq, SV(inr), SV(i < B["n"].t)),
             SV(z3.ForAll([j], z3.Implies(z3.And(j >= 0, j < A["nr"](i)), A["r"](i, j) == B["r"](i, j))))))
    h.ensure("equal=>same-dagger", Implies(And(eq, SV(inr), SV(i < B["n"].t)), SV(A["dag"](i) == B["dag"](i))))
    h.ensure("equal=>same-select", Implies(And(eq, SV(inr), SV(i < B["n"].t)),
             SV(z3.And(A["seln"](i) == B["seln"](i), z3.Implies(z3.Not(A["seln"](i)), A["selv"](i) == B["selv"](i))))))


# =====================================================================================
# program_equivalence: node attributes + node_match.  The attributes of a DAG node are computed
# from that node alone, and networkx's is_isomorphic (library contract: returns True only if
# there is an edge-preserving bijection f with node_match(attr(n), attr(f(n))) for every n) is
# executed for real on one-command programs; the obligation is what node_match must imply:
# same class, parameters within tolerance, same modes (ordered for order-sensitive gates,
# as a set otherwise), same inverse flag.
# =====================================================================================
OPS = "strawberryfields.ops"
ALPHABET = [("Sgate", 2, 1), ("Rgate", 1, 1), ("BSgate", 2, 2), ("CXgate", 1, 2), ("S2gate", 2, 2)]


def one_cmd_program(h, tag, cls, npar, modes, nmodes=3):
    ops, pu, prg = h.module(OPS), h.module(PU), h.module(P)
    prog = prg.Program(nmodes)
    ps = [h.real(f"{tag}_p{k}") for k in range(npar)]
    op = getattr(ops, cls)(*ps)
    dg = h.bool(f"{tag}_dagger")
    op.dagger = dg
    prog.circuit.append(pu.Command(op, [prog.reg_refs[m] for m in modes]))
    return prog, ps, dg


def _mode_choices(ns):
    return [(0,), (1,)] if ns == 1 else [(0, 1), (1, 0), (1, 2)]


for (cls, npar, ns) in ALPHABET:
    for m1 in _mode_choices(ns):
        for m2 in _mode_choices(ns):
            def mk(cls=cls, npar=npar, ns=ns, m1=m1, m2=m2):
                def fn(h):
                    pu = h.module(PU)
                    p1, ps1, d1 = one_cmd_program(h, "a", cls, npar, m1)
                    p2, ps2, d2 = one_cmd_program(h, "b", cls, npar, m2)
                    h.trust("library: networkx.is_isomorphic(G1, G2, node_match) is True only if a bijection f with node_match(attr(n), attr(f(n))) exists")
                    out = h.call(pu.program_equivalence, p1, p2)
                    h.ensure("no-exception", out.returned)
                    if not out.returned:
                        return
                    eq = out.value
                    close = And(*[abs(a - b) <= 1e-6 for a, b in zip(ps1, ps2)])
                    h.ensure("equiv=>params-close", Implies(eq, close))
                    same_set = sorted(m1) == sorted(m2)
                    same_order = tuple(m1) == tuple(m2)
                    h.ensure("equiv=>same-mode-set", Implies(eq, same_set), finding="F6")
                    if cls in ("CXgate", "BSgate") and same_set and not same_order:
                        # order-sensitive unless the gate happens to be symmetric (CX(0), BS(pi/4, pi/2))
                        if cls == "BSgate":
                            # B(theta,phi) on (a,b) equals B(theta,phi) on (b,a) iff sin(theta)=0 or phi = pi/2 (mod pi)
                            # (documented action a -> a cos - b e^{-i phi} sin); equivalence of swapped-order
                            # beamsplitters is only sound for such gates (tolerance 1e-6 as for parameters)
                            import numpy as _np
                            r1 = ps1[1] % _np.pi
                            r2 = ps2[1] % _np.pi
                            h.ensure("equiv=>same-order-unless-symmetric",
                                     Implies(eq, Or(abs(r1 - _np.pi / 2) <= 1e-4, abs(r2 - _np.pi / 2) <= 1e-4)))
                        if cls == "CXgate":
                            # CX(s) with |s| below the comparison tolerance is the identity up to that tolerance
                            symmetric = Or(abs(ps1[0]) <= 1e-8, abs(ps2[0]) <= 1e-8)
                            h.ensure("equiv=>same-order-unless-trivial", Implies(eq, Or(same_order, symmetric)))
                    h.ensure("equiv=>same-dagger", Implies(eq, eqv(d1, d2)), finding="F6")
                fn.__name__ = ""
                return fn
            PROOFS.append(Proof("C18", PU + ":program_equivalence", mk(),
                                name=f"program_equivalence/{cls}/{''.join(map(str, m1))}-vs-{''.join(map(str, m2))}",
                                native="from native.c18_eq import replay; replay('equiv', OBLIGATION, I)"))


@proof("C18", PU + ":program_equivalence", name="program_equivalence/reflexive-shortcut")
def _refl(h):
    pu = h.module(PU)
    p1, ps1, d1 = one_cmd_program(h, "a", "Sgate", 2, (0,))
    out = h.call(pu.program_equivalence, p1, p1)
    h.ensure("reflexive", out.returned and out.value is True)


# =====================================================================================
# program_equivalence on programs of SEVERAL commands: the labelled graphs handed to networkx.
# is_isomorphic is replaced by a recorder; contract (shape-bounded: the circuits are fixed shapes of 2-3 commands of
# pairwise different classes, every parameter and every inverse flag symbolic):
#   * each circuit is handed over as a graph with one node per command; the node of command c carries c's OWN class
#     name, c's own inverse flag, c's own evaluated parameters and c's own modes (ordered for an order-sensitive
#     gate unless it is symmetric within the tolerances the code documents, sorted otherwise);
#   * the edges are those of the dependency graph of the circuit (list_to_DAG, under contract for C04);
#   * the verdict of networkx is returned unchanged.
# With the library contract of is_isomorphic this gives: reported equivalent ==> a dependency-preserving bijection of
# the commands that preserves class, inverse flag, modes and (within atol) parameters.
# =====================================================================================
MULTI = [
    [("Sgate", 2, (0,)), ("Rgate", 1, (0,))],
    [("Sgate", 2, (0,)), ("Rgate", 1, (1,))],
    [("Rgate", 1, (1,)), ("Sgate", 2, (0,)), ("BSgate", 2, (0, 1))],
    [("BSgate", 2, (1, 0)), ("CXgate", 1, (1, 2)), ("Sgate", 2, (2,))],
    [("S2gate", 2, (0, 2)), ("Rgate", 1, (1,)), ("CXgate", 1, (2, 1))],
    [("CXgate", 1, (0, 1)), ("BSgate", 2, (1, 2)), ("S2gate", 2, (2, 0))],
    [("Sgate", 2, (1,)), ("MeasureFock", 0, (1,)), ("Rgate", 1, (0,))],
]


def multi_program(h, tag, spec, nmodes=3):
    ops, pu, prg = h.module(OPS), h.module(PU), h.module(P)
    prog = prg.Program(nmodes)
    truth = {}
    for k, (cls, npar, modes) in enumerate(spec):
        ps = [h.real(f"{tag}{k}_p{j}") for j in range(npar)]
        op = getattr(ops, cls)(*ps)
        dg = False
        if hasattr(op, "dagger"):
            dg = h.bool(f"{tag}{k}_dagger")
            op.dagger = dg
        prog.circuit.append(pu.Command(op, [prog.reg_refs[m] for m in modes]))
        truth[cls] = (ps, dg, modes, k)
    return prog, truth


def _multi(ca, cb, compare_params=True):
    def fn(h):
        import numpy as _np
        pu = h.module(PU)
        pa, ta = multi_program(h, "a", MULTI[ca])
        pb, tb = multi_program(h, "b", MULTI[cb])
        seen = []

        def recorder(G1, G2, node_match=None, **kw):
            seen.append((G1, G2, node_match))
            return True
        with h.stubbed(pu.nx, "is_isomorphic", recorder):
            out = h.call(pu.program_equivalence, pa, pb) if compare_params else h.call(pu.program_equivalence, pa, pb, compare_params=False)
        h.ensure("no-exception", out.returned, bounded_shape=True)
        if not out.returned or len(seen) != 1:
            h.ensure("one-isomorphism-query-decides", False, bounded_shape=True)
            return
        h.ensure("verdict-of-the-isomorphism-query-returned", out.value is True, bounded_shape=True)
        for side, G, truth, prog in (("a", seen[0][0], ta, pa), ("b", seen[0][1], tb, pb)):
            nodes = dict(G.nodes(data=True))
            h.ensure(f"{side}.one-node-per-command", len(nodes) == len(truth), bounded_shape=True)
            by_name = {}
            for n, a in nodes.items():
                by_name.setdefault(a.get("name"), []).append(n)
            idx = {}
            for cls, (ps, dg, modes, k) in truth.items():
                ok = len(by_name.get(cls, [])) == 1
                h.ensure(f"{side}.{cls}.exactly-one-node-carries-its-class-name", ok, bounded_shape=True)
                if not ok:
                    continue
                n = by_name[cls][0]
                idx[k] = n
                a = nodes[n]
                h.ensure(f"{side}.{cls}.node-carries-its-own-inverse-flag", eqv(a.get("dagger"), dg), bounded_shape=True)
                if compare_params:
                    pv = list(a.get("p", []))
                    h.ensure(f"{side}.{cls}.node-carries-its-own-parameter-count", len(pv) == len(ps), bounded_shape=True)
                    for j, (x, y) in enumerate(zip(pv, ps)):
                        h.ensure(f"{side}.{cls}.node-carries-its-own-parameter[{j}]", eqv(x, y), bounded_shape=True)
                w = list(a.get("w", []))
                if w == list(modes):
                    h.ensure(f"{side}.{cls}.node-carries-its-own-modes", True, bounded_shape=True)
                else:
                    h.ensure(f"{side}.{cls}.node-carries-its-own-modes", w == sorted(modes), bounded_shape=True)
                    if cls == "CXgate":
                        h.ensure(f"{side}.{cls}.order-dropped-only-for-a-trivial-gate", abs(ps[0]) <= 1e-8, bounded_shape=True)
                    if cls == "BSgate":
                        h.ensure(f"{side}.{cls}.order-dropped-only-for-a-symmetric-gate", abs(ps[1] % _np.pi - _np.pi / 2) <= 1e-4, bounded_shape=True)
            # edges = dependencies of the circuit (consecutive commands on a shared mode)
            want = set()
            cmds = prog.circuit
            for i in range(len(cmds)):
                for j in range(i + 1, len(cmds)):
                    shared = set(r.ind for r in cmds[i].reg) & set(r.ind for r in cmds[j].reg)
                    between = set().union(*[set(r.ind for r in cmds[m].reg) for m in range(i + 1, j)]) if j > i + 1 else set()
                    if shared - between:
                        want.add((i, j))
            if len(idx) == len(truth):
                got = set(G.edges())
                h.ensure(f"{side}.edges-are-the-dependencies-of-the-circuit", got == {(idx[i], idx[j]) for i, j in want}, bounded_shape=True)
        # node_match: what a match implies
        nm = seen[0][2]
        x = {"name": "Sgate", "dagger": h.bool("m1_dagger"), "w": [0], "p": [h.real("m1_p0"), h.real("m1_p1")]}
        y = {"name": "Sgate", "dagger": h.bool("m2_dagger"), "w": [0], "p": [h.real("m2_p0"), h.real("m2_p1")]}
        res = h.call(nm, x, y)
        h.ensure("node_match.no-exception", res.returned, bounded_shape=True)
        if res.returned:
            r = res.value
            h.ensure("node_match=>same-inverse-flag", Implies(r, eqv(x["dagger"], y["dagger"])), bounded_shape=True)
            if compare_params:
                h.ensure("node_match=>parameters-within-tolerance", Implies(r, And(abs(x["p"][0] - y["p"][0]) <= 1e-6, abs(x["p"][1] - y["p"][1]) <= 1e-6)), bounded_shape=True)
            else:
                # structure-only comparison: parameters are ignored, everything else still has to agree
                same_flag = Or(And(x["dagger"], y["dagger"]), And(Not(x["dagger"]), Not(y["dagger"])))
                h.ensure("node_match-without-parameters=>same-inverse-flag", Implies(r, same_flag), bounded_shape=True)
                h.ensure("node_match-without-parameters<=same-class-flag-and-modes", Implies(same_flag, r), bounded_shape=True)
            for key, val in (("name", "Rgate"), ("w", [1])):
                z = dict(y)
                z[key] = val
                r2 = h.call(nm, x, z)
                h.ensure(f"node_match=>same-{key}", r2.returned and (r2.value is False or Not(r2.value)), bounded_shape=True)
    fn.__name__ = ""
    return fn


for _ca, _cb in [(2, 2), (3, 3), (5, 5), (0, 1)]:
    PROOFS.append(Proof("C18", PU + ":program_equivalence", _multi(_ca, _cb, compare_params=False),
                        name=f"program_equivalence/labelled-graph/structure-only/circuit{_ca}-vs-circuit{_cb}",
                        native="from native.c18_eq import replay; replay('multi', OBLIGATION, I)"))
for _ca, _cb in [(0, 0), (1, 1), (2, 2), (3, 3), (4, 4), (5, 5), (6, 6), (0, 1), (2, 3), (4, 5)]:
    PROOFS.append(Proof("C18", PU + ":program_equivalence", _multi(_ca, _cb),
                        name=f"program_equivalence/labelled-graph/circuit{_ca}-vs-circuit{_cb}",
                        native="from native.c18_eq import replay; replay('multi', OBLIGATION, I)"))
