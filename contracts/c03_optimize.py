"""C03 - circuit optimisation: merge rules (ops.py Gate.merge / Channel.merge / Preparation.merge) and
program_utils.optimize_circuit.

Merge rules are proved for ALL parameter values and both dagger flags: the real merge() is run on
operations with symbolic parameters; `result is None` must mean that the composition of the two
documented actions is the identity, otherwise the documented action of the result must equal the
composition (other after self); self, other and their parameter lists are not modified and the
result is a fresh object.  optimize_circuit is run for real on circuits of fixed shape with all
parameters symbolic and the documented action of its output compared with that of its input
(shape-bounded, reported separately).
"""
import sys, os
sys.path.insert(0, os.path.dirname(__file__))
import numpy as np
import z3
from pyvc.api import *
import _circuit_sem as cs

OPS = "strawberryfields.ops"
PU = "strawberryfields.program_utils"

# one-parameter families by their documented definition exp(p0 * G(p1..)): (class, nparams, ns)
FAMILIES = [("Dgate", 2, 1), ("Xgate", 1, 1), ("Zgate", 1, 1), ("Sgate", 2, 1), ("Pgate", 1, 1), ("Rgate", 1, 1),
            ("BSgate", 2, 2), ("S2gate", 2, 2), ("CXgate", 1, 2), ("CZgate", 1, 2)]
NOT_ADDITIVE = [("Fouriergate", 0, 1, None), ("MZgate", 2, 2, "F4c")]


def doc_sem(cls, p, dagger, n, m):
    modes = list(range(n))
    pp = list(p)
    if cls == "Fouriergate":
        pp = [np.pi / 2]              # documented: F = R(pi/2), whatever its parameter list holds
    S, d = cs.symplectic(cls, pp, modes, n, m, 2)
    if dagger:
        S, d = cs.inverse(S, d)
    return S, d


def merge_case(h, cls, npar, ns, fid=None):
    ops = h.module(OPS)
    m = h.eng.math
    for k_, v_ in (("cls", cls), ("npar", npar), ("ns", ns)):
        h._reg(k_, v_)
    shared = [h.real(f"s{k}") for k in range(1, npar)]
    a0, b0 = (h.real("a0"), h.real("b0")) if npar >= 1 else (None, None)
    C = getattr(ops, cls)
    A = C(*([a0] + shared)) if npar else C()
    B = C(*([b0] + shared)) if npar else C()
    da, db = h.bool("dagger_a"), h.bool("dagger_b")
    # concrete flags per path (the code branches on them)
    A.dagger = bool(da)
    B.dagger = bool(db)
    pa, pb = list(A.p), list(B.p)
    if npar:
        # instantiate the (true) facts about the angle / squeezing sum and difference: if it vanishes its
        # cos/sin (cosh/sinh) are (1, 0)
        for t in (a0 + b0, a0 - b0):
            m.cos(t); m.cosh(t)
    out = h.call(A.merge, B)
    if out.exc is not None:
        h.ensure("raises-only-MergeFailure", out.raised("MergeFailure"), finding=fid)
        return
    res = out.value
    Sa, da_ = doc_sem(cls, pa, A.dagger, ns, m)
    Sb, db_ = doc_sem(cls, pb, B.dagger, ns, m)
    Sc, dc = cs.compose(Sb, db_, Sa, da_)      # other after self
    if res is None:
        Sr, dr = cs.identity(ns)
        tag = "None=>identity."
    else:
        Sr, dr = doc_sem(cls, list(res.p), res.dagger, ns, m)
        tag = "merged=composition."
        h.ensure("result-is-fresh", res is not A and res is not B, finding=fid)
        h.ensure("result-p-is-fresh-list", res.p is not A.p and res.p is not B.p, finding=fid)
    for r in range(2 * ns):
        for c in range(2 * ns):
            h.ensure(f"{tag}S[{r},{c}]", eqv(Sr[r, c], Sc[r, c]), finding=fid)
        h.ensure(f"{tag}d[{r}]", eqv(dr[r], dc[r]), finding=fid)
    # C03/C09: the merged operations are left untouched
    h.ensure("frame.self", len(A.p) == len(pa) and all(x is y for x, y in zip(A.p, pa)), finding=fid)
    h.ensure("frame.other", len(B.p) == len(pb) and all(x is y for x, y in zip(B.p, pb)), finding=fid)


for (cls, npar, ns) in FAMILIES:
    def mk(cls=cls, npar=npar, ns=ns):
        def f(h):
            merge_case(h, cls, npar, ns)
        f.__name__ = ""
        return f
    PROOFS.append(Proof(["C03", "C09"], OPS + ":Gate.merge", mk(), name=f"Gate.merge/{cls}",
                        native="from native.c01_backends import replay_merge; replay_merge(OBLIGATION, I)"))

for (cls, npar, ns, fid) in NOT_ADDITIVE:
    def mk(cls=cls, npar=npar, ns=ns, fid=fid):
        def f(h):
            merge_case(h, cls, npar, ns, fid)
        f.__name__ = ""
        return f
    PROOFS.append(Proof("C03", OPS + ":Gate.merge", mk(), name=f"Gate.merge/{cls}"))


# ---------------------------------------------------------------------------------------------
# Channel.merge: transmissivities compose by product (documented channel action on the moments:
# N -> T N + (1-T) nbar, M -> T M, alpha -> sqrt(T) alpha)
# ---------------------------------------------------------------------------------------------
def chan(T, nbar, st, m):
    N, M, al = st
    t = m.sqrt(T)
    return (T * N + (1 - T) * nbar, T * M, t * al)


@proof(["C03", "C09"], OPS + ":Channel.merge", name="Channel.merge/LossChannel")
def _loss_merge(h):
    ops = h.module(OPS)
    m = h.eng.math
    T1, T2 = h.real("T1"), h.real("T2")
    h.require(And(T1 >= 0, T1 <= 1, T2 >= 0, T2 <= 1))
    A, B = ops.LossChannel(T1), ops.LossChannel(T2)
    out = h.call(A.merge, B)
    h.ensure("no-exception", out.returned)
    if not out.returned:
        return
    st = (h.real("N"), h.complex("M"), h.complex("alpha"))
    seq = chan(T2, 0, chan(T1, 0, st, m), m)
    if out.value is None:
        # elided only when np.allclose(T1*T2, 1): the composition is the identity channel up to that tolerance
        h.ensure("None=>identity-within-tolerance", abs(T1 * T2 - 1) <= 2e-5)
    else:
        got = chan(out.value.p[0], 0, st, m)
        for nm, x, y in zip(("N", "M", "alpha"), got, seq):
            h.ensure(f"merged=composition.{nm}", eqv(x, y))
    h.ensure("frame", A.p[0] is T1 and B.p[0] is T2)


@proof(["C03", "C09"], OPS + ":Channel.merge", name="Channel.merge/ThermalLossChannel")
def _tloss_merge(h):
    ops = h.module(OPS)
    m = h.eng.math
    T1, T2, nb = h.real("T1"), h.real("T2"), h.real("nbar")
    h.require(And(T1 >= 0, T1 <= 1, T2 >= 0, T2 <= 1, nb >= 0))
    A, B = ops.ThermalLossChannel(T1, nb), ops.ThermalLossChannel(T2, nb)
    out = h.call(A.merge, B)
    h.ensure("no-exception", out.returned)
    if not out.returned:
        return
    st = (h.real("N"), h.complex("M"), h.complex("alpha"))
    seq = chan(T2, nb, chan(T1, nb, st, m), m)
    if out.value is None:
        h.ensure("None=>identity-within-tolerance", abs(T1 * T2 - 1) <= 2e-5)
    else:
        got = chan(out.value.p[0], out.value.p[1], st, m)
        for nm, x, y in zip(("N", "M", "alpha"), got, seq):
            h.ensure(f"merged=composition.{nm}", eqv(x, y))
        h.ensure("result-p-is-fresh-list", out.value.p is not A.p and out.value.p is not B.p)
    h.ensure("frame", A.p[0] is T1 and B.p[0] is T2 and A.p[1] is nb and B.p[1] is nb)


@proof(["C03", "C09"], OPS + ":Channel.merge", name="Channel.merge/MSgate")
def _ms_merge(h):
    """MSgate(r, phi, r_anc, eta, avg): documented as (measurement-based) squeezing by r; two of them compose to
    squeezing by r1 + r2 (same phase), never to squeezing by r1 * r2"""
    ops = h.module(OPS)
    r1, r2, phi = h.real("r1"), h.real("r2"), h.real("phi")
    A, B = ops.MSgate(r1, phi, 10.0, 1.0, True), ops.MSgate(r2, phi, 10.0, 1.0, True)
    out = h.call(A.merge, B)
    if out.exc is not None:
        h.ensure("raises-only-MergeFailure", out.raised("MergeFailure"), finding=None)
        return
    if out.value is None:
        h.ensure("None=>target-squeezings-cancel", r1 + r2 == 0, finding=None)
    else:
        h.ensure("merged-target-squeezing-adds", eqv(out.value.p[0], r1 + r2), finding=None)


native(["C03"], "c04_reorder", "native/c04_reorder.py",
       bound="optimize_circuit on all sequences of length <= 3 (quick) / 4 (thorough) over the 13-symbol alphabet incl. feed-forward gates: no duplicated/lost measured-parameter command, dependency order kept",
       timeout=900)


# ---------------------------------------------------------------------------------------------
# optimize_circuit: shape-bounded, all parameter values
# ---------------------------------------------------------------------------------------------
OPT_CIRCUITS = {
    "R-R": [("Rgate", 1, (0,), False), ("Rgate", 1, (0,), False)],
    "S-S.H": [("Sgate", 2, (0,), False), ("Sgate", 2, (0,), True)],
    "R-BS-R": [("Rgate", 1, (0,), False), ("BSgate", 2, (0, 1), False), ("Rgate", 1, (0,), False)],
    "R0-R1-R0": [("Rgate", 1, (0,), False), ("Rgate", 1, (1,), False), ("Rgate", 1, (0,), False)],
    "D-S-D": [("Dgate", 2, (0,), False), ("Sgate", 2, (0,), False), ("Dgate", 2, (0,), False)],
    "R-R-R": [("Rgate", 1, (1,), False), ("Rgate", 1, (1,), True), ("Rgate", 1, (1,), False)],
    "BS-BS": [("BSgate", 2, (0, 1), False), ("BSgate", 2, (0, 1), True)],
}


def optimize_case(h, circ, share_tail=False):
    ops, pu = h.module(OPS), h.module(PU)
    m = h.eng.math
    n = max(x for _, _, ms, _ in circ for x in ms) + 1
    q = [pu.RegRef(k) for k in range(n)]
    seq = []
    first_params = {}
    for k, (cls, npar, ms, dg) in enumerate(circ):
        ps = [h.real(f"c{k}p{t}") for t in range(npar)]
        # same-class gates share their trailing parameters (otherwise merge refuses, which is also explored)
        if share_tail and cls in first_params:
            ps = [ps[0]] + first_params[cls][1:]
        first_params.setdefault(cls, ps)
        op = getattr(ops, cls)(*ps)
        if dg:
            op = op.H
        seq.append(pu.Command(op, [q[x] for x in ms]))
    before = [(c.op, list(c.op.p), c.op.dagger, list(c.reg)) for c in seq]
    # instantiate the (true) zero-argument facts for every signed sum of the first parameters of same-class
    # gates and every difference of their other parameters (the optimiser branches on such sums being 0 / equal)
    import itertools
    groups = {}
    for c in seq:
        groups.setdefault(type(c.op).__name__, []).append(c.op)
    for cls_, opsl in groups.items():
        if len(opsl) < 2 or not opsl[0].p:
            continue
        for k_ in range(2, len(opsl) + 1):
            for sub in itertools.combinations(opsl, k_):
                for signs in itertools.product((1, -1), repeat=k_ - 1):
                    t = sub[0].p[0]
                    for sg, o in zip(signs, sub[1:]):
                        t = t + sg * o.p[0]
                    m.cos(t); m.cosh(t)
        for a_, b_ in itertools.combinations(opsl, 2):
            for x_, y_ in zip(a_.p[1:], b_.p[1:]):
                if x_ is not y_:
                    m.cos(x_ - y_); m.cosh(x_ - y_)
    out = h.call(pu.optimize_circuit, list(seq))
    h.ensure("no-exception", out.returned, bounded_shape=True)
    if not out.returned:
        return
    res = out.value
    S0, d0 = cs.sem(seq, n, m, 2)
    S1, d1 = cs.sem(res, n, m, 2)
    for r in range(2 * n):
        for c in range(2 * n):
            h.ensure(f"same-action.S[{r},{c}]", eqv(S1[r, c], S0[r, c]), bounded_shape=True)
        h.ensure(f"same-action.d[{r}]", eqv(d1[r], d0[r]), bounded_shape=True)
    h.ensure("no-longer", len(res) <= len(seq), bounded_shape=True)
    # the input commands and their operations are left unmodified
    h.ensure("frame.input-ops", all(op.p == p and all(x is y for x, y in zip(op.p, p)) and op.dagger == dg and c.reg == rg
                                    for (op, p, dg, rg), c in zip(before, seq)), bounded_shape=True)


for cname, circ in OPT_CIRCUITS.items():
    for share in (False, True):
        def mk(circ=circ, share=share):
            def f(h):
                optimize_case(h, circ, share)
            f.__name__ = ""
            return f
        PROOFS.append(Proof(["C03", "C09"], PU + ":optimize_circuit", mk(), name=f"optimize_circuit/{cname}/{'shared-tail' if share else 'free'}",
                            uses=[OPS + ":Gate.merge"], max_paths=400))


# ---------------------------------------------------------------------------------------------
# optimize_circuit against ABSTRACT operations (modular: only the contract of merge is known).
# merge is documented as "self.merge(other) is the operation equivalent to applying self, then other": the
# optimiser must therefore call EARLIER.merge(LATER), keep the result at the position of the pair, and fold
# longer runs left to right.  The stub's merge builds the free (non-commutative) product, so any other call
# order, a lost factor or a moved result changes the word.  Order-sensitive real merges (two preparations, two
# single-mode GaussianTransforms) are covered by this contract.
# ---------------------------------------------------------------------------------------------
class AbstractOp:
    """operation with ns = 1 whose merge is the free product of words"""
    ns = 1

    def __init__(self, word, refuse=()):
        self.word, self.refuse = tuple(word), refuse
        self.p = []
        self.dagger = False
        self.measurement_deps = set()

    def merge(self, other):
        ops_mod = AbstractOp.ops_mod
        if not isinstance(other, AbstractOp) or (self.word[-1], other.word[0]) in self.refuse:
            raise ops_mod.MergeFailure("abstract refusal")
        return AbstractOp(self.word + other.word, self.refuse)

    def __str__(self):
        return "".join(self.word)


ABSTRACT_CASES = {
    "a-b": (["a", "b"], [0, 0], ()),
    "a-b-c": (["a", "b", "c"], [0, 0, 0], ()),
    "a-b-c-d": (["a", "b", "c", "d"], [0, 0, 0, 0], ()),
    "a0-x1-b0": (["a", "x", "b"], [0, 1, 0], ()),
    "a-b-refused-c": (["a", "b", "c"], [0, 0, 0], (("b", "c"),)),
    "a-refused-b-c": (["a", "b", "c"], [0, 0, 0], (("a", "b"),)),
    "two-wires": (["a", "x", "b", "y"], [0, 1, 0, 1], ()),
}


@proof("C03", PU + ":optimize_circuit", name="optimize_circuit/abstract-noncommutative-merge")
def _optimize_abstract(h):
    ops, pu = h.module(OPS), h.module(PU)
    AbstractOp.ops_mod = ops
    names = sorted(ABSTRACT_CASES)
    letters, wires, refuse = ABSTRACT_CASES[names[h.eng.choose(len(names), "case")]]
    q = [pu.RegRef(k) for k in range(max(wires) + 1)]
    seq = [pu.Command(AbstractOp([l], refuse), [q[w]]) for l, w in zip(letters, wires)]
    out = h.call(pu.optimize_circuit, list(seq))
    h.ensure("no-exception", out.returned, bounded_shape=True)
    if not out.returned:
        return
    res = out.value
    # per wire: the concatenation of the words, in order, is the word of the source (nothing lost, reordered or duplicated)
    for w in range(len(q)):
        src = "".join(l for l, ww in zip(letters, wires) if ww == w)
        got = "".join(str(c.op) for c in res if c.reg[0].ind == w)
        h.ensure(f"wire{w}.same-word-in-order", got == src, bounded_shape=True)
    # maximal merging: two neighbours on a wire are only left unmerged if merge refused them
    for w in range(len(q)):
        on = [c.op for c in res if c.reg[0].ind == w]
        h.ensure(f"wire{w}.neighbours-left-only-when-refused", all((a.word[-1], b.word[0]) in refuse for a, b in zip(on, on[1:])), bounded_shape=True)
    h.ensure("input-operations-untouched", all(c.op.word == (l,) for c, l in zip(seq, letters)), bounded_shape=True)


# ---------------------------------------------------------------- optimize_circuit with feed-forward among the abstract operations
FF_CASES = {
    # letters, wires, measured-parameter dependencies {letter: wire it depends on}; 'M' is a measurement (never merges)
    "M0-c1-m1": (["M", "c", "m"], [0, 1, 1], {"m": 0}),
    "M0-m1-c1": (["M", "m", "c"], [0, 1, 1], {"m": 0}),
    "g0-M0-c1-m1": (["g", "M", "c", "m"], [0, 0, 1, 1], {"m": 0}),
    "c1-g0-M0-m1": (["c", "g", "M", "m"], [1, 0, 0, 1], {"m": 0}),
    "M0-m1-n1": (["M", "m", "n"], [0, 1, 1], {"m": 0, "n": 0}),
    "M0-c1-m1-d1": (["M", "c", "m", "d"], [0, 1, 1, 1], {"m": 0}),
    "M0-N2-m1-n1": (["M", "N", "m", "n"], [0, 2, 1, 1], {"m": 0, "n": 2}),
    "M0-m1-M0'-n1": (["M", "m", "N", "n"], [0, 1, 0, 1], {"m": 0, "n": 0}),
}


class FFOp(AbstractOp):
    def __init__(self, word, deps=(), measure=False):
        AbstractOp.__init__(self, word)
        self.measurement_deps = set(deps)
        self.measure = measure

    def merge(self, other):
        if self.measure or getattr(other, "measure", False) or not isinstance(other, FFOp):
            raise AbstractOp.ops_mod.MergeFailure("abstract refusal")
        return FFOp(self.word + other.word, self.measurement_deps | other.measurement_deps)


@proof(["C03", "C04", "C10"], PU + ":optimize_circuit", name="optimize_circuit/abstract-feed-forward",
       native="from native.c03_replay import replay; replay(OBLIGATION, I)")
def _optimize_ff(h):
    """abstract operations some of which carry measured-parameter dependencies: whatever is merged, every letter of the
    source occurs exactly once in the result, per wire in the source order, and every operation that uses a measured
    value comes after the measurement that produces it (and before a later measurement of the same mode)"""
    ops, pu = h.module(OPS), h.module(PU)
    AbstractOp.ops_mod = ops
    names = sorted(FF_CASES)
    letters, wires, deps = FF_CASES[names[h._reg("case", h.eng.choose(len(names), "case"))]]
    q = [pu.RegRef(k) for k in range(max(wires) + 1)]
    seq = [pu.Command(FFOp([l], [q[deps[l]]] if l in deps else (), measure=l in ("M", "N")), [q[w]]) for l, w in zip(letters, wires)]
    out = h.call(pu.optimize_circuit, list(seq))
    h.ensure("no-exception", out.returned, bounded_shape=True)
    if not out.returned:
        return
    res = out.value
    flat = "".join(str(c.op) for c in res)
    h.ensure("every-source-operation-occurs-exactly-once", sorted(flat) == sorted(letters), bounded_shape=True)
    for w in range(len(q)):
        src = "".join(l for l, ww in zip(letters, wires) if ww == w)
        got = "".join(str(c.op) for c in res if c.reg[0].ind == w)
        h.ensure(f"wire{w}.same-word-in-order", got == src, bounded_shape=True)
    # a user of a measured value sits between the measurement that precedes it in the source and the next one of that mode
    pos = {l: k for k, c in enumerate(res) for l in str(c.op)}
    for l, dw in deps.items():
        if l not in pos:
            continue
        k = letters.index(l)
        before = [m for m, ww in zip(letters[:k], wires[:k]) if ww == dw and m in ("M", "N")]
        after = [m for m, ww in zip(letters[k + 1:], wires[k + 1:]) if ww == dw and m in ("M", "N")]
        ok = all(pos.get(m, -1) < pos[l] for m in before[-1:]) and all(pos.get(m, 10 ** 6) > pos[l] for m in after[:1])
        h.ensure(f"user-{l}-of-the-outcome-of-wire{dw}-stays-after-its-measurement", ok, bounded_shape=True)
    for c in res:
        want = set()
        for l in str(c.op):
            if l in deps:
                want.add(q[deps[l]])
        h.ensure(f"{c.op}.keeps-the-dependencies-of-its-parts", set(c.op.measurement_deps) == want, bounded_shape=True)
    h.ensure("input-operations-untouched", all(c.op.word == (l,) for c, l in zip(seq, letters)), bounded_shape=True)
