"""C06 - measurements: units, storage and collation are PROVED; the Born-distribution / conditional-state clauses
are a BOUNDED stand-in (native/c06_measure.py) because they run through LAPACK inverses, thewalrus kernels and the
random generator (the contract can only pin the generator's arguments; that is what the stand-in records).
(MeasureHomodyne unit conversion: contracts/c15_hbar.py, tagged C06 as well.)
"""
import numpy as np
import z3
from pyvc.api import *

OPS = "strawberryfields.ops"
PU = "strawberryfields.program_utils"
ENG = "strawberryfields.engine"

level("C06", "other",
      "Proved: MeasureHomodyne unit conversion (select handed to the backend hbar-free, outcome scaled by sqrt(hbar/2)), "
      "Measurement.apply stores column j of the backend's outcome array in reg[j].val for every shot count and stores nothing "
      "when shots is None, LocalEngine._combine_and_sort_samples returns one row per shot with the LATEST outcome of each "
      "measured mode in ascending mode order. Bounded stand-in (not counted as proved): arguments handed to "
      "numpy.random.multivariate_normal / numpy.random.choice equal the Born distribution of the pre-measurement state, "
      "Schur-complement conditional states for the returned outcome, vacuum reset, every ordered subset of measured modes on "
      "the Fock backend with every outcome forced, cross-backend agreement of post-selected conditional states, collation. "
      "The distributional claim itself (the draw IS Born distributed) is a statement about the RNG and is not covered.",
      trusted=["numpy.random.*: opaque draw; only its arguments are constrained"])

native(["C06", "C05"], "c06_measure", "native/c06_measure.py",
       bound="2- and 3-mode correlated states; homodyne at 3 angles + heterodyne on every mode; Fock cutoff 3 with all ordered subsets and all outcomes; 3 backends",
       timeout=900)


class ValBackend:
    def __init__(self, values):
        self.values = values


@proof("C06", OPS + ":Measurement.apply")
def _meas_apply(h):
    ops, pu = h.module(OPS), h.module(PU)
    nm = h.eng.choose(3, "nmodes") + 1
    shots = h.eng.choose(2, "shots") + 1
    vals = np.empty((shots, nm), dtype=object)
    for s_ in range(shots):
        for j in range(nm):
            vals[s_, j] = h.real(f"v{s_}_{j}")
    op = ops.MeasureFock()
    regs = [pu.RegRef(k) for k in (3, 0, 2)[:nm]]
    with h.stubbed(ops.MeasureFock, "_apply", lambda self, reg, backend, **kw: vals):
        out = h.call(op.apply, regs, None, shots=shots)
    h.ensure("no-exception", out.returned, bounded_shape=True)
    if out.returned:
        h.ensure("returns-values", out.value is vals, bounded_shape=True)
        for j, r in enumerate(regs):
            h.ensure(f"reg[{j}].val-is-column-{j}", all(r.val[s_] is vals[s_, j] for s_ in range(shots)) and len(r.val) == shots)


@proof("C06", OPS + ":Measurement.apply", name="Measurement.apply/shots-None")
def _meas_apply_none(h):
    ops, pu = h.module(OPS), h.module(PU)
    op = ops.MeasureFock()
    regs = [pu.RegRef(0)]
    called = []
    with h.stubbed(ops.MeasureFock, "_apply", lambda self, reg, backend, **kw: called.append(1)):
        out = h.call(op.apply, regs, None, shots=None)
    h.ensure("nothing-applied-or-stored", out.returned and out.value is None and not called and regs[0].val is None)


@proof("C06", ENG + ":LocalEngine._combine_and_sort_samples")
def _collate(h):
    eng_mod = h.module(ENG)
    LE = eng_mod.LocalEngine
    e = object.__new__(LE)
    e.backend_options = {}
    e.backend_name = "gaussian"
    shots = h.eng.choose(2, "shots") + 1
    order = [(2, 0, 1), (1, 2), (0,), (2, 1, 0)][h.eng.choose(4, "order")]
    nrep = {m: 1 + (m % 2) for m in order}          # some modes are measured twice: the latest outcome counts
    sd = {}
    vals = {}
    for m in order:
        sd[m] = []
        for rep in range(nrep[m]):
            arr = np.array([h.real(f"m{m}r{rep}s{s_}") for s_ in range(shots)], dtype=object)
            sd[m].append(arr)
            vals[(m, rep)] = arr
    out = h.call(e._combine_and_sort_samples, dict(sd))
    h.ensure("no-exception", out.returned, bounded_shape=True)
    if out.returned:
        samples, sd2 = out.value
        asc = sorted(order)
        h.ensure("shape=(shots, measured modes)", tuple(samples.shape) == (shots, len(order)))
        for c, m in enumerate(asc):
            for s_ in range(shots):
                h.ensure(f"column{c}-is-latest-outcome-of-mode{m}/shot{s_}", samples[s_, c] is vals[(m, nrep[m] - 1)][s_], bounded_shape=True)
        h.ensure("samples_dict-keys", sorted(sd2) == asc, bounded_shape=True)


@proof("C06", ENG + ":LocalEngine._combine_and_sort_samples", name="_combine_and_sort_samples/empty")
def _collate_empty(h):
    eng_mod = h.module(ENG)
    e = object.__new__(eng_mod.LocalEngine)
    e.backend_options = {}
    e.backend_name = "gaussian"
    out = h.call(e._combine_and_sort_samples, {})
    h.ensure("empty", out.returned and tuple(out.value[0].shape) == (0, 0))


# ---------------------------------------------------------------- Gaussian backend: what photon counting hands to the sampler
GB = "strawberryfields.backends.gaussianbackend.backend"


def _sampler_case(which):
    def fn(h):
        """the (mean, covariance) handed to thewalrus' sampler are the moments of the MEASURED modes, in the order the modes
        are listed, quadratures as (x.., p..): the Born distribution of the requested photon-number pattern.  The circuit is a
        stub whose means / covariance are labelled symbols in both orderings (x.., p..) and (x0, p0, x1, p1, ..)."""
        import itertools, types
        gb = h.module(GB)
        n = (2, 3)[h.eng.choose(2, "n")]
        subsets = [list(c) for r in range(1, n + 1) for c in itertools.permutations(range(n), r)]
        modes = subsets[h._reg("modes", h.eng.choose(len(subsets), "modes"))]
        X = [h.real(f"x{k}") for k in range(n)]
        P = [h.real(f"p{k}") for k in range(n)]
        xp = X + P
        V = np.empty((2 * n, 2 * n), dtype=object)
        for a in range(2 * n):
            for b in range(2 * n):
                V[a, b] = h.real(f"V{a}_{b}")
        inter = [i for k in range(n) for i in (k, k + n)]                  # (x0, p0, x1, p1, ...) as indices into (x.., p..)
        circ = types.SimpleNamespace(
            mean=np.array([0.5] * n), nlen=n,
            smeanxp=lambda: np.array(xp, dtype=object), smean=lambda: np.array([xp[i] for i in inter], dtype=object),
            scovmatxp=lambda: V.copy(), scovmat=lambda: V[np.ix_(inter, inter)].copy())
        be = h.new(gb.GaussianBackend, circuit=circ)
        seen = []

        def haf(cov, shots, mean=None, **kw):
            seen.append((mean, cov))
            return np.zeros((shots, len(modes)), dtype=int)

        def tor(mu=None, cov=None, samples=1, **kw):
            seen.append((mu, cov))
            return np.zeros((samples, len(modes)), dtype=int)
        with h.stubbed(gb, "hafnian_sample_state", haf), h.stubbed(gb, "torontonian_sample_state", tor):
            out = h.call(getattr(be, which), list(modes), shots=1)
        h.ensure("no-exception", out.returned, bounded_shape=True)
        if not out.returned or len(seen) != 1:
            h.ensure("one-draw", False, bounded_shape=True)
            return
        mean, cov = seen[0]
        idx = list(modes) + [m + n for m in modes]
        h.ensure("mean-handed-over", mean is not None and len(mean) == len(idx), bounded_shape=True)
        if mean is not None and len(mean) == len(idx):
            for j, i in enumerate(idx):
                h.ensure(f"mean[{j}]-is-{'x' if i < n else 'p'}-of-mode-{i % n}", mean[j] is xp[i], bounded_shape=True)
        ok = tuple(np.shape(cov)) == (len(idx), len(idx))
        h.ensure("covariance-shape", ok, bounded_shape=True)
        if ok:
            h.ensure("covariance-is-the-block-of-the-measured-modes", all(cov[a, b] is V[i, j] for a, i in enumerate(idx) for b, j in enumerate(idx)), bounded_shape=True)
    fn.__name__ = ""
    return fn


PROOFS.append(Proof("C06", GB + ":GaussianBackend.measure_fock", _sampler_case("measure_fock"), name="GaussianBackend.measure_fock/sampler-gets-the-moments-of-the-measured-modes",
                    native="from native.c06_replay import replay; replay('measure_fock', OBLIGATION, I)"))
PROOFS.append(Proof("C06", GB + ":GaussianBackend.measure_threshold", _sampler_case("measure_threshold"), name="GaussianBackend.measure_threshold/sampler-gets-the-moments-of-the-measured-modes",
                    native="from native.c06_replay import replay; replay('measure_threshold', OBLIGATION, I)"))
