"""C16 / C08 / C05 - index bookkeeping of the Fock representation (backends/states.py:BaseFockState.dm, trace,
reduced_dm, fidelity; backends/fockbackend/backend.py:FockBackend.state).  These methods build einsum index
strings.  The state tensor is replaced by a ghost LABELLED TENSOR (every axis carries (mode, 'k' | 'b') for the ket /
bra index of a mode) and numpy.einsum / transpose by an evaluator over labels that checks the meaning of the
string: an index may only be summed against the conjugate index OF THE SAME MODE (a partial trace), operands are
only multiplied as ket x bra, and the result carries the labels of the surviving axes.  Contracts: the density matrix
has interleaved (ket, bra) axes in mode order; reduced_dm / state(modes) trace out exactly the other modes and return
the requested modes in the requested order; fidelity reduces to the one requested mode.
Enumerated: 1..4 modes, every subset (and for FockBackend.state every ordering), pure and mixed data
(shape-bounded: the tensor rank is a Python-level structure)."""
import itertools
import types
import numpy as _real_np
from pyvc.api import *

ST = "strawberryfields.backends.states"
FB = "strawberryfields.backends.fockbackend.backend"


import sys, os
sys.path.insert(0, os.path.dirname(__file__))
from _labelled import LT, einsum, fake_np


def interleaved(modes):
    return [(m, s) for m in modes for s in ("k", "b")]


def data_for(n, pure):
    return LT([(m, "k") for m in range(n)]) if pure else LT(interleaved(range(n)))


from native.c16_cases import SIZES, SUBSETS, ORDERED


def _nat(kind):
    return f"from native.c16_fock_replay import replay; replay({kind!r}, OBLIGATION, I)"


def fstate(h, st, n, pure):
    return h.new(st.BaseFockState, _data=data_for(n, pure), _modes=n, _pure=pure, _cutoff=3, _hbar=2, _basis="fock",
                 _mode_names=[f"q[{i}]" for i in range(n)], _str="")


@proof(["C16", "C05"], ST + ":BaseFockState.reduced_dm", native=_nat("reduced_dm"))
def _fock_reduced_dm(h):
    st = h.module(ST)
    n, modes = SUBSETS[h._reg("case", h.eng.choose(len(SUBSETS), "case"))]
    pure = bool(h._reg("pure", h.eng.choose(2, "pure")))
    obj = fstate(h, st, n, pure)
    with h.stubbed(st, "np", fake_np(st.np)):
        out = h.call(obj.reduced_dm, list(modes))
    h.ensure("no-exception", out.returned, bounded_shape=True)
    if not out.returned:
        return
    r = out.value
    h.ensure("only-partial-traces-of-whole-modes", isinstance(r, LT) and r.bad is None, bounded_shape=True)
    h.ensure("requested-modes-kept-in-order-with-(ket,bra)-axes", isinstance(r, LT) and r.labels == interleaved(modes), bounded_shape=True)
    h.ensure("exactly-the-other-modes-traced-out", isinstance(r, LT) and sorted(r.traced) == [m for m in range(n) if m not in modes], bounded_shape=True)


@proof("C16", ST + ":BaseFockState.dm")
def _fock_dm_trace(h):
    st = h.module(ST)
    n = SIZES[h.eng.choose(len(SIZES), "n")]
    obj = fstate(h, st, n, True)
    with h.stubbed(st, "np", fake_np(st.np)):
        out = h.call(obj.dm)
    h.ensure("dm.no-exception", out.returned, bounded_shape=True)
    if out.returned:
        h.ensure("dm-of-a-ket-has-interleaved-(ket,bra)-axes-in-mode-order", isinstance(out.value, LT) and out.value.bad is None and out.value.labels == interleaved(range(n)), bounded_shape=True)
    obj = fstate(h, st, n, False)
    with h.stubbed(st, "np", fake_np(st.np)):
        out = h.call(obj.trace)
    h.ensure("trace.no-exception", out.returned, bounded_shape=True)
    if out.returned:
        r = out.value
        h.ensure("trace-sums-every-mode-against-its-own-conjugate-index", isinstance(r, LT) and r.bad is None and r.labels == [] and sorted(r.traced) == list(range(n)), bounded_shape=True)


@proof("C16", ST + ":BaseFockState.fidelity", native="from native.c16_fock_replay import replay_fidelity; replay_fidelity(OBLIGATION, I)")
def _fock_fidelity(h):
    st = h.module(ST)
    cases = [(n, m) for n in SIZES for m in range(n)]
    n, mode = cases[h.eng.choose(len(cases), "case")]
    h._reg("n", n)
    h._reg("mode", mode)
    pure = bool(h._reg("pure", h.eng.choose(2, "pure")))
    obj = fstate(h, st, n, pure)
    seen = []
    npx = fake_np(st.np)
    npx.dot = lambda a, b: (seen.append(a if isinstance(a, LT) else b) or 0.5) if isinstance(a, LT) or isinstance(b, LT) else 0.5
    npx.conj = lambda a: a
    with h.stubbed(st, "np", npx):
        out = h.call(obj.fidelity, _real_np.array([1.0, 0.0, 0.0]), mode)
    h.ensure("no-exception", out.returned, bounded_shape=True)
    h.ensure("overlap-taken-with-the-reduced-state-of-the-requested-mode",
             len(seen) == 1 and seen[0].bad is None and seen[0].labels == interleaved([mode]) and sorted(seen[0].traced) == [m for m in range(n) if m != mode], bounded_shape=True)


@proof(["C16", "C08"], FB + ":FockBackend.state", native=_nat("backend_state"))
def _fock_backend_state(h):
    fb, st = h.module(FB), h.module(ST)
    n, modes = ORDERED[h._reg("case", h.eng.choose(len(ORDERED), "case"))]
    pure = bool(h._reg("pure", h.eng.choose(2, "pure")))
    circ = types.SimpleNamespace(get_state=lambda: (data_for(n, pure), pure), _trunc=3)
    be = h.new(fb.FockBackend, circuit=circ, _modemap=types.SimpleNamespace(show=lambda: list(range(n))))
    made = []

    def ctor(data, num, pure_flag, cutoff, mode_names=None):
        made.append((data, num, pure_flag, mode_names))
        return "STATE"
    with h.stubbed(fb, "np", fake_np(fb.np)), h.stubbed(fb, "BaseFockState", ctor), h.stubbed(fb.FockBackend, "get_modes", lambda self: list(range(n))):
        out = h.call(be.state, list(modes))
    h.ensure("no-exception", out.returned, bounded_shape=True)
    if not out.returned or len(made) != 1:
        h.ensure("one-state-object", False, bounded_shape=True)
        return
    data, num, pure_flag, names = made[0]
    h.ensure("only-partial-traces-of-whole-modes", data.bad is None, bounded_shape=True)
    h.ensure("index-i-is-the-i-th-requested-mode", data.labels == interleaved(modes) and num == len(modes), bounded_shape=True)
    h.ensure("exactly-the-other-modes-traced-out", sorted(data.traced) == [m for m in range(n) if m not in modes], bounded_shape=True)
    h.ensure("reduced-state-flagged-mixed", pure_flag is False, bounded_shape=True)
    h.ensure("mode-names-follow-the-request", list(names) == [f"q[{m}]" for m in modes], bounded_shape=True)


@proof("C16", ST + ":BaseGaussianState.reduced_dm", name="BaseGaussianState.reduced_dm/pure-branch-index-order")
def _gaussian_reduced_dm_pure(h):
    """pure reduced state: the ket returned by thewalrus (one axis per kept mode) is turned into a density matrix with
    two indices per mode, (ket, bra) of mode 1, then of mode 2, ... - the layout of the mixed branch and of the Fock
    representation.  1..5 kept modes."""
    import types
    st = h.module(ST)
    k = (1, 2, 3, 4, 5)[h.eng.choose(5, "kept")]
    modes = list(range(k))
    obj = h.new(st.BaseGaussianState, _modes=k + 1, _hbar=2, _pure=True, _basis="gaussian", EQ_TOLERANCE=1e-10)
    npx = fake_np(st.np)
    npx.linalg = types.SimpleNamespace(det=lambda c: 1.0)
    npx.abs = abs
    npx.multiply = types.SimpleNamespace(outer=lambda a, b: LT(a.labels + b.labels, a.bad or b.bad))
    twq = types.SimpleNamespace(state_vector=lambda mu, cov, **kw: LT([(j, "k") for j in range(k)]),
                                density_matrix=lambda *a, **kw: "MIXED")
    with h.stubbed(st, "np", npx), h.stubbed(st, "twq", twq), h.stubbed(st.BaseGaussianState, "reduced_gaussian", lambda self, m: ("MU", "COV")):
        out = h.call(obj.reduced_dm, list(modes), cutoff=3)
    h.ensure("no-exception", out.returned, bounded_shape=True)
    if out.returned:
        r = out.value
        h.ensure("two-indices-per-mode-(ket,bra)-in-mode-order", isinstance(r, LT) and r.bad is None and r.labels == interleaved(modes), bounded_shape=True)
