"""C08 - strawberryfields/backends/base.py:ModeMap  (external mode index -> tensor axis)

Abstract view: alive(k) <=> _map[k] is not None ; axis(k) = _map[k].
Representation invariant  wf(_map):  forall k. _map[k] is None  or  _map[k] == rank(k)
where rank(k) = #{ j < k | _map[j] is not None }  (injective, order preserving, onto range(#alive)).
Every public operation: requires wf, ensures wf and states the WHOLE new view.
"""
import z3
from pyvc.api import *

M = "strawberryfields.backends.base"


def rank_fn(h, lst, name):
    """ghost: rank(k) = number of non-None entries of lst before k (definitional axioms)"""
    eng = h.eng
    f = eng.fresh_fun(name, z3.IntSort(), z3.IntSort())
    k = eng.fresh("rk_k", z3.IntSort(), bound=True)
    eng.assume(f(0) == 0)
    eng.assume(z3.ForAll([k], z3.Implies(z3.And(k >= 0, k < lst.length().t),
                                         f(k + 1) == f(k) + z3.If(z3bool(isnone(lst.at(k))), 0, 1))))
    return f


def wf(lst, rank):
    return forall(lambda k: Implies(And(k >= 0, k < lst.length()),
                                    Or(isnone(lst.at(k)), eqv_opt(lst.at(k), SV(rank(k.t))))))


def eqv_opt(o, v):
    """o is not None and o == v"""
    if isinstance(o, SV):
        return o == v
    return SV(z3.And(z3.Not(o.isnone), o.val == z3int(v)))


def mk(h, name="map"):
    MM = h.cls(M, "ModeMap")
    mp = h.list(name, "optint")
    self = h.new(MM, _init=h.int("init", lo=0), _map=mp)
    rk = rank_fn(h, mp, "rank")
    h.require(wf(mp, rk))
    return self, mp, rk


def spec_valid_list(mp, modes):
    return And(modes.length() > 0, modes.length() <= mp.length(),
               forall(lambda j: Implies(And(j >= 0, j < modes.length()),
                                        And(modes.at(j) >= 0, modes.at(j) < mp.length()))))


# ---------------------------------------------------------------- _single_mode_valid
@proof("C08", M + ":ModeMap._single_mode_valid", native="from native.c08_modemap import replay; replay('single', OBLIGATION, I)")
def _smv(h):
    self, mp, rk = mk(h)
    mode = h.optint("mode")
    out = h.call(self._single_mode_valid, mode)
    h.ensure("no-exception", out.returned)
    if out.returned:
        spec = And(Not(isnone(mode)), SV(mode.val) >= 0, SV(mode.val) < mp.length())
        h.ensure("result", eqv(out.value, spec))
        h.ensure("frame.map", self._map is mp)


# ---------------------------------------------------------------- valid
loop_inv(M + ":ModeMap.valid#0",
         inv=lambda v: forall(lambda j: Implies(And(j >= 0, j < v.idx),
                                                And(v.modes.at(j) >= 0, v.modes.at(j) < v.self._map.length()))))


@proof("C08", M + ":ModeMap.valid", name="ModeMap.valid/list", native="from native.c08_modemap import replay; replay('valid', OBLIGATION, I)")
def _valid_list(h):
    self, mp, rk = mk(h)
    modes = h.list("modes", "int")
    out = h.call(self.valid, modes)
    h.ensure("no-exception", out.returned)
    if out.returned:
        h.ensure("result", eqv(out.value, spec_valid_list(mp, modes)))


@proof("C08", M + ":ModeMap.valid", name="ModeMap.valid/int", native="from native.c08_modemap import replay; replay('valid', OBLIGATION, I)")
def _valid_int(h):
    self, mp, rk = mk(h)
    m = h.int("mode")
    out = h.call(self.valid, m)
    h.ensure("no-exception", out.returned)
    if out.returned:
        h.ensure("result", eqv(out.value, And(m >= 0, m < mp.length())))


@proof("C08", M + ":ModeMap.valid", name="ModeMap.valid/none", native="from native.c08_modemap import replay; replay('valid', OBLIGATION, I)")
def _valid_none(h):
    self, mp, rk = mk(h)
    out = h.call(self.valid, None)
    h.ensure("result", out.returned and out.value is False)


# ---------------------------------------------------------------- delete
def kept_rank(h, old, inm, name="krank"):
    eng = h.eng
    f = eng.fresh_fun(name, z3.IntSort(), z3.IntSort())
    k = eng.fresh("kr_k", z3.IntSort(), bound=True)
    eng.assume(f(0) == 0)
    eng.assume(z3.ForAll([k], z3.Implies(z3.And(k >= 0, k < old.length().t),
                                         f(k + 1) == f(k) + z3.If(z3.Or(inm(k), z3bool(isnone(old.at(k)))), 0, 1))))
    return f


def member_fn(h, modes, name="inmodes"):
    """ghost predicate inm(k) <=> k in modes (definitional)"""
    eng = h.eng
    f = eng.fresh_fun(name, z3.IntSort(), z3.BoolSort())
    k = eng.fresh("im_k", z3.IntSort(), bound=True)
    j = eng.fresh("im_j", z3.IntSort(), bound=True)
    n = modes.length().t
    eng.assume(z3.ForAll([k], f(k) == z3.Exists([j], z3.And(j >= 0, j < n, modes.at(j).t == k))))
    return f


def _delete_inv(v):
    g = v.ghost
    old, inm, kr = g["old"], g["inm"], g["krank"]
    nm = v.new_map
    return {
        "len": nm.length() == v.idx,
        "ctr": v.ctr == SV(kr(v.idx.t)),
        "cells": forall(lambda j: Implies(And(j >= 0, j < v.idx),
                                          SV(z3.If(z3.Or(inm(j.t), z3bool(isnone(old.at(j)))),
                                                   nm.at(j).isnone,
                                                   z3.And(z3.Not(nm.at(j).isnone), nm.at(j).val == kr(j.t)))))),
        "map-unchanged": v.self._map is old,
    }


loop_inv(M + ":ModeMap.delete#0", inv=_delete_inv, types={"new_map": "optint"})


def _delete_common(h, modes, as_list):
    self, mp, rk = mk(h)
    inm = member_fn(h, as_list)
    kr = kept_rank(h, mp, inm)
    h.ghost(old=mp, inm=inm, krank=kr)
    valid = spec_valid_list(mp, as_list)
    out = h.call(self.delete, modes)
    if out.exc is not None:
        h.ensure("raises-only-ValueError", out.raised("ValueError"))
        h.ensure("raises-only-if-invalid", Not(valid))
        h.ensure("frame.map-on-error", self._map is mp)
        return
    new = self._map
    h.ensure("returns-only-if-valid", valid)
    h.ensure("post.len", new.length() == mp.length())
    # the whole view: exactly the requested modes are removed, every survivor stays alive
    h.ensure("post.view", forall(lambda k: Implies(And(k >= 0, k < mp.length()),
                                                   eqv(isnone(new.at(k)), Or(isnone(mp.at(k)), SV(inm(k.t)))))))
    # wf of the new map: rank over the new list coincides with the kept-rank (lemma by induction)
    rnew = rank_fn(h, new, "rank_new")
    induct(h, "rank_new_is_kept_rank", lambda k: SV(rnew(k.t) == kr(k.t)), mp.length())
    h.ensure("post.wf", wf(new, rnew))
    # survivors keep their relative order: axis is the number of surviving modes below
    h.ensure("post.axis", forall(lambda k: Implies(And(k >= 0, k < mp.length(), Not(isnone(new.at(k)))),
                                                   SV(new.at(k).val == kr(k.t)))))
    h.ensure("frame.init", self._init is not None)


@proof("C08", M + ":ModeMap.delete", name="ModeMap.delete/list", uses=[M + ":ModeMap.valid"], native="from native.c08_modemap import replay; replay('delete', OBLIGATION, I)")
def _delete_list(h):
    modes = h.list("modes", "int")
    _delete_common(h, modes, modes)


@proof("C08", M + ":ModeMap.delete", name="ModeMap.delete/int", uses=[M + ":ModeMap.valid"], native="from native.c08_modemap import replay; replay('delete', OBLIGATION, I)")
def _delete_int(h):
    m = h.int("mode")
    _delete_common(h, m, as_slist([m], "int"))


# ---------------------------------------------------------------- __init__ / reset
def _all_alive_post(h, self, n):
    new = self._map
    h.ensure("post.len", new.length() == n)
    h.ensure("post.identity", forall(lambda k: Implies(And(k >= 0, k < n), eqv_opt(new.at(k), k))))
    rnew = rank_fn(h, new, "rank_new")
    induct(h, "rank_identity", lambda k: SV(rnew(k.t) == k.t), n)
    h.ensure("post.wf", wf(new, rnew))


@proof("C08", M + ":ModeMap.__init__", native="from native.c08_modemap import replay; replay('init', OBLIGATION, I)")
def _init(h):
    MM = h.cls(M, "ModeMap")
    n = h.int("n", lo=0)
    self = MM.__new__(MM)
    out = h.call(self.__init__, n)
    h.ensure("no-exception", out.returned)
    if out.returned:
        h.ensure("post.init", self._init == n)
        _all_alive_post(h, self, n)


@proof("C08", M + ":ModeMap.reset", native="from native.c08_modemap import replay; replay('init', OBLIGATION, I)")
def _reset(h):
    self, mp, rk = mk(h)
    n = self._init
    out = h.call(self.reset)
    h.ensure("no-exception", out.returned)
    if out.returned:
        h.ensure("frame.init", self._init is n)
        _all_alive_post(h, self, n)


# ---------------------------------------------------------------- add
@proof("C08", M + ":ModeMap.add", native="from native.c08_modemap import replay; replay('add', OBLIGATION, I)")
def _add(h):
    self, mp, rk = mk(h)
    n = h.int("num_modes", lo=0)
    old = mp.copy()
    out = h.call(self.add, n)
    h.ensure("no-exception", out.returned)
    if not out.returned:
        return
    new = self._map
    L = old.length()
    # the comprehension `len([m for m in self._map if m is not None])` is summarised by the engine's
    # counting function cnt; it coincides with rank (lemma by induction)
    cnt = z3.Function("cnt", z3.IntSort(), z3.IntSort())
    induct(h, "cnt_is_rank", lambda k: SV(cnt(k.t) == rk(k.t)), L)
    h.ensure("post.len", new.length() == L + n)
    h.ensure("post.old-part-unchanged", forall(lambda k: Implies(And(k >= 0, k < L), eqv(new.at(k), old.at(k)))))
    # new entries are alive and take the next free axes, in order
    h.ensure("post.new-part", forall(lambda i: Implies(And(i >= 0, i < n),
                                                       eqv_opt(new.at(L + i), SV(rk(L.t)) + i))))
    rnew = rank_fn(h, new, "rank_new")
    induct(h, "rank_new_prefix", lambda k: SV(rnew(k.t) == rk(k.t)), L)
    induct(h, "rank_new_suffix", lambda k: SV(rnew(k.t) == rk(L.t) + (k.t - L.t)), L + n, base=L)
    h.ensure("post.wf", wf(new, rnew))


# ---------------------------------------------------------------- remap / show
@proof("C08", M + ":ModeMap.remap", name="ModeMap.remap/int", native="from native.c08_modemap import replay; replay('remap', OBLIGATION, I)")
def _remap_int(h):
    self, mp, rk = mk(h)
    m = h.int("mode")
    h.require(And(m >= 0, m < mp.length()))
    out = h.call(self.remap, m)
    h.ensure("no-exception", out.returned)
    if out.returned:
        h.ensure("result", eqv(out.value, mp.at(m)))
        h.ensure("frame.map", self._map is mp)


@proof("C08", M + ":ModeMap.remap", name="ModeMap.remap/list", native="from native.c08_modemap import replay; replay('remap', OBLIGATION, I)")
def _remap_list(h):
    self, mp, rk = mk(h)
    modes = h.list("modes", "int")
    h.require(forall(lambda j: Implies(And(j >= 0, j < modes.length()), And(modes.at(j) >= 0, modes.at(j) < mp.length()))))
    out = h.call(self.remap, modes)
    h.ensure("no-exception", out.returned)
    if out.returned:
        r = out.value
        h.ensure("result.len", r.length() == modes.length())
        h.ensure("result.cells", forall(lambda j: Implies(And(j >= 0, j < modes.length()), eqv(r.at(j), mp.at(modes.at(j).t)))))
        h.ensure("frame.map", self._map is mp)


@proof("C08", M + ":ModeMap.remap", name="ModeMap.remap/out-of-range", native="from native.c08_modemap import replay; replay('remap', OBLIGATION, I)")
def _remap_oor(h):
    """an index >= len is rejected (IndexError), not wrapped"""
    self, mp, rk = mk(h)
    m = h.int("mode")
    h.require(m >= mp.length())
    out = h.call(self.remap, m)
    h.ensure("raises-IndexError", out.raised("IndexError"))


@proof("C08", M + ":ModeMap.show")
def _show(h):
    self, mp, rk = mk(h)
    out = h.call(self.show)
    h.ensure("result", out.returned and out.value is mp)
