"""C16 - state objects answer for exactly the subset and order of modes they are asked about
(backends/states.py).  Selection / ordering / convention clauses are PROVED; the numerical agreement of
different float pipelines (thewalrus, Hermite recurrences) is a BOUNDED stand-in (native/c16_states.py).

BaseGaussianState: the state has a SYMBOLIC number of modes N and the mode list has symbolic length:
reduced_gaussian returns exactly mu[modes ++ modes+N] and cov[rows, cols] (whole-result postcondition), rejects
unsorted/duplicated lists; every consumer (mean_photon, quad_expectation, parity_expectation, reduced_dm, fidelity)
is checked to hand exactly that reduced data - and not the full state - to its formula / to thewalrus (recording
stubs for thewalrus.quantum and numpy.linalg).
"""
import numpy as np
import z3
from pyvc.api import *

ST = "strawberryfields.backends.states"

level("C16", "other",
      "Proved: BaseGaussianState.reduced_gaussian for a symbolic number of modes and a mode list of symbolic length (whole "
      "result; unsorted lists rejected); parity_expectation, reduced_dm, mean_photon, fidelity hand exactly the reduced data of "
      "the requested modes to their formula / to thewalrus, reduced_dm tests the purity of the REDUCED state. Shape-bounded "
      "(2 components x 2 modes and 3 x 3, every weight/mean/covariance entry and the angle symbolic): BaseBosonicState."
      "reduced_bosonic returns exactly the requested modes, quad_expectation = (weighted mean, second moment of the mixture "
      "minus squared mean), mean_photon mean and variance of the requested mode, fock_prob / reduced_dm hand every component "
      "in (x..,p..) order with its weight to thewalrus. Bounded stand-in: cross-method and cross-representation numerical "
      "identities (parity = sum (-1)^n p(n), photon statistics from Fock probabilities, reduced_dm vs Fock object, quadrature "
      "moments) for every mode subset of correlated 2-3 mode Gaussian states on gaussian/bosonic/fock and of two-mode cat "
      "states (real and complex representation) on bosonic/fock. F29, F30, F31 found and repaired; F42 (complex component "
      "means handed to thewalrus) is an open finding.",
      trusted=["thewalrus.quantum.* are recording stubs: only their arguments are constrained",
               "library: sorted() contract on symbolic lists",
               "bosonic contracts assume real weights/means (complex components are covered by the bounded stand-in only)"])

native("C16", "c16_states", "native/c16_states.py",
       bound="correlated 2- and 3-mode Gaussian states on gaussian/bosonic/fock(cutoff 12) and 2-mode cat states (real, complex representation) on bosonic/fock(cutoff 18), pure and lossy, every sorted mode subset", timeout=900)


def gstate(h):
    st = h.module(ST)
    N = h.int("N", lo=1)
    mu = h.array("mu", (2 * N,), "real")
    cov = h.array("cov", (2 * N, 2 * N), "real")
    obj = h.new(st.BaseGaussianState, _modes=N, _mu=mu, _cov=cov, _hbar=2, _pure=h.bool("pure"), _basis="gaussian")
    return st, obj, N, mu, cov


def sorted_modes(h, N, name="modes"):
    modes = h.list(name, "int")
    h.require(modes.length() >= 1)
    h.require(forall(lambda i: Implies(And(i >= 0, i < modes.length()), And(modes.at(i) >= 0, modes.at(i) < N))))
    return modes


def strictly_ascending(modes):
    return forall(lambda i: Implies(And(i >= 0, i + 1 < modes.length()), modes.at(i) < modes.at(i + 1)))


def spec_ind(modes, N):
    k = modes.length()
    return lambda a: ite(a < k, modes.at(a), modes.at(a - k) + N)


def check_reduced(h, mu_r, cov_r, mu, cov, modes, N, tag=""):
    k = modes.length()
    ind = spec_ind(modes, N)
    a = h.eng.sym_int("ra"); b = h.eng.sym_int("rb")
    h.eng.assume(And(a >= 0, b >= 0, a < 2 * k, b < 2 * k))
    h.ensure(tag + "mu-len", SV(z3int(mu_r.vc_len()) == 2 * k.t))
    h.ensure(tag + "mu-cells", eqv(mu_r.at(a), mu.at(ind(a))))
    h.ensure(tag + "cov-cells", eqv(cov_r.at(a, b), cov.at(ind(a), ind(b))))


@proof("C16", ST + ":BaseGaussianState.reduced_gaussian")
def _reduced(h):
    st, obj, N, mu, cov = gstate(h)
    modes = sorted_modes(h, N)
    out = h.call(obj.reduced_gaussian, modes)
    asc = strictly_ascending(modes)
    if out.exc is not None:
        h.ensure("raises-only-ValueError", out.raised("ValueError"))
        h.ensure("raises-only-if-not-ascending-or-too-long", Or(Not(forall(lambda i: Implies(And(i >= 0, i + 1 < modes.length()), modes.at(i) <= modes.at(i + 1)))),
                                                                modes.length() > N))
        return
    mu_r, cov_r = out.value
    if mu_r is mu:
        # shortcut: modes == range(N)
        h.ensure("full-state-only-for-all-modes", And(modes.length() == N, forall(lambda i: Implies(And(i >= 0, i < N), modes.at(i) == i))))
        h.ensure("full-cov", cov_r is cov)
        return
    check_reduced(h, mu_r, cov_r, mu, cov, modes, N)


class Rec:
    def __init__(self):
        self.calls = []

    def fn(self, name, ret):
        def f(*a, **kw):
            self.calls.append((name, a, kw))
            return ret() if callable(ret) else ret
        return f


MODE_SETS = [[0], [1], [2], [0, 1], [0, 2], [1, 2]]


def consumer(h):
    """a consumer method is run with reduced_gaussian replaced by its contract (fresh arrays RM, RC of the reduced
    size); only (RM, RC) may reach thewalrus / numpy.linalg.  N is symbolic (> every requested mode)."""
    st, obj, N, mu, cov = gstate(h)
    modes = list(MODE_SETS[h.eng.choose(len(MODE_SETS), "modes")])
    h.require(N > max(modes) + 1)
    k = len(modes)
    RM = h.array("RM", (2 * k,), "real")
    RC = h.array("RC", (2 * k, 2 * k), "real")
    asked = []

    def red(self, m):
        asked.append(list(m) if not isinstance(m, SList) else m)
        return RM, RC
    return st, obj, N, modes, RM, RC, asked, red, Rec()


def is_arr(x, A):
    return getattr(x, "store", None) is A.store


@proof("C16", ST + ":BaseGaussianState.parity_expectation")
def _parity(h):
    st, obj, N, modes, RM, RC, asked, red, rec = consumer(h)
    k = len(modes)
    inv_out = h.array("INV", (2 * k, 2 * k), "real")
    det_out = h.real("DET")
    h.require(det_out > 0)
    with h.stubbed(st.BaseGaussianState, "reduced_gaussian", red), \
            h.stubbed(st.np.linalg, "inv", rec.fn("inv", inv_out)), h.stubbed(st.np.linalg, "det", rec.fn("det", det_out)):
        out = h.call(obj.parity_expectation, list(modes))
    h.ensure("no-exception", out.returned, bounded_shape=True)
    if not out.returned:
        return
    h.ensure("asks-for-exactly-the-requested-modes", len(asked) == 1 and sorted(asked[0]) == sorted(modes), bounded_shape=True)
    invs = [c for c in rec.calls if c[0] == "inv"]
    dets = [c for c in rec.calls if c[0] == "det"]
    h.ensure("inverse-of-the-REDUCED-covariance", len(invs) == 1 and is_arr(invs[0][1][0], RC), bounded_shape=True)
    h.ensure("determinant-of-the-REDUCED-covariance", len(dets) == 1 and is_arr(dets[0][1][0], RC), bounded_shape=True)
    # value: (hbar/2)^k exp(-mu.Vinv.mu/2)/sqrt(det) with the REDUCED means (hbar = 2)
    quad = 0
    for a_ in range(2 * k):
        for b_ in range(2 * k):
            quad = quad + RM.at(a_) * inv_out.at(a_, b_) * RM.at(b_)
    m = h.eng.math
    h.ensure("value-from-the-reduced-state", eqv(out.value, m.exp(-(quad / 2)) / m.sqrt(det_out)), bounded_shape=True)


@proof("C16", ST + ":BaseGaussianState.reduced_dm")
def _reduced_dm(h):
    st, obj, N, modes, RM, RC, asked, red, rec = consumer(h)
    det_out = h.real("DET")
    psi = np.zeros([2] * len(modes))
    psi[(0,) * len(modes)] = 1.0
    with h.stubbed(st.BaseGaussianState, "reduced_gaussian", red), h.stubbed(st.np.linalg, "det", rec.fn("det", det_out)), \
            h.stubbed(st.twq, "state_vector", rec.fn("state_vector", psi)), h.stubbed(st.twq, "density_matrix", rec.fn("density_matrix", "RHO")):
        out = h.call(obj.reduced_dm, list(modes), cutoff=2)
    h.ensure("no-exception", out.returned, bounded_shape=True)
    dets = [c for c in rec.calls if c[0] == "det"]
    h.ensure("purity-decided-on-the-REDUCED-covariance", len(dets) == 1 and is_arr(dets[0][1][0], RC), bounded_shape=True)
    sv = [c for c in rec.calls if c[0] == "state_vector"]
    dm = [c for c in rec.calls if c[0] == "density_matrix"]
    h.ensure("exactly-one-thewalrus-call", len(sv) + len(dm) == 1, bounded_shape=True)
    for c in sv + dm:
        h.ensure("thewalrus-gets-the-REDUCED-state", is_arr(c[1][0], RM) and is_arr(c[1][1], RC), bounded_shape=True)
    # the pure shortcut is taken exactly when the REDUCED state is pure: |det(RC) - (hbar/2)^(2k)| < tol  (hbar = 2)
    tol = st.BaseGaussianState.EQ_TOLERANCE
    if sv:
        h.ensure("pure-branch-only-if-reduced-state-pure", abs(det_out - 1) < tol, bounded_shape=True)
        if out.returned:
            h.ensure("two-indices-per-mode", tuple(out.value.shape) == tuple([2] * (2 * len(modes))), bounded_shape=True)
    if dm:
        h.ensure("mixed-branch-only-if-reduced-state-mixed", Not(abs(det_out - 1) < tol), bounded_shape=True)
        if out.returned:
            h.ensure("mixed-branch-returns-thewalrus-result", out.value == "RHO", bounded_shape=True)


@proof("C16", ST + ":BaseGaussianState.mean_photon")
def _mean_photon(h):
    st, obj, N, mu, cov = gstate(h)
    mode = h.int("mode", lo=0)
    h.require(mode < N)
    h.require(N >= 2)
    out = h.call(obj.mean_photon, mode)
    h.ensure("no-exception", out.returned)
    if out.returned:
        mean, var = out.value
        x, p = mu.at(mode), mu.at(mode + N)
        vxx, vpp = cov.at(mode, mode), cov.at(mode + N, mode + N)
        # <n> = (tr V + mu.mu)/(2 hbar) - 1/2 of the ONE requested mode (hbar = 2 in this harness)
        h.ensure("mean-photon-of-the-requested-mode", eqv(mean, (vxx + vpp + x * x + p * p) / 4 - SV(z3.RealVal("1/2"))))


# ---------------------------------------------------------------------------------------------------------
# BaseBosonicState (linear combination of K Gaussians; data order x1,p1,x2,p2,...).  Shape-bounded: K and the
# number of modes are fixed per obligation, every weight / mean / covariance entry and the angle are symbolic.
def bstate(h, K, M, normalised=True):
    st = h.module(ST)
    w = np.array([h.real(f"w{i}") for i in range(K)], dtype=object)
    mus = np.array([[h.real(f"m{i}_{a}") for a in range(2 * M)] for i in range(K)], dtype=object)
    covs = np.array([[[h.real(f"c{i}_{a}_{b}") for b in range(2 * M)] for a in range(2 * M)] for i in range(K)], dtype=object)
    obj = h.new(st.BaseBosonicState, _modes=M, _weights=w, _mus=mus, _covs=covs, _hbar=2, _basis="bosonic",
                num_weights=K, _data=(mus, covs, w))
    h._reg("K", K); h._reg("M", M)
    if normalised:
        h.require(eqv(sum(w[i] for i in range(K)), 1))            # a state: the weights sum to one
    return st, obj, w, mus, covs


B_SHAPES = [(2, 2), (3, 3)]          # (components, modes)


def _nat(kind):
    return f"from native.c16_bosonic import replay; replay({kind!r}, OBLIGATION, I)"


@proof("C16", ST + ":BaseBosonicState.reduced_bosonic", native=_nat("reduced"))
def _reduced_bosonic(h):
    K, M = B_SHAPES[h.eng.choose(len(B_SHAPES), "shape")]
    st, obj, w, mus, covs = bstate(h, K, M)
    subsets = [list(c) for r in range(1, M + 1) for c in __import__("itertools").combinations(range(M), r)]
    modes = subsets[h.eng.choose(len(subsets), "modes")]
    h._reg("modes", list(modes))
    out = h.call(obj.reduced_bosonic, list(modes))
    h.ensure("no-exception", out.returned, bounded_shape=True)
    if not out.returned:
        return
    rw, rm, rc = out.value
    ind = [x for m in modes for x in (2 * m, 2 * m + 1)]
    ok_w = len(rw) == K and all(rw[i] is w[i] for i in range(K))
    ok_m = tuple(np.shape(rm)) == (K, len(ind)) and all(rm[i, a] is mus[i, ind[a]] for i in range(K) for a in range(len(ind)))
    ok_c = tuple(np.shape(rc)) == (K, len(ind), len(ind)) and all(
        rc[i, a, b] is covs[i, ind[a], ind[b]] for i in range(K) for a in range(len(ind)) for b in range(len(ind)))
    h.ensure("weights-unchanged", ok_w, bounded_shape=True)
    h.ensure("means-of-exactly-the-requested-modes-in-xp-order", ok_m, bounded_shape=True)
    h.ensure("covariances-of-exactly-the-requested-modes-in-xp-order", ok_c, bounded_shape=True)


@proof("C16", ST + ":BaseBosonicState.quad_expectation", native=_nat("quad"))
def _bosonic_quad(h):
    K, M = B_SHAPES[h.eng.choose(len(B_SHAPES), "shape")]
    st, obj, w, mus, covs = bstate(h, K, M)
    mode = h._reg("mode", h.eng.choose(M, "mode"))
    phi = h.real("phi")
    out = h.call(obj.quad_expectation, mode, phi)
    h.ensure("no-exception", out.returned, bounded_shape=True)
    if not out.returned:
        return
    mean, var = out.value
    m = h.eng.math
    c, s = m.cos(phi), m.sin(phi)
    a, b = 2 * mode, 2 * mode + 1
    # x_phi = cos(phi) x + sin(phi) p for every component
    mi = [c * mus[i, a] + s * mus[i, b] for i in range(K)]
    vi = [c * c * covs[i, a, a] + c * s * (covs[i, a, b] + covs[i, b, a]) + s * s * covs[i, b, b] for i in range(K)]
    mean_spec = sum(w[i] * mi[i] for i in range(K))
    second = sum(w[i] * (vi[i] + mi[i] * mi[i]) for i in range(K))
    h.ensure("mean-is-the-weighted-mean-of-the-rotated-quadrature", eqv(mean, mean_spec), bounded_shape=True)
    # Var = sum_i w_i (sigma_i + m_i^2) - (sum_i w_i m_i)^2 : second moment of the mixture minus the squared mean
    h.ensure("variance-is-second-moment-minus-squared-mean", eqv(var, second - mean_spec * mean_spec), bounded_shape=True)


@proof("C16", ST + ":BaseBosonicState.mean_photon", native=_nat("mean_photon"))
def _bosonic_mean_photon(h):
    K, M = B_SHAPES[h.eng.choose(len(B_SHAPES), "shape")]
    st, obj, w, mus, covs = bstate(h, K, M)
    mode = h._reg("mode", h.eng.choose(M, "mode"))
    out = h.call(obj.mean_photon, mode)
    h.ensure("no-exception", out.returned, bounded_shape=True)
    if not out.returned:
        return
    mean, var = out.value
    a, b = 2 * mode, 2 * mode + 1
    half, quarter = SV(z3.RealVal("1/2")), SV(z3.RealVal("1/4"))
    ni = [(covs[i, a, a] + covs[i, b, b] + mus[i, a] * mus[i, a] + mus[i, b] * mus[i, b]) / 4 - half for i in range(K)]
    mean_spec = sum(w[i] * ni[i] for i in range(K))
    h.ensure("mean-photon-of-the-requested-mode", eqv(mean, mean_spec), bounded_shape=True)
    # per component: <n^2> - <n>^2 = (tr V^2 + 2 mu.V.mu)/(2 hbar^2) - 1/4 ; mixture: sum w_i (var_i + n_i^2) - mean^2
    def trv2(i):
        V = [[covs[i, a, a], covs[i, a, b]], [covs[i, b, a], covs[i, b, b]]]
        return sum(V[r][t] * V[t][r] for r in range(2) for t in range(2))
    def mvm(i):
        mu = [mus[i, a], mus[i, b]]
        V = [[covs[i, a, a], covs[i, a, b]], [covs[i, b, a], covs[i, b, b]]]
        return sum(mu[r] * V[r][t] * mu[t] for r in range(2) for t in range(2))
    var_spec = sum(w[i] * ((trv2(i) + 2 * mvm(i)) / 8 - quarter + ni[i] * ni[i]) for i in range(K)) - mean_spec * mean_spec
    h.ensure("photon-variance-of-the-requested-mode", eqv(var, var_spec), bounded_shape=True)


def _xxpp(vals, k):
    """(x1,p1,x2,p2,..) -> (x1,x2,..,p1,p2,..) index map for k modes"""
    return [2 * j for j in range(k)] + [2 * j + 1 for j in range(k)]


@proof("C16", ST + ":BaseBosonicState.fock_prob")
def _bosonic_fock_prob(h):
    """thewalrus expects (x..,p..)-ordered data: every component is handed over re-ordered, weighted by its weight"""
    K, M = B_SHAPES[h.eng.choose(len(B_SHAPES), "shape")]
    st, obj, w, mus, covs = bstate(h, K, M)
    rec = Rec()
    E = [h.real(f"E{i}") for i in range(K)]
    it = iter(E)
    with h.stubbed(st.twq, "density_matrix_element", rec.fn("dme", lambda: next(it))):
        out = h.call(obj.fock_prob, [1] + [0] * (M - 1), cutoff=5)
    h.ensure("no-exception", out.returned, bounded_shape=True)
    if not out.returned:
        return
    perm = _xxpp(None, M)
    ok = len(rec.calls) == K
    for i, c in enumerate(rec.calls[:K]):
        mu_a, cov_a = c[1][0], c[1][1]
        ok = ok and tuple(np.shape(mu_a)) == (2 * M,) and all(mu_a[a] is mus[i, perm[a]] for a in range(2 * M))
        ok = ok and tuple(np.shape(cov_a)) == (2 * M, 2 * M) and all(cov_a[a, b] is covs[i, perm[a], perm[b]] for a in range(2 * M) for b in range(2 * M))
        ok = ok and list(c[1][2]) == [1] + [0] * (M - 1) and list(c[1][3]) == [1] + [0] * (M - 1)
    h.ensure("every-component-handed-to-thewalrus-in-xxpp-order", ok, bounded_shape=True)
    h.ensure("weighted-sum-of-the-component-elements", eqv(out.value, sum(w[i] * E[i] for i in range(K))), bounded_shape=True)


@proof("C16", ST + ":BaseBosonicState.reduced_dm")
def _bosonic_reduced_dm(h):
    K, M = B_SHAPES[h.eng.choose(len(B_SHAPES), "shape")]
    st, obj, w, mus, covs = bstate(h, K, M)
    subsets = [list(c) for r in range(1, M + 1) for c in __import__("itertools").combinations(range(M), r)]
    modes = subsets[h.eng.choose(len(subsets), "modes")]
    rec = Rec()
    E = [h.real(f"E{i}") for i in range(K)]
    it = iter(E)
    with h.stubbed(st.twq, "density_matrix", rec.fn("dm", lambda: next(it))):
        out = h.call(obj.reduced_dm, list(modes), cutoff=3)
    h.ensure("no-exception", out.returned, bounded_shape=True)
    if not out.returned:
        return
    k = len(modes)
    ind = [x for m in modes for x in (2 * m, 2 * m + 1)]
    perm = [ind[a] for a in _xxpp(None, k)]
    ok = len(rec.calls) == K
    for i, c in enumerate(rec.calls[:K]):
        mu_a, cov_a = c[1][0], c[1][1]
        ok = ok and tuple(np.shape(mu_a)) == (2 * k,) and all(mu_a[a] is mus[i, perm[a]] for a in range(2 * k))
        ok = ok and tuple(np.shape(cov_a)) == (2 * k, 2 * k) and all(cov_a[a, b] is covs[i, perm[a], perm[b]] for a in range(2 * k) for b in range(2 * k))
        ok = ok and c[2].get("cutoff") == 3 and c[2].get("normalize") is False
    h.ensure("exactly-the-requested-modes-in-xxpp-order-reach-thewalrus", ok, bounded_shape=True)
    h.ensure("weighted-sum-of-the-component-matrices", eqv(out.value, sum(w[i] * E[i] for i in range(K))), bounded_shape=True)


# ---------------------------------------------------------------- marginal: the density of x_phi for every component
class _ExpSqrt:
    """the module's numpy with exp / sqrt replaced by recorders (their ARGUMENTS are the clauses; values are fresh symbols)"""
    def __init__(self, real_np, h):
        self._np, self._h = real_np, h
        self.exp_args, self.sqrt_args = [], []

    def __getattr__(self, name):
        return getattr(self._np, name)

    def exp(self, x):
        self.exp_args.append(x)
        return self._h.real(f"expval{len(self.exp_args)}")

    def sqrt(self, x):
        self.sqrt_args.append(x)
        v = self._h.real(f"sqrtval{len(self.sqrt_args)}")
        self._h.require(v > 0)
        return v

    def real_if_close(self, x, *a, **k):
        return x


@proof("C16", ST + ":BaseBosonicState.marginal", native=_nat("marginal"))
def _bosonic_marginal(h):
    """the marginal along x_phi = cos(phi) x + sin(phi) p is, component by component, the Gaussian density with the mean and
    the variance of THAT quadrature - the same rotated moments quad_expectation uses: exponent -(x - m_i)^2 / (2 v_i),
    normalisation sqrt(2 pi v_i), with m_i = c mu_x + s mu_p and v_i = c^2 V_xx + c s (V_xp + V_px) + s^2 V_pp"""
    K, M = B_SHAPES[h.eng.choose(len(B_SHAPES), "shape")]
    st, obj, w, mus, covs = bstate(h, K, M)
    mode = h._reg("mode", h.eng.choose(M, "mode"))
    phi, x = h.real("phi"), h.real("x")
    a, b = 2 * mode, 2 * mode + 1
    m = h.eng.math
    c, s = m.cos(phi), m.sin(phi)
    mi = [c * mus[i, a] + s * mus[i, b] for i in range(K)]
    vi = [c * c * covs[i, a, a] + c * s * (covs[i, a, b] + covs[i, b, a]) + s * s * covs[i, b, b] for i in range(K)]
    for i in range(K):
        h.require(vi[i] > 0)
    npx = _ExpSqrt(st.np, h)
    with h.stubbed(st, "np", npx):
        out = h.call(obj.marginal, mode, x, phi)
    h.ensure("no-exception", out.returned, bounded_shape=True)
    if not out.returned:
        return
    h.ensure("one-density-per-component", len(npx.exp_args) == K and len(npx.sqrt_args) == K, bounded_shape=True)
    if len(npx.exp_args) != K or len(npx.sqrt_args) != K:
        return
    for i in range(K):
        d = x - mi[i]
        h.ensure(f"component{i}.exponent-is-minus-(x-m)^2-over-2v-of-the-rotated-quadrature", eqv(npx.exp_args[i] * 2 * vi[i], -(d * d)), bounded_shape=True)
        h.ensure(f"component{i}.normalisation-is-sqrt(2 pi v)-of-the-rotated-quadrature", eqv(npx.sqrt_args[i], 2 * np.pi * vi[i]), bounded_shape=True)
