"""C16 - state objects answer for exactly the subset and order of modes they are asked about
(backends/states.py).  Selection / ordering / convention clauses are PROVED; the numerical agreement of
different float pipelines (thewalrus, Hermite recurrences) is a BOUNDED stand-in (native/c16_states.py).

BaseGaussianState: the state has a SYMBOLIC number of modes N and the mode list has symbolic length:
reduced_gaussian returns exactly mu[modes ++ modes+N] and cov[rows, cols] (whole-result postcondition), rejects
unsorted/duplicated lists; every consumer (mean_photon, quad_expectation, parity_expectation, reduced_dm, fidelity)
is checked to hand exactly that reduced data - and not the full state - to its formula / to thewalrus (recording
stubs for thewalrus.quantum and numpy.linalg).
"""
import numpy as np
import z3
from pyvc.api import *

ST = "strawberryfields.backends.states"

level("C16", "other",
      "Proved: BaseGaussianState.reduced_gaussian for a symbolic number of modes and a mode list of symbolic length (whole "
      "result; unsorted lists rejected); parity_expectation, reduced_dm, mean_photon, fidelity hand exactly the reduced data of "
      "the requested modes to their formula / to thewalrus, reduced_dm tests the purity of the REDUCED state; "
      "BaseBosonicState.fock_prob / reduced_dm hand (x..,p..)-ordered data to thewalrus (shape-bounded, 2-3 modes). Bounded "
      "stand-in: cross-method and cross-representation numerical identities (parity = sum (-1)^n p(n), photon statistics from "
      "Fock probabilities, reduced_dm vs Fock object, fidelities) for every mode subset of correlated 2-3 mode states. Four "
      "genuine defects found and repaired (F29, F30, F31 and the shape clause of F30).",
      trusted=["thewalrus.quantum.* are recording stubs: only their arguments are constrained",
               "library: sorted() contract on symbolic lists"])

native("C16", "c16_states", "native/c16_states.py",
       bound="correlated 2- and 3-mode states, every ordered/sorted mode subset, gaussian/bosonic/fock(cutoff 12)", timeout=900)


def gstate(h):
    st = h.module(ST)
    N = h.int("N", lo=1)
    mu = h.array("mu", (2 * N,), "real")
    cov = h.array("cov", (2 * N, 2 * N), "real")
    obj = h.new(st.BaseGaussianState, _modes=N, _mu=mu, _cov=cov, _hbar=2, _pure=h.bool("pure"), _basis="gaussian")
    return st, obj, N, mu, cov


def sorted_modes(h, N, name="modes"):
    modes = h.list(name, "int")
    h.require(modes.length() >= 1)
    h.require(forall(lambda i: Implies(And(i >= 0, i < modes.length()), And(modes.at(i) >= 0, modes.at(i) < N))))
    return modes


def strictly_ascending(modes):
    return forall(lambda i: Implies(And(i >= 0, i + 1 < modes.length()), modes.at(i) < modes.at(i + 1)))


def spec_ind(modes, N):
    k = modes.length()
    return lambda a: ite(a < k, modes.at(a), modes.at(a - k) + N)


def check_reduced(h, mu_r, cov_r, mu, cov, modes, N, tag=""):
    k = modes.length()
    ind = spec_ind(modes, N)
    a = h.eng.sym_int("ra"); b = h.eng.sym_int("rb")
    h.eng.assume(And(a >= 0, b >= 0, a < 2 * k, b < 2 * k))
    h.ensure(tag + "mu-len", SV(z3int(mu_r.vc_len()) == 2 * k.t))
    h.ensure(tag + "mu-cells", eqv(mu_r.at(a), mu.at(ind(a))))
    h.ensure(tag + "cov-cells", eqv(cov_r.at(a, b), cov.at(ind(a), ind(b))))


@proof("C16", ST + ":BaseGaussianState.reduced_gaussian")
def _reduced(h):
    st, obj, N, mu, cov = gstate(h)
    modes = sorted_modes(h, N)
    out = h.call(obj.reduced_gaussian, modes)
    asc = strictly_ascending(modes)
    if out.exc is not None:
        h.ensure("raises-only-ValueError", out.raised("ValueError"))
        h.ensure("raises-only-if-not-ascending-or-too-long", Or(Not(forall(lambda i: Implies(And(i >= 0, i + 1 < modes.length()), modes.at(i) <= modes.at(i + 1)))),
                                                                modes.length() > N))
        return
    mu_r, cov_r = out.value
    if mu_r is mu:
        # shortcut: modes == range(N)
        h.ensure("full-state-only-for-all-modes", And(modes.length() == N, forall(lambda i: Implies(And(i >= 0, i < N), modes.at(i) == i))))
        h.ensure("full-cov", cov_r is cov)
        return
    check_reduced(h, mu_r, cov_r, mu, cov, modes, N)


class Rec:
    def __init__(self):
        self.calls = []

    def fn(self, name, ret):
        def f(*a, **kw):
            self.calls.append((name, a, kw))
            return ret() if callable(ret) else ret
        return f


MODE_SETS = [[0], [1], [2], [0, 1], [0, 2], [1, 2]]


def consumer(h):
    """a consumer method is run with reduced_gaussian replaced by its contract (fresh arrays RM, RC of the reduced
    size); only (RM, RC) may reach thewalrus / numpy.linalg.  N is symbolic (> every requested mode)."""
    st, obj, N, mu, cov = gstate(h)
    modes = list(MODE_SETS[h.eng.choose(len(MODE_SETS), "modes")])
    h.require(N > max(modes) + 1)
    k = len(modes)
    RM = h.array("RM", (2 * k,), "real")
    RC = h.array("RC", (2 * k, 2 * k), "real")
    asked = []

    def red(self, m):
        asked.append(list(m) if not isinstance(m, SList) else m)
        return RM, RC
    return st, obj, N, modes, RM, RC, asked, red, Rec()


def is_arr(x, A):
    return getattr(x, "store", None) is A.store


@proof("C16", ST + ":BaseGaussianState.parity_expectation")
def _parity(h):
    st, obj, N, modes, RM, RC, asked, red, rec = consumer(h)
    k = len(modes)
    inv_out = h.array("INV", (2 * k, 2 * k), "real")
    det_out = h.real("DET")
    h.require(det_out > 0)
    with h.stubbed(st.BaseGaussianState, "reduced_gaussian", red), \
            h.stubbed(st.np.linalg, "inv", rec.fn("inv", inv_out)), h.stubbed(st.np.linalg, "det", rec.fn("det", det_out)):
        out = h.call(obj.parity_expectation, list(modes))
    h.ensure("no-exception", out.returned, bounded_shape=True)
    if not out.returned:
        return
    h.ensure("asks-for-exactly-the-requested-modes", len(asked) == 1 and sorted(asked[0]) == sorted(modes), bounded_shape=True)
    invs = [c for c in rec.calls if c[0] == "inv"]
    dets = [c for c in rec.calls if c[0] == "det"]
    h.ensure("inverse-of-the-REDUCED-covariance", len(invs) == 1 and is_arr(invs[0][1][0], RC), bounded_shape=True)
    h.ensure("determinant-of-the-REDUCED-covariance", len(dets) == 1 and is_arr(dets[0][1][0], RC), bounded_shape=True)
    # value: (hbar/2)^k exp(-mu.Vinv.mu/2)/sqrt(det) with the REDUCED means (hbar = 2)
    quad = 0
    for a_ in range(2 * k):
        for b_ in range(2 * k):
            quad = quad + RM.at(a_) * inv_out.at(a_, b_) * RM.at(b_)
    m = h.eng.math
    h.ensure("value-from-the-reduced-state", eqv(out.value, m.exp(-(quad / 2)) / m.sqrt(det_out)), bounded_shape=True)


@proof("C16", ST + ":BaseGaussianState.reduced_dm")
def _reduced_dm(h):
    st, obj, N, modes, RM, RC, asked, red, rec = consumer(h)
    det_out = h.real("DET")
    psi = np.zeros([2] * len(modes))
    psi[(0,) * len(modes)] = 1.0
    with h.stubbed(st.BaseGaussianState, "reduced_gaussian", red), h.stubbed(st.np.linalg, "det", rec.fn("det", det_out)), \
            h.stubbed(st.twq, "state_vector", rec.fn("state_vector", psi)), h.stubbed(st.twq, "density_matrix", rec.fn("density_matrix", "RHO")):
        out = h.call(obj.reduced_dm, list(modes), cutoff=2)
    h.ensure("no-exception", out.returned, bounded_shape=True)
    dets = [c for c in rec.calls if c[0] == "det"]
    h.ensure("purity-decided-on-the-REDUCED-covariance", len(dets) == 1 and is_arr(dets[0][1][0], RC), bounded_shape=True)
    sv = [c for c in rec.calls if c[0] == "state_vector"]
    dm = [c for c in rec.calls if c[0] == "density_matrix"]
    h.ensure("exactly-one-thewalrus-call", len(sv) + len(dm) == 1, bounded_shape=True)
    for c in sv + dm:
        h.ensure("thewalrus-gets-the-REDUCED-state", is_arr(c[1][0], RM) and is_arr(c[1][1], RC), bounded_shape=True)
    # the pure shortcut is taken exactly when the REDUCED state is pure: |det(RC) - (hbar/2)^(2k)| < tol  (hbar = 2)
    tol = st.BaseGaussianState.EQ_TOLERANCE
    if sv:
        h.ensure("pure-branch-only-if-reduced-state-pure", abs(det_out - 1) < tol, bounded_shape=True)
        if out.returned:
            h.ensure("two-indices-per-mode", tuple(out.value.shape) == tuple([2] * (2 * len(modes))), bounded_shape=True)
    if dm:
        h.ensure("mixed-branch-only-if-reduced-state-mixed", Not(abs(det_out - 1) < tol), bounded_shape=True)
        if out.returned:
            h.ensure("mixed-branch-returns-thewalrus-result", out.value == "RHO", bounded_shape=True)


@proof("C16", ST + ":BaseGaussianState.mean_photon")
def _mean_photon(h):
    st, obj, N, mu, cov = gstate(h)
    mode = h.int("mode", lo=0)
    h.require(mode < N)
    h.require(N >= 2)
    out = h.call(obj.mean_photon, mode)
    h.ensure("no-exception", out.returned)
    if out.returned:
        mean, var = out.value
        x, p = mu.at(mode), mu.at(mode + N)
        vxx, vpp = cov.at(mode, mode), cov.at(mode + N, mode + N)
        # <n> = (tr V + mu.mu)/(2 hbar) - 1/2 of the ONE requested mode (hbar = 2 in this harness)
        h.ensure("mean-photon-of-the-requested-mode", eqv(mean, (vxx + vpp + x * x + p * p) / 4 - SV(z3.RealVal("1/2"))))
