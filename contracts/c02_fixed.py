"""C02 (+C10 parametricity, C15 hbar) - fixed-size gate decompositions in strawberryfields/ops.py.

The REAL `decompose` (Gate.decompose -> _decompose, with the dagger handling) is executed on an
opaque real parameter; the emitted command list is folded with the documented action of the
primitives (contracts/_circuit_sem.py) and must equal the documented action of the composite for
EVERY parameter value, in dagger and non-dagger form, for every choice/order of target modes.
"""
import sys, os
sys.path.insert(0, os.path.dirname(__file__))
import numpy as np
from pyvc.api import *
import _circuit_sem as cs

OPS = "strawberryfields.ops"
PU = "strawberryfields.program_utils"


def run(h, cls, nparams, modes, n, dagger, hbar_sym=False):
    ops, pu = h.module(OPS), h.module(PU)
    m = h.eng.math
    if hbar_sym:
        hb = h.real("hbar")
        h.require(hb > 0)
        h.ghost(hbar=hb)
    else:
        hb = 2
    ps = [h.real(f"p{k}") for k in range(nparams)]
    for k_, v_ in (("cls", cls), ("modes", list(modes)), ("n", n), ("dagger", bool(dagger)), ("nparams", nparams)):
        h._reg(k_, v_)
    g = getattr(ops, cls)(*ps)
    if dagger:
        g = g.H
    q = [pu.RegRef(k) for k in range(n)]
    reg = [q[k] for k in modes]
    p_before = list(g.p)
    out = h.call(g.decompose, reg)
    h.ensure("no-exception", out.returned)
    if not out.returned:
        return
    seq = out.value
    # documented action of the composite itself; the dagger form is its true inverse
    pc = list(ps)
    if cls == "Fouriergate":
        pc = [np.pi / 2]          # documented: F = R(pi/2)
    S_doc, d_doc = cs.symplectic(cls, pc, modes, n, m, hb)
    if dagger:
        S_doc, d_doc = cs.inverse(S_doc, d_doc)
    S, d = cs.sem(seq, n, m, hb)
    cs.ensure_equal(h, "", S, d, S_doc, d_doc)
    # C09: the decomposed gate itself is left untouched; products are fresh objects
    h.ensure("frame.self.p", all(a is b for a, b in zip(g.p, p_before)) and len(g.p) == len(p_before))
    h.ensure("fresh-products", all(c.op is not g for c in seq))
    # targets: emitted commands act only on the gate's own modes
    h.ensure("targets", all(r.ind in modes for c in seq for r in c.reg))


def reg_variants(ns):
    if ns == 1:
        return [((0,), 1), ((1,), 2)]
    return [((0, 1), 2), ((1, 0), 2), ((2, 0), 3)]


GATES = [("Xgate", 1, 1, True), ("Zgate", 1, 1, True), ("Pgate", 1, 1, False), ("Fouriergate", 0, 1, False),
         ("MZgate", 2, 2, False), ("sMZgate", 2, 2, False), ("S2gate", 2, 2, False), ("CXgate", 1, 2, False), ("CZgate", 1, 2, False)]

for (cls, npar, ns, hsym) in GATES:
    for modes, n in reg_variants(ns):
        for dg in (False, True):
            props = ["C02", "C10"] + (["C15"] if hsym else [])

            def mkproof(cls=cls, npar=npar, modes=modes, n=n, dg=dg, hsym=hsym):
                def fn(h):
                    run(h, cls, npar, modes, n, dg, hsym)
                fn.__name__ = ""
                return fn
            PROOFS.append(Proof(props, f"{OPS}:{cls}._decompose", mkproof(),
                                name=f"{cls}.decompose/modes={','.join(map(str, modes))}/n={n}/{'dagger' if dg else 'plain'}",
                                uses=[f"{OPS}:Gate.decompose"],
                                native="from native.c01_backends import replay_decomposition; replay_decomposition(OBLIGATION, I)"))


# ---------------------------------------------------------------------------------------------
# Gate.apply's first-parameter convention (C02 mechanism): for every gate class that is applied
# NATIVELY by some backend, `p[0] == 0` must be the identity (apply skips the backend call) and
# negating p[0] must give the inverse (that is how apply implements `dagger`).  Checked against
# the documented actions.  MZgate (native on the Fock/TF backends) violates both: findings F36, F37.
NATIVE_GATES = [("Dgate", 2, 1), ("Rgate", 1, 1), ("Sgate", 2, 1), ("BSgate", 2, 2), ("S2gate", 2, 2), ("MZgate", 2, 2)]


def convention(h, cls, npar, ns, which):
    m = h.eng.math
    ps = [h.real(f"p{k}") for k in range(npar)]
    n = ns
    modes = list(range(ns))
    fid = {"neg-is-inverse": "F36", "zero-is-identity": "F37"}[which] if cls == "MZgate" else None
    if which == "neg-is-inverse":
        S1, d1 = cs.symplectic(cls, ps, modes, n, m, 2)
        S2, d2 = cs.symplectic(cls, [-ps[0]] + ps[1:], modes, n, m, 2)
        S, d = cs.compose(S2, d2, S1, d1)
    else:
        S, d = cs.symplectic(cls, [0] + ps[1:], modes, n, m, 2)
    Si, di = cs.identity(n)
    for a in range(2 * n):
        for b in range(2 * n):
            h.ensure(f"S[{a},{b}]", eqv(S[a, b], Si[a, b]), finding=fid)
        h.ensure(f"d[{a}]", eqv(d[a], di[a]), finding=fid)


for (cls, npar, ns) in NATIVE_GATES:
    for which in ("neg-is-inverse", "zero-is-identity"):
        def mk2(cls=cls, npar=npar, ns=ns, which=which):
            def fn(h):
                convention(h, cls, npar, ns, which)
            fn.__name__ = ""
            return fn
        PROOFS.append(Proof("C02", f"{OPS}:Gate.apply", mk2(), name=f"Gate.apply-convention/{cls}/{which}"))


native("C02", "c02_preps", "native/c02_preps.py",
       bound="Gaussian preparation: all decomposition branches, squeezing angle over [-pi,pi] in 9 (quick) / 25 (thorough) steps, 1- and 2-mode targets in every order on a correlated 3-mode register",
       timeout=900)
