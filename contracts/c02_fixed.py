"""C02 (+C10 parametricity, C15 hbar) - fixed-size gate decompositions in strawberryfields/ops.py.

The REAL `decompose` (Gate.decompose -> _decompose, with the dagger handling) is executed on an
opaque real parameter; the emitted command list is folded with the documented action of the
primitives (contracts/_circuit_sem.py) and must equal the documented action of the composite for
EVERY parameter value, in dagger and non-dagger form, for every choice/order of target modes.
"""
import sys, os
sys.path.insert(0, os.path.dirname(__file__))
import numpy as np
from pyvc.api import *
import _circuit_sem as cs

OPS = "strawberryfields.ops"
PU = "strawberryfields.program_utils"


def run(h, cls, nparams, modes, n, dagger, hbar_sym=False):
    ops, pu = h.module(OPS), h.module(PU)
    m = h.eng.math
    if hbar_sym:
        hb = h.real("hbar")
        h.require(hb > 0)
        h.ghost(hbar=hb)
    else:
        hb = 2
    ps = [h.real(f"p{k}") for k in range(nparams)]
    for k_, v_ in (("cls", cls), ("modes", list(modes)), ("n", n), ("dagger", bool(dagger)), ("nparams", nparams)):
        h._reg(k_, v_)
    g = getattr(ops, cls)(*ps)
    if dagger:
        g = g.H
    q = [pu.RegRef(k) for k in range(n)]
    reg = [q[k] for k in modes]
    p_before = list(g.p)
    out = h.call(g.decompose, reg)
    h.ensure("no-exception", out.returned)
    if not out.returned:
        return
    seq = out.value
    # documented action of the composite itself; the dagger form is its true inverse
    pc = list(ps)
    if cls == "Fouriergate":
        pc = [np.pi / 2]          # documented: F = R(pi/2)
    S_doc, d_doc = cs.symplectic(cls, pc, modes, n, m, hb)
    if dagger:
        S_doc, d_doc = cs.inverse(S_doc, d_doc)
    S, d = cs.sem(seq, n, m, hb)
    cs.ensure_equal(h, "", S, d, S_doc, d_doc)
    # C09: the decomposed gate itself is left untouched; products are fresh objects
    h.ensure("frame.self.p", all(a is b for a, b in zip(g.p, p_before)) and len(g.p) == len(p_before))
    h.ensure("fresh-products", all(c.op is not g for c in seq))
    # targets: emitted commands act only on the gate's own modes
    h.ensure("targets", all(r.ind in modes for c in seq for r in c.reg))


def reg_variants(ns):
    if ns == 1:
        return [((0,), 1), ((1,), 2)]
    return [((0, 1), 2), ((1, 0), 2), ((2, 0), 3)]


GATES = [("Xgate", 1, 1, True), ("Zgate", 1, 1, True), ("Pgate", 1, 1, False), ("Fouriergate", 0, 1, False),
         ("MZgate", 2, 2, False), ("sMZgate", 2, 2, False), ("S2gate", 2, 2, False), ("CXgate", 1, 2, False), ("CZgate", 1, 2, False)]

for (cls, npar, ns, hsym) in GATES:
    for modes, n in reg_variants(ns):
        for dg in (False, True):
            props = ["C02", "C10"] + (["C15"] if hsym else [])

            def mkproof(cls=cls, npar=npar, modes=modes, n=n, dg=dg, hsym=hsym):
                def fn(h):
                    run(h, cls, npar, modes, n, dg, hsym)
                fn.__name__ = ""
                return fn
            PROOFS.append(Proof(props, f"{OPS}:{cls}._decompose", mkproof(),
                                name=f"{cls}.decompose/modes={','.join(map(str, modes))}/n={n}/{'dagger' if dg else 'plain'}",
                                uses=[f"{OPS}:Gate.decompose"],
                                native="from native.c01_backends import replay_decomposition; replay_decomposition(OBLIGATION, I)"))


# ---------------------------------------------------------------------------------------------
# Gate.apply's first-parameter convention (C02 mechanism): for every gate class that is applied
# NATIVELY by some backend, `p[0] == 0` must be the identity (apply skips the backend call) and
# negating p[0] must give the inverse (that is how apply implements `dagger`).  Checked against
# the documented actions.  MZgate (native on the Fock/TF backends) violates both: findings F36, F37.
NATIVE_GATES = [("Dgate", 2, 1), ("Rgate", 1, 1), ("Sgate", 2, 1), ("BSgate", 2, 2), ("S2gate", 2, 2), ("MZgate", 2, 2)]


def convention(h, cls, npar, ns, which):
    m = h.eng.math
    ps = [h.real(f"p{k}") for k in range(npar)]
    n = ns
    modes = list(range(ns))
    fid = {"neg-is-inverse": "F36", "zero-is-identity": "F37"}[which] if cls == "MZgate" else None
    if which == "neg-is-inverse":
        S1, d1 = cs.symplectic(cls, ps, modes, n, m, 2)
        S2, d2 = cs.symplectic(cls, [-ps[0]] + ps[1:], modes, n, m, 2)
        S, d = cs.compose(S2, d2, S1, d1)
    else:
        S, d = cs.symplectic(cls, [0] + ps[1:], modes, n, m, 2)
    Si, di = cs.identity(n)
    for a in range(2 * n):
        for b in range(2 * n):
            h.ensure(f"S[{a},{b}]", eqv(S[a, b], Si[a, b]), finding=fid)
        h.ensure(f"d[{a}]", eqv(d[a], di[a]), finding=fid)


for (cls, npar, ns) in NATIVE_GATES:
    for which in ("neg-is-inverse", "zero-is-identity"):
        def mk2(cls=cls, npar=npar, ns=ns, which=which):
            def fn(h):
                convention(h, cls, npar, ns, which)
            fn.__name__ = ""
            return fn
        PROOFS.append(Proof("C02", f"{OPS}:Gate.apply", mk2(), name=f"Gate.apply-convention/{cls}/{which}"))


native("C02", "c02_preps", "native/c02_preps.py",
       bound="Gaussian preparation: all decomposition branches, squeezing angle over [-pi,pi] in 9 (quick) / 25 (thorough) steps, 1- and 2-mode targets in every order on a correlated 3-mode register",
       timeout=900)


# =====================================================================================
# Gaussian._decompose, the branches that do NOT go through the Williamson factor: a diagonal covariance matrix with
# SYMBOLIC entries (1 and 2 modes; shape-bounded).  Precondition: V is a covariance matrix (positive diagonal,
# Vxx Vpp >= 1 per mode) and `pure` is what __init__ computes from it.  Postcondition, whenever the returned commands
# are single-mode preparations only: mode n is prepared with variances (V[n,n], V[n+ns,n+ns]) - within the elision
# tolerance where the code prepares vacuum instead - and displaced by the requested means.
#   Thermal(nbar) -> variances (2 nbar + 1, 2 nbar + 1);  Vacuum -> (1, 1);
#   Squeezed(r, phi) with phi in {0, pi} -> (e^{-2r}, e^{2r}) resp. (e^{2r}, e^{-2r}); the exponential is abstracted by
#   the engine (MathAbs), the clause checked there is the choice of the branch: r = |log(Vxx)| / 2, phi = 0 iff Vxx < 1.
# =====================================================================================
def _gaussian_diag(ns, pure):
    def fn(h):
        import numpy as _np
        ops, pu = h.module(OPS), h.module("strawberryfields.program_utils")
        tol = ops._decomposition_tol
        D = [h.real(f"D{k}") for k in range(2 * ns)]
        for k in range(ns):
            h.require(And(D[k] > 0, D[k + ns] > 0, D[k] * D[k + ns] >= 1))
        V = _np.zeros((2 * ns, 2 * ns), dtype=object)
        for k in range(2 * ns):
            V[k, k] = D[k]
        r = _np.array([h.real(f"r{k}") for k in range(2 * ns)], dtype=object)
        if pure:
            # a pure diagonal covariance matrix: every mode saturates the uncertainty relation
            for k in range(ns):
                h.require(D[k] * D[k + ns] == 1)
        else:
            h.require(Or(*[D[k] * D[k + ns] > 1 + 1e-3 for k in range(ns)]))
        op = h.new(ops.Gaussian, p=[V, r], ns=ns, pure=pure, decomp=True, x_disp=r[:ns], p_disp=r[ns:],
                   nbar=_np.array([h.real(f"williamson_nbar{k}") for k in range(ns)], dtype=object), S="WILLIAMSON-S", _measurement_deps=set())
        reg = [pu.RegRef(k) for k in range(ns)]

        class GaussianTransform:            # the general branch (Williamson factor) is not evaluated here
            def __init__(self, S, vacuum=False):
                self.p = [S]
        with h.stubbed(ops, "GaussianTransform", GaussianTransform):
            out = h.call(op._decompose, reg)
        h.ensure("no-exception", out.returned, bounded_shape=True)
        if not out.returned:
            return
        cmds = out.value
        if any(type(c.op).__name__ == "GaussianTransform" for c in cmds):
            h.cover("general-branch-reached")
            return
        preps = {}
        disp = {}
        for c in cmds:
            nm, (m,) = type(c.op).__name__, [x.ind for x in c.reg]
            if nm in ("Thermal", "Vacuum", "Squeezed"):
                h.ensure(f"mode{m}.prepared-once", m not in preps, bounded_shape=True)
                preps[m] = c.op
            elif nm in ("Xgate", "Zgate"):
                disp[(nm, m)] = c.op.p[0]
            else:
                h.ensure(f"unexpected-command-{nm}", False, bounded_shape=True)
        for n in range(ns):
            h.ensure(f"mode{n}.prepared", n in preps, bounded_shape=True)
            if n not in preps:
                continue
            o = preps[n]
            nm = type(o).__name__
            if nm == "Thermal":
                v = 2 * o.p[0] + 1
                h.ensure(f"mode{n}.thermal.x-variance", eqv(v, D[n]), bounded_shape=True)
                h.ensure(f"mode{n}.thermal.p-variance", eqv(v, D[n + ns]), bounded_shape=True)
            elif nm == "Vacuum":
                h.ensure(f"mode{n}.vacuum.x-variance-within-elision-tolerance", abs(D[n] - 1) <= 2 * tol, bounded_shape=True)
                h.ensure(f"mode{n}.vacuum.p-variance-within-elision-tolerance", abs(D[n + ns] - 1) <= 4 * tol, bounded_shape=True)
            else:
                rr, phi = o.p
                h.ensure(f"mode{n}.squeezed.only-for-a-pure-state", pure, bounded_shape=True)
                h.ensure(f"mode{n}.squeezed.axis-is-x-or-p", phi in (0, _np.pi), bounded_shape=True)
                m_ = h.eng.math
                vx = m_.exp(-2 * rr) if phi == 0 else m_.exp(2 * rr)
                vp = m_.exp(2 * rr) if phi == 0 else m_.exp(-2 * rr)
                h.ensure(f"mode{n}.squeezed.x-variance", eqv(vx, D[n]), bounded_shape=True)
                h.ensure(f"mode{n}.squeezed.p-variance", eqv(vp, D[n + ns]), bounded_shape=True)
                if phi == 0:
                    h.ensure(f"mode{n}.squeezed.x-squeezed-iff-x-variance-below-vacuum", D[n] < 1, bounded_shape=True)
                else:
                    h.ensure(f"mode{n}.squeezed.p-squeezed-iff-x-variance-above-vacuum", D[n] >= 1, bounded_shape=True)
            h.ensure(f"mode{n}.x-displacement", eqv(disp.get(("Xgate", n), 0), r[n]), bounded_shape=True)
            h.ensure(f"mode{n}.p-displacement", eqv(disp.get(("Zgate", n), 0), r[n + ns]), bounded_shape=True)
    fn.__name__ = ""
    return fn


for _ns in (1, 2):
    for _pure in (False, True):
        PROOFS.append(Proof("C02", f"{OPS}:Gaussian._decompose", _gaussian_diag(_ns, _pure),
                            name=f"Gaussian._decompose/diagonal-covariance/{_ns}-mode/{'pure' if _pure else 'mixed'}"))
