"""C12 - hardware compilation: conformance clauses are PROVED (parameter ranges, phase compensation of the Borealis
loops), 'preserves the experiment' is a BOUNDED stand-in (native/c12_hw.py: Takagi / mesh re-synthesis are LAPACK
numerics)."""
import numpy as np
import z3
from pyvc.api import *

CO = "strawberryfields.compilers.compiler"
DV = "strawberryfields.device"
TD = "strawberryfields.compilers.tdm"

level("C12", "other",
      "Proved for all values: Range/Ranges membership (with tolerance), Device.validate_parameters returns normally only if "
      "every (flattened, arbitrarily nested) value lies in an allowed range and raises ValueError for unknown names, "
      "Borealis.update_params brings every compensated phase into [-pi/2, pi/2] and changes it only by the accumulated loop "
      "offset modulo pi (3 loops x 2..3 time bins, all phases/offsets symbolic: shape-bounded). Bounded stand-in: Xunitary/Xcov "
      "on generated sources (zero, missing, repeated squeezers on one/two/all pairs, identity/swap/Haar interferometers, 4..8 "
      "modes): layout conformance and identical Gaussian state (Xunitary) / identical photon statistics up to local phases "
      "(Xcov). F15 found and repaired.",
      trusted=["blackbird.match_template and the layout isomorphism test of Compiler.compile are not under contract"])

native("C12", "c12_device", "native/c12_device.py",
       bound="mock 4-mode X-series device (layout template, allowed squeezing values, phase ranges): 27 (quick) / 63 (thorough) valid "
             "sources compiled and checked for topology, parameter sets and state; 6 kinds of sources the device cannot run; 7 "
             "measurement-limit cases of Program.assert_modes", timeout=900)
native("C12", "c12_hw", "native/c12_hw.py", bound="n=4 (quick) / 4,6,8 (thorough); 7 squeezer patterns x 3-5 unitaries x 2 orders x 2 compilers", timeout=900)


@proof("C12", CO + ":Range.__contains__")
def _range(h):
    co = h.module(CO)
    x, y, atol, item = h.real("x"), h.real("y"), h.real("atol"), h.real("item")
    h.require(And(x <= y, atol >= 0))
    r = h.new(co.Range, x=x, y=y, atol=atol, name="p")
    out = h.call(r.__contains__, item)
    h.ensure("no-exception", out.returned)
    if out.returned:
        h.ensure("member-iff-within-tolerance", eqv(out.value if isinstance(out.value, SV) else bool(out.value),
                                                    And(x - atol <= item, item <= y + atol)))


def mk_ranges(h, co, name, k):
    rs = []
    for i in range(k):
        lo, hi = h.real(f"{name}_lo{i}"), h.real(f"{name}_hi{i}")
        h.require(lo <= hi)
        rs.append(h.new(co.Range, x=lo, y=hi, atol=1e-5, name=name))
    return h.new(co.Ranges, ranges=rs, name=name), rs


def in_ranges(rs, v):
    return Or(*[And(r.x - r.atol <= v, v <= r.y + r.atol) for r in rs])


@proof("C12", CO + ":Ranges.__contains__")
def _ranges(h):
    co = h.module(CO)
    R, rs = mk_ranges(h, co, "p", 3)
    item = h.real("item")
    out = h.call(R.__contains__, item)
    h.ensure("no-exception", out.returned)
    if out.returned:
        h.ensure("member-iff-in-some-range", eqv(bool(out.value) if not isinstance(out.value, SV) else out.value, in_ranges(rs, item)))


@proof("C12", DV + ":Device.validate_parameters")
def _validate(h):
    co, dv = h.module(CO), h.module(DV)
    Ra, ra = mk_ranges(h, co, "a", 2)
    Rb, rb = mk_ranges(h, co, "b", 2)          # an array-valued parameter with a UNION of allowed ranges (a gap between them)
    dev = object.__new__(dv.Device)
    dev._spec = {"gate_parameters": {"a": Ra, "b": Rb}}
    with h.stubbed(dv.Device, "gate_parameters", property(lambda self: {"a": Ra, "b": Rb})):
        a = h.real("a_val")
        b = [[h.real("b00"), h.real("b01")], [h.real("b10")], h.real("b2")]
        out = h.call(dev.validate_parameters, a=a, b=b)
        flat_b = [b[0][0], b[0][1], b[1][0], b[2]]
        ok = And(in_ranges(ra, a), *[in_ranges(rb, v) for v in flat_b])
        if out.exc is not None:
            h.ensure("raises-only-ValueError", out.raised("ValueError"), bounded_shape=True)
            h.ensure("raises-only-if-some-value-out-of-range", Not(ok), bounded_shape=True)
        else:
            h.ensure("returns-only-if-every-value-in-range", ok, bounded_shape=True)
        out2 = h.call(dev.validate_parameters, c=h.real("c_val"))
        h.ensure("unknown-parameter-name=>ValueError", out2.raised("ValueError"), bounded_shape=True)


def update_case(h, T):
    td = h.module(TD)
    comp = object.__new__(td.Borealis)
    comp.delays = [1, 2, 3]
    comp.phi_range = [-np.pi / 2, np.pi / 2]
    comp._user_offsets = [False, False, False]
    offs = [h.real(f"offset{l}") for l in range(3)]
    phis = [[h.real(f"phi{l}_{j}") for j in range(T)] for l in range(3)]

    class Prog:
        pass
    prog = Prog()
    # tdm_params layout of the Borealis template: [r, phi0, theta0, phi1, theta1, phi2, theta2]
    prog.tdm_params = [[0.0] * T, list(phis[0]), [0.0] * T, list(phis[1]), [0.0] * T, list(phis[2]), [0.0] * T]

    class Dev:
        certificate = {"loop_phases": offs}
    with h.stubbed(td.Borealis, "_replace_loop_offset_params", lambda self, p, d, u: None), \
            h.stubbed(td.logger, "warning", lambda *a, **k: None):
        out = h.call(comp.update_params, prog, Dev())
    h.ensure("no-exception", out.returned, bounded_shape=True)
    if not out.returned:
        return
    pi = np.pi
    for l in range(3):
        res = prog.tdm_params[1 + 2 * l]
        for j in range(T):
            v = res[j]
            h.ensure(f"loop{l}/bin{j}/within-modulator-range", And(v >= -pi / 2, v <= pi / 2), bounded_shape=True)
            corr = offs[l] * int(j / comp.delays[l]) - (offs[l - 1] * int(j / comp.delays[l - 1]) if l > 0 else 0)
            # v = phi + corr + k pi for an integer k; witness: k = -2 q + c with q the quotient of the code's own
            # np.mod(., 2 pi) (the engine's integer unknown of that call) and c in {-3,..,1} from the three branch fixes
            idx = l * T + j
            q = z3.Int("modq" if idx == 0 else f"modq!{idx}")
            tgt = z3real(phis[l][j] + corr)
            h.ensure(f"loop{l}/bin{j}/requested-phase-plus-accumulated-offset-mod-pi",
                     SV(z3.Or([z3real(v) == tgt + (z3.ToReal(q) * (-2) + c) * z3real(pi) for c in (-3, -2, -1, 0, 1)])), bounded_shape=True)


for T in (2, 3):
    def mk(T=T):
        def f(h):
            update_case(h, T)
        f.__name__ = ""
        return f
    PROOFS.append(Proof("C12", TD + ":Borealis.update_params", mk(), name=f"Borealis.update_params/timebins={T}", max_paths=3000))
