"""C01 / C05 / C07 / C08 - backends/gaussianbackend/gaussiancircuit.py:GaussianModes

State: nmat[i,j] = <a_i^dag a_j>, mmat[i,j] = <a_i a_j>, mean[i] = <a_i>  (hbar = 2).
Spec (independent of the code): a linear Bogoliubov map  a_i' = sum_a A[i,a] a_a + B[i,a] a_a^dag
acts on the moments as
   N'[i,j] = sum_{a,b} conj(A_ia) A_jb N_ab + conj(A_ia) B_jb conj(M_ab) + conj(B_ia) A_jb M_ab + conj(B_ia) B_jb (N_ba + d_ab)
   M'[i,j] = sum_{a,b} A_ia A_jb M_ab + A_ia B_jb (N_ba + d_ab) + B_ia A_jb N_ab + B_ia B_jb conj(M_ab)
   alpha'[i] = sum_a A_ia alpha_a + B_ia conj(alpha_a)
with (A,B) the documented action of each gate (strawberryfields/ops.py docstrings) embedded at
the target modes and identity elsewhere.  Every postcondition is stated for ALL cells (i,j): the
C05 frame ("entries outside the target rows/columns unchanged") is the same clause read at i,j
outside the targets, and is also emitted as its own obligation.
"""
import z3
from pyvc.api import *

G = "strawberryfields.backends.gaussianbackend.gaussiancircuit"
PROPS = ["C01", "C05", "C07"]


def conj(x):
    return x.conjugate() if hasattr(x, "conjugate") else x


def delta(a, b):
    return ite(SV(z3int(a) == z3int(b)), 1, 0)


class St:
    pass


def mk(h, n_lo=1, cells=True, extra_idx=()):
    """arbitrary GaussianModes of n modes + the two cell indices i, j at which the post is read"""
    GM = h.cls(G, "GaussianModes")
    n = h.int("n", lo=n_lo)
    N = h.array("N", (n, n), "complex")
    Mm = h.array("M", (n, n), "complex")
    mean = h.array("alpha", (n,), "complex")
    active = h.list("active", "optint", length=n)
    self = h.new(GM, hbar=2, nlen=n, nmat=N, mmat=Mm, mean=mean, active=active)
    s = St()
    s.self, s.n, s.N0, s.M0, s.a0, s.act0 = self, n, N.copy(), Mm.copy(), mean.copy(), active.copy()
    s.i = h.int("i", lo=0)
    s.j = h.int("j", lo=0)
    h.require(And(s.i < n, s.j < n))
    # wf of the active list (C08): active[k] in {None, k}
    h.require(forall(lambda q: Implies(And(q >= 0, q < n), Or(isnone(active.at(q)), SV(active.at(q).val == q.t)))))
    return s


def rep_inv(h, s, terms):
    """representation invariant hermitian(N), symmetric(M), instantiated at the given index terms"""
    for a in terms:
        for b in terms:
            h.require(eqv(s.N0.at(a, b), conj(s.N0.at(b, a))))
            h.require(eqv(s.M0.at(a, b), s.M0.at(b, a)))


def rows(i, targets, coef):
    """row i of (A,B): list of (column index, A_ia, B_ia) ; identity outside the target set.
    coef[n] = list of (column index, A, B) for the n-th target row.  Returns a list of alternatives
    [(cond, row)] covering i==t for each target and the identity row otherwise."""
    alts = []
    neq = []
    for n_, t in enumerate(targets):
        alts.append((SV(z3int(i) == z3int(t)), coef[n_]))
        neq.append(SV(z3int(i) != z3int(t)))
    alts.append((And(*neq) if neq else True, [(i, 1, 0)]))
    return alts


def _sel(alts, f):
    """ite-chain over row alternatives"""
    r = f(alts[-1][1])
    for c, row in reversed(alts[:-1]):
        r = ite(c, f(row), r)
    return r


def bogo(s, targets, coef):
    """spec closures (Nspec(i,j), Mspec(i,j), aspec(i)) from the pre-state s.N0, s.M0, s.a0"""
    N0, M0, a0 = s.N0, s.M0, s.a0

    def Nspec(i, j):
        def f(ri):
            def g(rj):
                tot = 0
                for (a, Aia, Bia) in ri:
                    for (b, Ajb, Bjb) in rj:
                        tot = tot + conj(Aia) * Ajb * N0.at(a, b) + conj(Aia) * Bjb * conj(M0.at(a, b)) \
                            + conj(Bia) * Ajb * M0.at(a, b) + conj(Bia) * Bjb * (N0.at(b, a) + delta(a, b))
                return tot
            return _sel(rows(j, targets, coef), g)
        return _sel(rows(i, targets, coef), f)

    def Mspec(i, j):
        def f(ri):
            def g(rj):
                tot = 0
                for (a, Aia, Bia) in ri:
                    for (b, Ajb, Bjb) in rj:
                        tot = tot + Aia * Ajb * M0.at(a, b) + Aia * Bjb * (N0.at(b, a) + delta(a, b)) \
                            + Bia * Ajb * N0.at(a, b) + Bia * Bjb * conj(M0.at(a, b))
                return tot
            return _sel(rows(j, targets, coef), g)
        return _sel(rows(i, targets, coef), f)

    def aspec(i):
        def f(ri):
            tot = 0
            for (a, Aia, Bia) in ri:
                tot = tot + Aia * a0.at(a) + Bia * conj(a0.at(a))
            return tot
        return _sel(rows(i, targets, coef), f)
    return Nspec, Mspec, aspec


def post_all(h, s, targets, Nspec, Mspec, aspec, tag=""):
    """whole-state postcondition at the symbolic cell (i,j) + frame + representation invariant"""
    self, i, j = s.self, s.i, s.j
    sp = [i, j] + list(targets)
    h.ensure(tag + "post.N", eqv(self.nmat.at(i, j), Nspec(i, j)), split=sp)
    h.ensure(tag + "post.M", eqv(self.mmat.at(i, j), Mspec(i, j)), split=sp)
    h.ensure(tag + "post.alpha", eqv(self.mean.at(i), aspec(i)), split=[i] + list(targets))
    out = And(*[And(SV(i.t != z3int(t)), SV(j.t != z3int(t))) for t in targets])
    # C05: nothing outside the target rows/columns changes
    h.ensure(tag + "frame.N", Implies(out, eqv(self.nmat.at(i, j), s.N0.at(i, j))), split=sp)
    h.ensure(tag + "frame.M", Implies(out, eqv(self.mmat.at(i, j), s.M0.at(i, j))), split=sp)
    h.ensure(tag + "frame.alpha", Implies(And(*[SV(i.t != z3int(t)) for t in targets]), eqv(self.mean.at(i), s.a0.at(i))),
             split=[i] + list(targets))
    # C07: representation invariant preserved
    h.ensure(tag + "inv.N-hermitian", eqv(self.nmat.at(i, j), conj(self.nmat.at(j, i))), split=sp)
    h.ensure(tag + "inv.M-symmetric", eqv(self.mmat.at(i, j), self.mmat.at(j, i)), split=sp)
    h.ensure(tag + "frame.active", self.active is not None and eqv_list(self.active, s.act0))
    h.ensure(tag + "frame.nlen", self.nlen is s.n)


def eqv_list(a, b):
    return a == b


def guard_inactive(h, s, out, k):
    """C08: a deleted mode is rejected with ValueError instead of being acted on"""
    if out.exc is not None:
        h.ensure("raises-only-ValueError", out.raised("ValueError"))
        h.ensure("raises-only-if-inactive", isnone(s.act0.at(k)))
        i, j = s.i, s.j
        h.ensure("frame-on-error.N", eqv(s.self.nmat.at(i, j), s.N0.at(i, j)))
        h.ensure("frame-on-error.M", eqv(s.self.mmat.at(i, j), s.M0.at(i, j)))
        h.ensure("frame-on-error.alpha", eqv(s.self.mean.at(i), s.a0.at(i)))
        return True
    h.ensure("returns-only-if-active", Not(isnone(s.act0.at(k))))
    return False


# ------------------------------------------------------------------ displace
@proof(PROPS + ["C08"], G + ":GaussianModes.displace",
       native="from native.c01_gaussian import replay; replay('displace', OBLIGATION, I)")
def _displace(h):
    s = mk(h)
    k = h.int("k", lo=0); h.require(k < s.n)
    r, phi = h.real("r"), h.real("phi")
    out = h.call(s.self.displace, r, phi, k)
    if guard_inactive(h, s, out, k):
        return
    c, sn = h.eng.math.cos(phi), h.eng.math.sin(phi)
    beta = SC((r * c).t, (r * sn).t)
    i, j = s.i, s.j
    h.ensure("post.alpha", eqv(s.self.mean.at(i), ite(SV(i.t == k.t), s.a0.at(i) + beta, s.a0.at(i))), split=[i, k])
    h.ensure("frame.N", eqv(s.self.nmat.at(i, j), s.N0.at(i, j)))
    h.ensure("frame.M", eqv(s.self.mmat.at(i, j), s.M0.at(i, j)))


# ------------------------------------------------------------------ squeeze
def _squeeze_defs(v):
    self, k = v.self, v.k
    nk, mk_, sh, ch, phase = v.nk, v.mk, v.sh, v.ch, v.phase
    N1, M1 = self.nmat.copy(), self.mmat.copy()   # arrays at loop entry
    return {
        "self.nmat": lambda done: (lambda i, j: ite(And(SV(i.t == k.t), SV(j.t != k.t), done(j)),
                                                    -(sh * conj(phase) * mk_.at(j)) + ch * nk.at(j), N1.at(i, j))),
        "self.mmat": lambda done: (lambda i, j: ite(And(SV(i.t == k.t), SV(j.t != k.t), done(j)),
                                                    ch * mk_.at(j) - phase * sh * nk.at(j), M1.at(i, j))),
    }


loop_defs(G + ":GaussianModes.squeeze#0", _squeeze_defs, split=lambda v: [v.k])


@proof(PROPS + ["C08"], G + ":GaussianModes.squeeze",
       native="from native.c01_gaussian import replay; replay('squeeze', OBLIGATION, I)")
def _squeeze(h):
    s = mk(h)
    k = h.int("k", lo=0); h.require(k < s.n)
    r, phi = h.real("r"), h.real("phi")
    rep_inv(h, s, [s.i, s.j, k])
    out = h.call(s.self.squeeze, r, phi, k)
    if guard_inactive(h, s, out, k):
        return
    m = h.eng.math
    ch, sh = m.cosh(r), m.sinh(r)
    e = SC(m.cos(phi).t, m.sin(phi).t)
    # documented action (ops.Sgate): a -> a cosh r - a^dag e^{i phi} sinh r
    coef = [[(k, ch, -(e * sh))]]
    post_all(h, s, [k], *bogo(s, [k], coef))


# ------------------------------------------------------------------ phase shift
def _phase_defs(v):
    self, k, phase = v.self, v.k, v.phase
    N1, M1 = self.nmat.copy(), self.mmat.copy()
    return {
        "self.nmat": lambda done: (lambda i, j: ite(And(SV(i.t == k.t), SV(j.t != k.t), done(j)),
                                                    conj(phase) * N1.at(i, j), N1.at(i, j))),
        "self.mmat": lambda done: (lambda i, j: ite(And(SV(i.t == k.t), SV(j.t != k.t), done(j)),
                                                    phase * M1.at(i, j), M1.at(i, j))),
    }


loop_defs(G + ":GaussianModes.phase_shift#0", _phase_defs, split=lambda v: [v.k])


@proof(PROPS + ["C08"], G + ":GaussianModes.phase_shift",
       native="from native.c01_gaussian import replay; replay('phase_shift', OBLIGATION, I)")
def _phase(h):
    s = mk(h)
    k = h.int("k", lo=0); h.require(k < s.n)
    phi = h.real("phi")
    rep_inv(h, s, [s.i, s.j, k])
    out = h.call(s.self.phase_shift, phi, k)
    if guard_inactive(h, s, out, k):
        return
    m = h.eng.math
    e = SC(m.cos(phi).t, m.sin(phi).t)
    coef = [[(k, e, 0)]]     # a -> e^{i phi} a
    post_all(h, s, [k], *bogo(s, [k], coef))


# ------------------------------------------------------------------ beamsplitter
def _bs_defs(v):
    self, k, l = v.self, v.k, v.l
    nk, mk_, nl, ml, sh, ch, phase = v.nk, v.mk, v.nl, v.ml, v.sh, v.ch, v.phase
    N1, M1 = self.nmat.copy(), self.mmat.copy()

    def nm(done):
        return lambda i, j: ite(And(SV(j.t != k.t), SV(j.t != l.t), done(j)),
                                ite(SV(i.t == k.t), ch * nk.at(j) + sh * conj(phase) * nl.at(j),
                                    ite(SV(i.t == l.t), -(phase * sh * nk.at(j)) + ch * nl.at(j), N1.at(i, j))),
                                N1.at(i, j))

    def mm(done):
        return lambda i, j: ite(And(SV(j.t != k.t), SV(j.t != l.t), done(j)),
                                ite(SV(i.t == k.t), ch * mk_.at(j) + phase * sh * ml.at(j),
                                    ite(SV(i.t == l.t), -(sh * conj(phase) * mk_.at(j)) + ch * ml.at(j), M1.at(i, j))),
                                M1.at(i, j))
    return {"self.nmat": nm, "self.mmat": mm}


loop_defs(G + ":GaussianModes.beamsplitter#0", _bs_defs, split=lambda v: [v.k, v.l])


@proof(PROPS + ["C08"], G + ":GaussianModes.beamsplitter",
       native="from native.c01_gaussian import replay; replay('beamsplitter', OBLIGATION, I)")
def _bs(h):
    s = mk(h, n_lo=2)
    k = h.int("k", lo=0); h.require(k < s.n)
    l = h.int("l", lo=0); h.require(l < s.n)
    theta, phi = h.real("theta"), h.real("phi")
    rep_inv(h, s, [s.i, s.j, k, l])
    out = h.call(s.self.beamsplitter, theta, phi, k, l)
    if out.exc is not None:
        h.ensure("raises-only-ValueError", out.raised("ValueError"))
        h.ensure("raises-only-if-inactive-or-same", Or(isnone(s.act0.at(k)), isnone(s.act0.at(l)), k == l))
        h.ensure("frame-on-error.N", eqv(s.self.nmat.at(s.i, s.j), s.N0.at(s.i, s.j)))
        return
    h.ensure("returns-only-if-ok", And(Not(isnone(s.act0.at(k))), Not(isnone(s.act0.at(l))), k != l))
    m = h.eng.math
    c, sn = m.cos(theta), m.sin(theta)
    e = SC(m.cos(phi).t, m.sin(phi).t)
    # action implemented by the circuit-level method (the backend wrapper passes (-theta,-phi), see
    # c01_gaussian_backend): a_k -> cos a_k + e^{i phi} sin a_l ; a_l -> cos a_l - e^{-i phi} sin a_k
    coef = [[(k, c, 0), (l, e * sn, 0)], [(l, c, 0), (k, -(conj(e) * sn), 0)]]
    post_all(h, s, [k, l], *bogo(s, [k, l], coef))


# ------------------------------------------------------------------ loss / thermal loss / init_thermal
def channel_spec(s, k, t, extra):
    """loss with amplitude transmission t = sqrt(T) on mode k (+ `extra` thermal photons on N[k,k])"""
    N0, M0, a0 = s.N0, s.M0, s.a0
    f = lambda i: ite(SV(i.t == k.t), t, 1)
    Nspec = lambda i, j: f(i) * f(j) * N0.at(i, j) + ite(And(SV(i.t == k.t), SV(j.t == k.t)), extra, 0)
    Mspec = lambda i, j: f(i) * f(j) * M0.at(i, j)
    aspec = lambda i: f(i) * a0.at(i)
    return Nspec, Mspec, aspec


@proof(PROPS + ["C08"], G + ":GaussianModes.loss",
       native="from native.c01_gaussian import replay; replay('loss', OBLIGATION, I)")
def _loss(h):
    s = mk(h)
    k = h.int("k", lo=0); h.require(k < s.n)
    T = h.real("T"); h.require(And(T >= 0, T <= 1))
    rep_inv(h, s, [s.i, s.j, k])
    out = h.call(s.self.loss, T, k)
    if guard_inactive(h, s, out, k):
        return
    t = h.eng.math.sqrt(T)
    post_all(h, s, [k], *channel_spec(s, k, t, 0))
    # C07: loss never increases the photon number of the mode
    h.ensure("conserve.N_kk-scaled", eqv(s.self.nmat.at(k, k), T * s.N0.at(k, k)))


@proof(PROPS + ["C08"], G + ":GaussianModes.thermal_loss",
       native="from native.c01_gaussian import replay; replay('thermal_loss', OBLIGATION, I)")
def _thermal_loss(h):
    s = mk(h)
    k = h.int("k", lo=0); h.require(k < s.n)
    T = h.real("T"); h.require(And(T >= 0, T <= 1))
    nbar = h.real("nbar"); h.require(nbar >= 0)
    rep_inv(h, s, [s.i, s.j, k])
    out = h.call(s.self.thermal_loss, T, nbar, k)
    if guard_inactive(h, s, out, k):
        return
    t = h.eng.math.sqrt(T)
    # documented: beam splitter with a thermal environment of nbar photons: N_kk -> T N_kk + (1-T) nbar
    post_all(h, s, [k], *channel_spec(s, k, t, (1 - T) * nbar))


@proof(["C05", "C07", "C08"], G + ":GaussianModes.init_thermal",
       native="from native.c01_gaussian import replay; replay('init_thermal', OBLIGATION, I)")
def _init_thermal(h):
    s = mk(h)
    k = h.int("k", lo=0); h.require(k < s.n)
    pop = h.real("population"); h.require(pop >= 0)
    rep_inv(h, s, [s.i, s.j, k])
    out = h.call(s.self.init_thermal, pop, k)
    if guard_inactive(h, s, out, k):
        return
    # the prepared mode is thermal and uncorrelated with the rest; the rest is untouched
    post_all(h, s, [k], *channel_spec(s, k, 0, pop))


# ------------------------------------------------------------------ add_mode (C01/C05/C08)
def _q2(f):
    return forall(lambda a, b: f(a, b))


def _addmode_outer(v):
    s, n, i = v.self, v.self.nlen, v.idx
    nn = v.newnlen
    return {
        "N": _q2(lambda a, b: Implies(And(a >= 0, b >= 0, a < nn, b < nn),
                                      eqv(v.newnmat.at(a, b), ite(And(a < i, b < n), s.nmat.at(a, b), SC.lift(0))))),
        "M": _q2(lambda a, b: Implies(And(a >= 0, b >= 0, a < nn, b < nn),
                                      eqv(v.newmmat.at(a, b), ite(And(a < i, b < n), s.mmat.at(a, b), SC.lift(0))))),
        "mean": forall(lambda a: Implies(And(a >= 0, a < nn), eqv(v.newmean.at(a), ite(a < i, s.mean.at(a), SC.lift(0))))),
        "active": forall(lambda a: Implies(And(a >= 0, a < nn), eqv(v.newactive.at(a), ite(a < i, s.active.at(a), a)))),
        "len-active": v.newactive.length() == nn,
    }


def _addmode_inner(v):
    s, n, j, i = v.self, v.self.nlen, v.idx, v.i
    nn = v.newnlen
    return {
        "N": _q2(lambda a, b: Implies(And(a >= 0, b >= 0, a < nn, b < nn),
                                      eqv(v.newnmat.at(a, b), ite(Or(And(a < i, b < n), And(a == i, b < j)), s.nmat.at(a, b), SC.lift(0))))),
        "M": _q2(lambda a, b: Implies(And(a >= 0, b >= 0, a < nn, b < nn),
                                      eqv(v.newmmat.at(a, b), ite(Or(And(a < i, b < n), And(a == i, b < j)), s.mmat.at(a, b), SC.lift(0))))),
        "mean": forall(lambda a: Implies(And(a >= 0, a < nn), eqv(v.newmean.at(a), ite(a <= i, s.mean.at(a), SC.lift(0))))),
        "active": forall(lambda a: Implies(And(a >= 0, a < nn), eqv(v.newactive.at(a), ite(a <= i, s.active.at(a), a)))),
        "len-active": v.newactive.length() == nn,
    }


loop_inv(G + ":GaussianModes.add_mode#0", inv=_addmode_outer)
loop_inv(G + ":GaussianModes.add_mode#1", inv=_addmode_inner)


@proof(["C01", "C05", "C07", "C08"], G + ":GaussianModes.add_mode",
       native="from native.c01_gaussian import replay; replay('add_mode', OBLIGATION, I)")
def _add_mode(h):
    s = mk(h)
    k = h.int("n_new", lo=1)
    out = h.call(s.self.add_mode, k)
    h.ensure("no-exception", out.returned)
    if not out.returned:
        return
    self, n, i, j = s.self, s.n, s.i, s.j
    h.ensure("post.nlen", self.nlen == n + k)
    a = h.eng.sym_int("ca"); b = h.eng.sym_int("cb")
    h.eng.assume(And(a >= 0, b >= 0, a < n + k, b < n + k))
    # the old modes keep ALL their moments (no transposition / conjugation), the new modes are vacuum
    # and uncorrelated with everything
    h.ensure("post.N", eqv(self.nmat.at(a, b), ite(And(a < n, b < n), s.N0.at(a, b), SC.lift(0))))
    h.ensure("post.M", eqv(self.mmat.at(a, b), ite(And(a < n, b < n), s.M0.at(a, b), SC.lift(0))))
    h.ensure("post.alpha", eqv(self.mean.at(a), ite(a < n, s.a0.at(a), SC.lift(0))))
    # C08: old modes keep their activity, new modes are alive under fresh consecutive indices
    h.ensure("post.active", eqv(self.active.at(a), ite(a < n, s.act0.at(a), a)))
    h.ensure("post.len-active", self.active.length() == n + k)
