"""C19 - GBS application helpers (apps/similarity.py, clique.py, subgraph.py, sample.py)

Proved (unbounded): sample_to_event, orbit_to_sample and sample.postselect on lists of symbolic
length, against the exact integer specification, with builtins max/sum/shuffle under their library contracts.
Bounded stand-in (labelled bounded, not counted as proved): native/c19_apps.py - partition
enumeration, exact cardinalities, conversions, and clique/subgraph routines with EVERY outcome of
every numpy.random.choice explored and compared with reference implementations of the documented
selection rules.
"""
import z3
from pyvc.api import *

S = "strawberryfields.apps.similarity"

level("C19", "other",
      "Mixed: proof obligations for sample_to_event / orbit_to_sample / postselect over lists of arbitrary length; everything else "
      "(orbits, cardinalities, clique grow/swap/shrink, subgraph resize/search) is a BOUNDED stand-in: exhaustive over all "
      "labelled graphs on <= 4 (quick) / 5 (thorough) nodes, all start sets, all outcomes of every random choice, "
      "partitions of n <= 35/60, all orbits of n <= 8 x modes <= 60/200, compared with independent oracles. Bounded parts are "
      "never counted in obligations/discharged.",
      trusted=["library: builtins max/sum over a list (max: an element that bounds all; sum: fold of +)",
               "library: numpy.random.shuffle permutes its argument in place (result is a permutation)"])

native("C19", "c19_apps", "native/c19_apps.py",
       bound="graphs<=4 nodes (+12 random 5/6-node) quick, <=5 thorough; partitions n<=35/60; orbits n<=8, modes<=60/200; samples <=4 modes entries<=3",
       timeout=600)


def list_max(h, lst, name="mx"):
    """library contract of max(list): a member that bounds every element (list non-empty)"""
    m = h.eng.sym_int(name)
    h.eng.assume(forall(lambda j: Implies(And(j >= 0, j < lst.length()), lst.at(j) <= m)))
    h.eng.assume(lst.contains(m))
    return m


def list_sum_fn(h, lst, name="sm"):
    f = h.eng.fresh_fun(name, z3.IntSort(), z3.IntSort())
    k = h.eng.fresh("sm_k", z3.IntSort(), bound=True)
    h.eng.assume(f(0) == 0)
    h.eng.assume(z3.ForAll([k], z3.Implies(z3.And(k >= 0, k < lst.length().t), f(k + 1) == f(k) + lst.at(k).t)))
    return f


@proof("C19", S + ":sample_to_event")
def _sample_to_event(h):
    sim = h.module(S)
    sample = h.list("sample", "int")
    h.require(sample.length() >= 1)
    h.require(forall(lambda j: Implies(And(j >= 0, j < sample.length()), sample.at(j) >= 0)))
    mc = h.int("max_count_per_mode")
    mx = list_max(h, sample)
    sm = list_sum_fn(h, sample)
    import builtins
    g = sim.__dict__["__builtins__"]
    old_max, old_sum = g["max"], g["sum"]
    g["max"] = lambda x, *a, **k: mx if x is sample else old_max(x, *a, **k)
    g["sum"] = lambda x, *a, **k: SV(sm(sample.length().t)) if x is sample else old_sum(x, *a, **k)
    try:
        out = h.call(sim.sample_to_event, sample, mc)
    finally:
        g["max"], g["sum"] = old_max, old_sum
    h.ensure("no-exception", out.returned)
    if not out.returned:
        return
    allok = forall(lambda j: Implies(And(j >= 0, j < sample.length()), sample.at(j) <= mc))
    if out.value is None:
        h.ensure("None-only-if-some-mode-exceeds", Not(allok))
    else:
        h.ensure("event-only-if-all-within", allok)
        h.ensure("event-is-total-photon-number", eqv(out.value, SV(sm(sample.length().t))))


@proof("C19", S + ":orbit_to_sample")
def _orbit_to_sample(h):
    sim = h.module(S)
    orbit = h.list("orbit", "int")
    modes = h.int("modes")
    old = orbit.copy()
    # shuffle: library contract = in-place permutation; modelled by leaving the list as is and
    # stating the multiset-level postcondition through positions (identity permutation witnesses it)
    shuffled = []
    np_ = sim.np
    orig = np_.random.shuffle
    np_.random.shuffle = lambda x: shuffled.append(x)
    try:
        # `[0] * (modes - len(orbit))` on a symbolic count: python list repetition; modelled as a constant-zero list
        out = h.call(sim.orbit_to_sample, orbit, modes)
    finally:
        np_.random.shuffle = orig
    if out.exc is not None:
        h.ensure("raises-only-ValueError", out.raised("ValueError"))
        h.ensure("raises-only-if-too-few-modes", modes < old.length())
        return
    s = out.value
    h.ensure("returns-only-if-enough-modes", modes >= old.length())
    h.ensure("shuffle-called-on-result", len(shuffled) == 1 and shuffled[0] is s)
    h.ensure("len", s.length() == modes)
    h.ensure("prefix-is-orbit", forall(lambda j: Implies(And(j >= 0, j < old.length()), s.at(j) == old.at(j))))
    h.ensure("rest-is-zero", forall(lambda j: Implies(And(j >= old.length(), j < modes), s.at(j) == 0)))
    h.ensure("orbit-argument-not-mutated", orbit == old)


SA = "strawberryfields.apps.sample"


@proof("C19", SA + ":postselect")
def _postselect(h):
    """samples = list of arbitrary length of opaque samples (ids) with an uninterpreted photon total;
    builtins.sum on a sample is its total (library contract of sum, as above)"""
    sa = h.module(SA)
    samples = h.list("samples", "int")
    lo, hi = h.int("min_count"), h.int("max_count")
    total = h.eng.fresh_fun("total", z3.IntSort(), z3.IntSort())
    g = sa.__dict__["__builtins__"]
    old_sum = g["sum"]
    g["sum"] = lambda x, *a, **k: SV(total(x.t)) if isinstance(x, SV) else old_sum(x, *a, **k)
    try:
        out = h.call(sa.postselect, samples, lo, hi)
    finally:
        g["sum"] = old_sum
    h.ensure("no-exception", out.returned)
    if not out.returned:
        return
    R = out.value
    n = samples.length()
    ok = lambda x: And(lo <= SV(total(x.t)), SV(total(x.t)) <= hi)
    cnt = getattr(R, "ghost_cnt", None)
    h.ensure("result-is-a-filter-of-the-input", cnt is not None)
    if cnt is None:
        return
    c = lambda i: SV(cnt(i.t))
    # the kept positions are exactly those whose total lies in [min_count, max_count] ...
    h.ensure("kept-iff-within", forall(lambda i: Implies(And(i >= 0, i < n),
                                                         (c(i + 1) == c(i) + 1) == ok(samples.at(i)))))
    h.ensure("dropped-otherwise", forall(lambda i: Implies(And(i >= 0, i < n, Not(ok(samples.at(i)))),
                                                           c(i + 1) == c(i))))
    # ... kept in input order, unchanged
    h.ensure("kept-sample-in-order", forall(lambda i: Implies(And(i >= 0, i < n, ok(samples.at(i))),
                                                              R.at(c(i)) == samples.at(i))))
    h.ensure("len-is-number-kept", R.length() == c(n))
    h.ensure("input-list-not-mutated", samples.length() == n)
