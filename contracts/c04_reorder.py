"""C04 - internal circuit reorderings (program_utils.list_to_grid/grid_to_DAG/DAG_to_list/
group_operations, GBS.compile, remove_loss)

Decided by a BOUNDED stand-in only (labelled bounded): native/c04_reorder.py.  The reordering
routines build dicts of lists of shared Command objects and hand them to networkx; an unbounded
proof needs sequence-of-subsequence invariants over a symbolic dict-of-lists heap that the engine
does not model (see DESIGN 5/C04).  What the stand-in adds over tests: it is exhaustive over all
sequences up to the bound, includes feed-forward (measured-parameter) commands, and checks DAG PATHS
between every dependent pair, which covers every legal topological order rather than the one
networkx returns.
"""
from pyvc.api import *

level("C04", "other",
      "Bounded stand-in (not a proof): exhaustive over all command sequences of length <= 3 (quick) / <= 4 (thorough) over "
      "a 13-symbol alphabet on 3 modes (one- and two-mode gates in both orders, measurements, three feed-forward gates, "
      "a loss channel) plus seeded random longer sequences; for each: get_dependencies, per-wire grid content and order, DAG "
      "node set, acyclicity and a directed PATH between every pair of commands sharing a mode or a measured parameter "
      "(hence every legal linearisation keeps their order), DAG_to_list permutation/order, group_operations "
      "(permutation, order, no marked op in A or C) for every class predicate, remove_loss, and GBS measurement collection.",
      trusted=["library: networkx topological sorts return a linear extension of the DAG (paths are checked, so the "
               "property holds for every linear extension)"])

native("C04", "c04_reorder", "native/c04_reorder.py",
       bound="all sequences of length <= 3 (quick) / 4 (thorough) over 13 symbols on 3 modes + 400/4000 random longer ones; 24 GBS programs",
       timeout=900)
