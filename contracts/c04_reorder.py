"""C04 - internal circuit reorderings (program_utils.list_to_grid/grid_to_DAG/DAG_to_list/
group_operations, GBS.compile, remove_loss)

The reordering routines build dicts of lists of shared Command objects and hand them to networkx; an
unbounded proof needs sequence-of-subsequence invariants over a symbolic dict-of-lists heap that the
engine does not model (see DESIGN 5/C04).  What IS put under contract here (shape-bounded): the real
list_to_grid / grid_to_DAG / DAG_to_list / group_operations are run on ABSTRACT commands - only the
contract of Command.get_dependencies (a set of register references) is known - for every assignment of
dependency sets to sequences of 1..3 (thorough: 4) commands over 3 wires; the clauses are the property's:
per-wire order = program order, a DAG edge between consecutive users of a wire and a path between every
dependent pair, linearisations are permutations that keep every dependent pair in order, the grouping is
a dependency-respecting permutation A+B+C with no marked command outside B.  The rest is the BOUNDED
stand-in native/c04_reorder.py.  What the stand-in adds over tests: it is exhaustive over all
sequences up to the bound, includes feed-forward (measured-parameter) commands, and checks DAG PATHS
between every dependent pair, which covers every legal topological order rather than the one
networkx returns.
"""
from pyvc.api import *

level("C04", "other",
      "Command.get_dependencies (real method, every parameter-dependency subset x ordered target list over 3 wires) = parameter dependencies UNION targets. "
      "Shape-bounded contracts on abstract commands (every dependency-set assignment for sequences of <= 3 / 4 commands over 3 "
      "wires): list_to_grid, grid_to_DAG, DAG_to_list, group_operations. Bounded stand-ins (not proofs): the DAG surgery of the "
      "gaussian_merge compiler on every command sequence of length <= 4 / 5 over an 8-symbol two-mode alphabet and on generated hybrid "
      "circuits (opaque gates interpreted as fixed unitaries, exact comparison); exhaustive over all command sequences of length <= 3 (quick) / <= 4 (thorough) over "
      "a 15-symbol alphabet on 3 modes (one- and two-mode gates in both orders, measurements, three feed-forward gates, two gates fed by a measurement of one of their OWN target modes, "
      "a loss channel) plus seeded random longer sequences; for each: get_dependencies, per-wire grid content and order, DAG "
      "node set, acyclicity and a directed PATH between every pair of commands sharing a mode or a measured parameter "
      "(hence every legal linearisation keeps their order), DAG_to_list permutation/order, group_operations "
      "(permutation, order, no marked op in A or C) for every class predicate, remove_loss, and GBS measurement collection.",
      trusted=["library: networkx topological sorts return a linear extension of the DAG (paths are checked, so the "
               "property holds for every linear extension)"])

native("C04", "c04_reorder", "native/c04_reorder.py",
       bound="all sequences of length <= 3 (quick) / 4 (thorough) over 15 symbols on 3 modes (incl. a one- and a two-mode gate fed by a measurement of their own mode) + 400/4000 random longer ones; 24 GBS programs",
       timeout=900)


# ---------------------------------------------------------------------------------------------
import itertools

PU = "strawberryfields.program_utils"
WIRES = 3
DEPSETS = [frozenset(c) for r in range(1, WIRES + 1) for c in itertools.combinations(range(WIRES), r)]


class Ref_:
    def __init__(self, ind):
        self.ind = ind

    def __repr__(self):
        return f"r{self.ind}"


class ACmd:
    """abstract command: an identity, a dependency set and a mark (for the grouping predicate)"""
    def __init__(self, k, refs, marked):
        self.k, self.deps, self.marked = k, set(refs), marked
        self.op = self

    def get_dependencies(self):
        return set(self.deps)

    def __repr__(self):
        return f"c{self.k}{sorted(r.ind for r in self.deps)}{'*' if self.marked else ''}"


class AOp:
    """abstract operation: only its measured-parameter dependency set is known"""
    def __init__(self, mdeps):
        self.measurement_deps = set(mdeps)
        self.ns = None


@proof("C04", PU + ":Command.get_dependencies", name="Command.get_dependencies/is-the-contract-assumed-for-abstract-commands")
def _get_dependencies(h):
    """the contract the abstract commands above ASSUME, on the real method: the dependency set is the union of
    the measured-parameter dependencies and the target subsystems - for every subset of 3 wires as parameter
    dependencies and every ordered target list of 1-2 of them (overlapping the parameter dependencies or not)"""
    pu = h.module(PU)
    refs = [Ref_(w) for w in range(WIRES)]
    subsets = [tuple(w for w in range(WIRES) if m >> w & 1) for m in range(2 ** WIRES)]
    targets = [(a,) for a in range(WIRES)] + [(a, b) for a in range(WIRES) for b in range(WIRES) if a != b]
    md = subsets[h.eng.choose(len(subsets), "mdeps")]
    tg = targets[h.eng.choose(len(targets), "targets")]
    op = AOp([refs[w] for w in md])
    before = set(op.measurement_deps)
    reg = [refs[w] for w in tg]
    out = h.call(pu.Command, op, list(reg))
    h.ensure("Command.no-exception", out.returned, bounded_shape=True)
    if not out.returned:
        return
    cmd = out.value
    out = h.call(cmd.get_dependencies)
    h.ensure("no-exception", out.returned, bounded_shape=True)
    if not out.returned:
        return
    h.ensure("is-a-set", isinstance(out.value, (set, frozenset)), bounded_shape=True)
    h.ensure("every-target-subsystem-is-a-dependency", all(r in out.value for r in reg), bounded_shape=True)
    h.ensure("every-measured-parameter-subsystem-is-a-dependency", all(r in out.value for r in before), bounded_shape=True)
    h.ensure("nothing-else-is", all(r in before or r in reg for r in out.value), bounded_shape=True)
    h.ensure("operation-and-register-not-mutated", op.measurement_deps == before and cmd.reg == reg, bounded_shape=True)


def sequences(L):
    for deps in itertools.product(range(len(DEPSETS)), repeat=L):
        yield deps


def reachable(dag, a, b):
    import networkx as nx
    return nx.has_path(dag, a, b)


def reorder_case(h, L):
    pu = h.module(PU)
    # one small choice per command (a single choice over 7^L alternatives is slow to enumerate)
    deps = tuple(h.eng.choose(len(DEPSETS), f"dep{k}") for k in range(L))
    # every marking of the commands for L <= 3; for L = 4 the markings with 0, 1 (each position), 2 (adjacent, split) and 4 marked
    patterns = list(range(2 ** L)) if L <= 3 else [0b0000, 0b0001, 0b0010, 0b0100, 0b1000, 0b0110, 0b1001, 0b1111]
    marks = patterns[h.eng.choose(len(patterns), "marks")]
    refs = [Ref_(w) for w in range(WIRES)]
    seq = [ACmd(k, [refs[w] for w in DEPSETS[d]], bool(marks >> k & 1)) for k, d in enumerate(deps)]
    dependent = [(a, b) for i, a in enumerate(seq) for b in seq[i + 1:] if {r.ind for r in a.deps} & {r.ind for r in b.deps}]
    out = h.call(pu.list_to_grid, list(seq))
    h.ensure("list_to_grid.no-exception", out.returned, bounded_shape=True)
    if not out.returned:
        return
    grid = out.value
    h.ensure("list_to_grid.every-used-wire-and-no-other", set(grid) == {r.ind for c in seq for r in c.deps}, bounded_shape=True)
    h.ensure("list_to_grid.wire-holds-its-users-in-program-order",
             all(grid[w] == [c for c in seq if w in {r.ind for r in c.deps}] for w in grid), bounded_shape=True)
    out = h.call(pu.grid_to_DAG, grid)
    h.ensure("grid_to_DAG.no-exception", out.returned, bounded_shape=True)
    if not out.returned:
        return
    dag = out.value
    import networkx as nx
    h.ensure("grid_to_DAG.nodes-are-the-commands", set(dag.nodes) == set(seq) and dag.number_of_nodes() == len(seq), bounded_shape=True)
    h.ensure("grid_to_DAG.acyclic", nx.is_directed_acyclic_graph(dag), bounded_shape=True)
    h.ensure("grid_to_DAG.path-between-every-dependent-pair", all(reachable(dag, a, b) for a, b in dependent), bounded_shape=True)
    h.ensure("grid_to_DAG.edges-only-from-earlier-to-later-dependent-commands",
             all(a.k < b.k and ({r.ind for r in a.deps} & {r.ind for r in b.deps}) for a, b in dag.edges), bounded_shape=True)
    out = h.call(pu.DAG_to_list, dag)
    h.ensure("DAG_to_list.no-exception", out.returned, bounded_shape=True)
    if out.returned:
        ls = out.value
        pos = {c: i for i, c in enumerate(ls)}
        h.ensure("DAG_to_list.permutation", sorted(c.k for c in ls) == list(range(L)), bounded_shape=True)
        h.ensure("DAG_to_list.dependent-pairs-keep-their-order", all(pos[a] < pos[b] for a, b in dependent if a in pos and b in pos), bounded_shape=True)
    out = h.call(pu.group_operations, list(seq), lambda op: op.marked)
    h.ensure("group_operations.no-exception", out.returned, bounded_shape=True)
    if out.returned:
        A, B, C = out.value
        flat = list(A) + list(B) + list(C)
        pos = {c: i for i, c in enumerate(flat)}
        h.ensure("group_operations.A+B+C-is-a-permutation", sorted(c.k for c in flat) == list(range(L)), bounded_shape=True)
        h.ensure("group_operations.dependent-pairs-keep-their-order", all(pos[a] < pos[b] for a, b in dependent if a in pos and b in pos), bounded_shape=True)
        h.ensure("group_operations.no-marked-command-in-A-or-C", not any(c.marked for c in list(A) + list(C)), bounded_shape=True)
        h.ensure("group_operations.C-empty-when-B-is", bool(B) or not C, bounded_shape=True)


for L_ in (1, 2, 3, 4):
    def mk(L=L_):
        def f(h):
            reorder_case(h, L)
        f.__name__ = ""
        return f
    PROOFS.append(Proof("C04", PU + ":list_to_grid", mk(), name=f"reordering/abstract-commands/length={L_}",
                        uses=[PU + ":grid_to_DAG", PU + ":DAG_to_list", PU + ":group_operations"],
                        max_paths=200000, tier_only=("thorough" if L_ == 4 else None)))
