"""C05 - preparations on the Fock simulator act only on their target modes
(backends/fockbackend/circuit.py:Circuit.prepare_multimode with ops.mix / ops.partial_trace).
Ghost labelled tensors (contracts/_labelled.py): the register state carries (mode, ket|bra) labels, the prepared
state carries (('P', j), ket|bra) for its j-th subsystem.  Contract: exactly the target modes are traced out (as whole
modes), subsystem j of the prepared state ends up at register position modes[j], every other mode keeps its position,
the representation flag matches the data.  Enumerated: registers of 1..4 modes, every ordered tuple of distinct target
modes, pure / mixed register, pure / mixed input (shape-bounded)."""
import itertools
from pyvc.api import *
import sys, os
sys.path.insert(0, os.path.dirname(__file__))
from _labelled import LT, fake_np

FC = "strawberryfields.backends.fockbackend.circuit"
FO = "strawberryfields.backends.fockbackend.ops"

CASES = [(n, list(c), rp, ip) for n in (1, 2, 3, 4) for r in range(1, n + 1) for c in itertools.permutations(range(n), r)
         for rp in (True, False) for ip in (True, False)]


@proof("C05", FC + ":Circuit.prepare_multimode")
def _prepare_multimode(h):
    fc, fo = h.module(FC), h.module(FO)
    n, modes, reg_pure, in_pure = CASES[h.eng.choose(len(CASES), "case")]
    reg = LT([(m, "k") for m in range(n)]) if reg_pure else LT([(m, s) for m in range(n) for s in ("k", "b")])
    k = len(modes)
    new = LT([(("P", j), "k") for j in range(k)]) if in_pure else LT([(("P", j), s) for j in range(k) for s in ("k", "b")])
    c = h.new(fc.Circuit, _num_modes=n, _trunc=3, _pure=reg_pure, _state=reg, _checks=True)
    with h.stubbed(fc, "np", fake_np(fc.np)), h.stubbed(fo, "np", fake_np(fo.np)):
        out = h.call(c.prepare_multimode, new, list(modes))
    h.ensure("no-exception", out.returned, bounded_shape=True)
    if not out.returned:
        return
    st = c._state
    h.ensure("only-partial-traces-of-whole-modes", isinstance(st, LT) and st.bad is None, bounded_shape=True)
    where = {m: ("P", j) for j, m in enumerate(modes)}
    owner = [where.get(m, m) for m in range(n)]
    if c._pure:
        expected = [(o, "k") for o in owner]
    else:
        expected = [(o, s) for o in owner for s in ("k", "b")]
    h.ensure("subsystem-j-of-the-input-sits-at-modes[j]-and-every-other-mode-keeps-its-place", isinstance(st, LT) and st.labels == expected, bounded_shape=True)
    h.ensure("exactly-the-target-modes-were-traced-out", isinstance(st, LT) and sorted(st.traced) == (sorted(modes) if k < n else []), bounded_shape=True)
    h.ensure("representation-flag-matches-the-data", c._pure == (k == n and in_pure), bounded_shape=True)


# ---------------------------------------------------------------- Circuit.dealloc / alloc (C08): the register of the simulator
DEALLOC_CASES = [(n, list(c), rp) for n in (2, 3, 4) for r in range(1, n) for c in itertools.permutations(range(n), r) for rp in (True, False)]


@proof(["C08", "C05"], FC + ":Circuit.dealloc", native="from native.c08_fock_replay import replay; replay('dealloc', OBLIGATION, I)")
def _dealloc(h):
    """deleting a LIST of modes, in any order: exactly the listed modes are traced out (as whole modes) and every surviving
    mode keeps its data, in ascending order of the surviving modes (the order the mode map assumes)"""
    fc, fo = h.module(FC), h.module(FO)
    n, modes, reg_pure = DEALLOC_CASES[h._reg("case", h.eng.choose(len(DEALLOC_CASES), "case"))]
    reg = LT([(m, "k") for m in range(n)]) if reg_pure else LT([(m, s) for m in range(n) for s in ("k", "b")])
    c = h.new(fc.Circuit, _num_modes=n, _trunc=3, _pure=reg_pure, _state=reg, _checks=True)
    with h.stubbed(fc, "np", fake_np(fc.np)), h.stubbed(fo, "np", fake_np(fo.np)):
        out = h.call(c.dealloc, list(modes))
    h.ensure("no-exception", out.returned, bounded_shape=True)
    if not out.returned:
        return
    st = c._state
    keep = [m for m in range(n) if m not in modes]
    h.ensure("only-partial-traces-of-whole-modes", isinstance(st, LT) and st.bad is None, bounded_shape=True)
    h.ensure("exactly-the-listed-modes-were-traced-out", isinstance(st, LT) and sorted(st.traced) == sorted(modes), bounded_shape=True)
    h.ensure("surviving-modes-keep-their-data-in-ascending-order", isinstance(st, LT) and st.labels == [(m, s) for m in keep for s in ("k", "b")], bounded_shape=True)
    h.ensure("mode-count-and-representation-flag", c._num_modes == n - len(modes) and c._pure is False, bounded_shape=True)


@proof(["C08", "C05"], FC + ":Circuit.alloc")
def _alloc(h):
    """new modes are appended after the existing ones, which keep their places"""
    fc, fo = h.module(FC), h.module(FO)
    n = (1, 2, 3)[h.eng.choose(3, "n")]
    k = (1, 2)[h.eng.choose(2, "new")]
    reg_pure = bool(h.eng.choose(2, "pure"))
    reg = LT([(m, "k") for m in range(n)]) if reg_pure else LT([(m, s) for m in range(n) for s in ("k", "b")])
    c = h.new(fc.Circuit, _num_modes=n, _trunc=3, _pure=reg_pure, _state=reg, _checks=True)
    made = []

    def vac(num, trunc, pure):
        t = LT([(("NEW", j), "k") for j in range(num)]) if pure else LT([(("NEW", j), s) for j in range(num) for s in ("k", "b")])
        made.append(t)
        return t
    with h.stubbed(fc, "np", fake_np(fc.np)), h.stubbed(fo, "np", fake_np(fo.np)), h.stubbed(fo, "vacuumState", lambda num, trunc: vac(num, trunc, True)), \
            h.stubbed(fo, "vacuumStateMixed", lambda num, trunc: vac(num, trunc, False)):
        out = h.call(c.alloc, k)
    h.ensure("no-exception", out.returned, bounded_shape=True)
    if not out.returned:
        return
    st = c._state
    owner = list(range(n)) + [("NEW", j) for j in range(k)]
    expected = [(o, "k") for o in owner] if reg_pure else [(o, s) for o in owner for s in ("k", "b")]
    h.ensure("new-modes-appended-existing-modes-keep-their-places", isinstance(st, LT) and st.bad is None and st.labels == expected, bounded_shape=True)
    h.ensure("mode-count-and-representation-flag", c._num_modes == n + k and c._pure is reg_pure, bounded_shape=True)
