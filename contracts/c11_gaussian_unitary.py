"""C11 - compilers/gaussian_unitary.py and compilers/passive.py

(1) Row-operation helpers, proved for EVERY matrix size (symbolic M, symbolic target rows):
    _apply_symp_one_mode_gate / _apply_symp_two_mode_gate compute  S' = E S, r' = E r  with E the gate
    embedded at rows (i, i+M) resp. (i, j, i+M, j+M) and identity elsewhere; whole-matrix postcondition.
(2) GaussianUnitary.compile / Passive.compile, executed for real on circuits of fixed shape with symbolic
    parameters (all parameter values, several mode sets incl. non-contiguous and hash-unordered ones):
    the emitted program (one GaussianTransform on the stated register order + Dgates) has the same
    documented action as the source circuit (contracts/_circuit_sem.py).  Shape-bounded: reported
    separately, not counted as unbounded proof.
"""
import sys, os
sys.path.insert(0, os.path.dirname(__file__))
import numpy as np
import z3
from pyvc.api import *

native(["C11", "C04"], "c11_compilers", "native/c11_compilers.py",
       bound="12 (quick) / 80 (thorough) generated Gaussian circuits per compiler on 4-11 mode registers (gaussian_unitary, passive: exact "
             "comparison with the documented action); 6 / 18 hybrid circuits on 2-3 modes for gaussian_merge (Fock simulator, cutoff 9 / 7, "
             "escalated by 4 on a discrepancy)", timeout=1500)

import _circuit_sem as cs

GU = "strawberryfields.compilers.gaussian_unitary"
PA = "strawberryfields.compilers.passive"
OPS = "strawberryfields.ops"
PU = "strawberryfields.program_utils"


def sym_block(h, name, k):
    a = np.empty((k, k), dtype=object)
    for r in range(k):
        for c in range(k):
            a[r, c] = h.real(f"{name}{r}{c}")
    return a


@proof("C11", GU + ":_apply_symp_one_mode_gate")
def _one(h):
    m = h.module(GU)
    M = h.int("M", lo=1)
    S = h.array("S", (2 * M, 2 * M), "real")
    r = h.array("r", (2 * M,), "real")
    S0, r0 = S.copy(), r.copy()
    i = h.int("i", lo=0); h.require(i < M)
    G = sym_block(h, "g", 2)
    a = h.int("a", lo=0); b = h.int("b", lo=0)
    h.require(And(a < 2 * M, b < 2 * M))
    out = h.call(m._apply_symp_one_mode_gate, G, S, r, i)
    h.ensure("no-exception", out.returned)
    if not out.returned:
        return
    S1, r1 = out.value
    rows = [i, i + M]

    def E_times(col_reader, a):
        res = col_reader(a)
        for x, rx in enumerate(rows):
            acc = 0
            for y, ry in enumerate(rows):
                acc = acc + G[x, y] * col_reader(ry)
            res = ite(SV(a.t == rx.t), acc, res)
        return res
    h.ensure("post.S", eqv(S1.at(a, b), E_times(lambda q: S0.at(q, b), a)), split=[a, i, i + M])
    h.ensure("post.r", eqv(r1.at(a), E_times(lambda q: r0.at(q), a)), split=[a, i, i + M])
    h.ensure("in-place", S1.store is S.store and r1.store is r.store)


@proof("C11", GU + ":_apply_symp_two_mode_gate")
def _two(h):
    m = h.module(GU)
    M = h.int("M", lo=2)
    S = h.array("S", (2 * M, 2 * M), "real")
    r = h.array("r", (2 * M,), "real")
    S0, r0 = S.copy(), r.copy()
    i = h.int("i", lo=0); h.require(i < M)
    j = h.int("j", lo=0); h.require(And(j < M, j != i))
    G = sym_block(h, "g", 4)
    a = h.int("a", lo=0); b = h.int("b", lo=0)
    h.require(And(a < 2 * M, b < 2 * M))
    out = h.call(m._apply_symp_two_mode_gate, G, S, r, i, j)
    h.ensure("no-exception", out.returned)
    if not out.returned:
        return
    S1, r1 = out.value
    rows = [i, j, i + M, j + M]

    def E_times(col_reader, a):
        res = col_reader(a)
        for x, rx in enumerate(rows):
            acc = 0
            for y, ry in enumerate(rows):
                acc = acc + G[x, y] * col_reader(ry)
            res = ite(SV(a.t == rx.t), acc, res)
        return res
    sp = [a, i, j, i + M, j + M]
    h.ensure("post.S", eqv(S1.at(a, b), E_times(lambda q: S0.at(q, b), a)), split=sp)
    h.ensure("post.r", eqv(r1.at(a), E_times(lambda q: r0.at(q), a)), split=sp)


# ---------------------------------------------------------------------------------------------
# compile: shape-bounded, all parameter values
# ---------------------------------------------------------------------------------------------
CIRCUITS = {
    # name: list of (class, nparams, modes)
    "S-R-D": [("Sgate", 2, (0,)), ("Rgate", 1, (0,)), ("Dgate", 2, (0,))],
    "BS-S2": [("BSgate", 2, (0, 1)), ("S2gate", 2, (1, 0))],
    "D-BS-desc": [("Dgate", 2, (1,)), ("BSgate", 2, (1, 0)), ("Rgate", 1, (0,))],
    "MZ": [("MZgate", 2, (0, 1))],
    "noncontig-1-8": [("Sgate", 2, (8,)), ("BSgate", 2, (1, 8)), ("Dgate", 2, (1,))],
    "three-modes": [("BSgate", 2, (0, 2)), ("Sgate", 2, (1,)), ("BSgate", 2, (2, 1))],
}


def compile_case(h, cname, circ, dagger_at=None):
    ops, pu, gu = h.module(OPS), h.module(PU), h.module(GU)
    m = h.eng.math
    nreg = max(mm for _, _, ms in circ for mm in ms) + 1
    q = [pu.RegRef(k) for k in range(nreg)]
    seq = []
    for k, (cls, npar, ms) in enumerate(circ):
        ps = [h.real(f"c{k}p{t}") for t in range(npar)]
        op = getattr(ops, cls)(*ps)
        if dagger_at == k:
            op = op.H
        seq.append(pu.Command(op, [q[x] for x in ms]))
    comp = gu.GaussianUnitary()
    # contract stub for ops.GaussianTransform.__init__ (its body runs Bloch-Messiah on LAPACK): the
    # operation holds the matrix it is given as p[0] and acts on S.shape[0]//2 modes
    def gt_init(self, S, vacuum=False, tol=1e-10):
        ops.Operation.__init__(self, [S])
        self.ns = S.shape[0] // 2
        self.vacuum = vacuum
    # ghost observation: the arguments of the two elision tests np.allclose(Snet, I) / np.allclose(alpha_i, 0)
    seen = []
    real_allclose = gu.np.allclose

    def rec_allclose(a, b, *args, **kw):
        seen.append((a, b))
        return real_allclose(a, b, *args, **kw)
    with h.stubbed(ops.GaussianTransform, "__init__", gt_init), h.stubbed(gu.np, "allclose", rec_allclose):
        out = h.call(comp.compile, seq, q)
    h.ensure("no-exception", out.returned, bounded_shape=True)
    if not out.returned:
        return
    res = out.value
    used = sorted({x for _, _, ms in circ for x in ms})
    # the order in which the compiler laid out the used modes (hash order of a set of ints)
    used_code = sorted(used)   # documented layout: the emitted transform acts on the used modes sorted by index
    nm_ = len(used_code)
    fid = "F14" if dagger_at is not None else None
    # source semantics on the full register (documented actions), hbar = 2
    S_src, d_src = cs.sem(seq, nreg, m, 2)
    Snet_code = [a for a, b in seen if isinstance(a, np.ndarray) and a.shape == (2 * nm_, 2 * nm_)][0]
    alphas_code = [a for a, b in seen if not isinstance(a, np.ndarray)]

    def full(p):   # position in the compiler's coordinates -> row of the full 2*nreg quadrature vector
        return used_code[p] if p < nm_ else used_code[p - nm_] + nreg
    # (a) accumulation: the matrix the compiler built is the ordered product of the documented actions
    for a in range(2 * nm_):
        for b in range(2 * nm_):
            h.ensure(f"accumulate.S[{a},{b}]", eqv(Snet_code[a, b], S_src[full(a), full(b)]), bounded_shape=True, finding=fid)
    # (b) the emitted program: GaussianTransform(S) on its register, then Dgates
    S_out, d_out = cs.identity(nreg)
    from pyvc.libmodels import tw_expand
    for c in res:
        nm = type(c.op).__name__
        inds = [r.ind for r in c.reg]
        if nm == "GaussianTransform":
            Sg = tw_expand(c.op.p[0], inds, nreg)
            S_out, d_out = cs.compose(Sg, np.zeros(2 * nreg, dtype=object), S_out, d_out)
        elif nm == "Dgate":
            Sg, dg = cs.symplectic("Dgate", list(c.op.p), inds, nreg, m, 2)
            S_out, d_out = cs.compose(Sg, dg, S_out, d_out)
        else:
            h.ensure("only-GaussianTransform-and-Dgate", False, bounded_shape=True)
    h.ensure("at-most-one-GaussianTransform", sum(1 for c in res if type(c.op).__name__ == "GaussianTransform") <= 1, bounded_shape=True)
    h.ensure("acts-on-used-modes", all(r.ind in used for c in res for r in c.reg), bounded_shape=True)
    has_gt = any(type(c.op).__name__ == "GaussianTransform" for c in res)
    dmodes = {c.reg[0].ind for c in res if type(c.op).__name__ == "Dgate"}
    rel = [u for u in used] + [u + nreg for u in used]   # rows/columns outside the used modes are untouched identity
    for a in rel:
        for b in rel:
            if has_gt:
                # same action on the modes IN THE ORDER THE OUTPUT STATES (register of the emitted command)
                h.ensure(f"emit.S[{a},{b}]", eqv(S_out[a, b], S_src[a, b]), bounded_shape=True, finding=fid)
    if not has_gt:
        # the transform is elided only if the accumulated matrix is the identity up to np.allclose's tolerance
        for a in range(2 * nm_):
            for b in range(2 * nm_):
                h.ensure(f"elide.S[{a},{b}]", abs(Snet_code[a, b] - (1 if a == b else 0)) <= 2.1e-5, bounded_shape=True)
    for a in range(2 * nreg):
        if (a % nreg) in dmodes and has_gt:
            h.ensure(f"emit.d[{a}]", eqv(d_out[a], d_src[a]), bounded_shape=True, finding=fid)
    for k_, al in enumerate(alphas_code):
        mode = sorted(used_code)[k_] if k_ < nm_ else None
        if mode is not None and mode not in dmodes:
            h.ensure(f"elide.alpha[{k_}]", abs(al) <= 1e-7, bounded_shape=True)


for cname, circ in CIRCUITS.items():
    def mk(cname=cname, circ=circ):
        def fn(h):
            compile_case(h, cname, circ)
        fn.__name__ = ""
        return fn
    PROOFS.append(Proof("C11", GU + ":GaussianUnitary.compile", mk(), name=f"GaussianUnitary.compile/{cname}",
                        uses=[GU + ":_apply_symp_one_mode_gate", GU + ":_apply_symp_two_mode_gate"], max_paths=600))

for cname, k in [("S-R-D", 0), ("BS-S2", 0)]:
    def mk(cname=cname, k=k):
        def fn(h):
            compile_case(h, cname, CIRCUITS[cname], dagger_at=k)
        fn.__name__ = ""
        return fn
    PROOFS.append(Proof("C11", GU + ":GaussianUnitary.compile", mk(), name=f"GaussianUnitary.compile/{cname}/dagger@{k}", max_paths=600))


# ---------------------------------------------------------------------------------------------
# passive.py helpers (all matrix sizes)
# ---------------------------------------------------------------------------------------------
@proof("C11", PA + ":_apply_one_mode_gate")
def _p_one(h):
    m = h.module(PA)
    M = h.int("M", lo=1)
    T = h.array("T", (M, M), "complex")
    T0 = T.copy()
    i = h.int("i", lo=0); h.require(i < M)
    G = h.complex("G")
    a = h.int("a", lo=0); b = h.int("b", lo=0)
    h.require(And(a < M, b < M))
    out = h.call(m._apply_one_mode_gate, G, T, i)
    h.ensure("no-exception", out.returned)
    if out.returned:
        h.ensure("post.T", eqv(out.value.at(a, b), ite(SV(a.t == i.t), G * T0.at(a, b), T0.at(a, b))), split=[a, i])


@proof("C11", PA + ":_apply_two_mode_gate")
def _p_two(h):
    m = h.module(PA)
    M = h.int("M", lo=2)
    T = h.array("T", (M, M), "complex")
    T0 = T.copy()
    i = h.int("i", lo=0); h.require(i < M)
    j = h.int("j", lo=0); h.require(And(j < M, j != i))
    G = np.empty((2, 2), dtype=object)
    for r_ in range(2):
        for c_ in range(2):
            G[r_, c_] = h.complex(f"g{r_}{c_}")
    a = h.int("a", lo=0); b = h.int("b", lo=0)
    h.require(And(a < M, b < M))
    out = h.call(m._apply_two_mode_gate, G, T, i, j)
    h.ensure("no-exception", out.returned)
    if out.returned:
        exp = ite(SV(a.t == i.t), G[0, 0] * T0.at(i, b) + G[0, 1] * T0.at(j, b),
                  ite(SV(a.t == j.t), G[1, 0] * T0.at(i, b) + G[1, 1] * T0.at(j, b), T0.at(a, b)))
        h.ensure("post.T", eqv(out.value.at(a, b), exp), split=[a, i, j])


@proof("C11", PA + ":_beam_splitter_passive")
def _p_bs(h):
    m = h.module(PA)
    th, ph = h.real("theta"), h.real("phi")
    out = h.call(m._beam_splitter_passive, th, ph)
    h.ensure("no-exception", out.returned)
    if out.returned:
        U = out.value
        A, B, _ = cs.bogoliubov("BSgate", [th, ph], h.eng.math, 2)
        for r_ in range(2):
            for c_ in range(2):
                h.ensure(f"U[{r_},{c_}]-is-documented-BS", eqv(U[r_, c_], A[r_][c_]))
