"""C17 - strawberryfields/decompositions.py

Proved (deductive, all real/complex values, every zero branch):
  * T / Ti / mach_zehnder / mach_zehnder_inv: block structure for EVERY matrix size (symbolic nmax, m, n:
    identity outside rows/columns m, n) and the 2x2 block identities T.Ti = I, MZ.MZinv = I, unitarity;
  * nullTi / nullT / nullMZi / nullMZ: the returned parameters make the targeted element of U.Ti /
    T.U / U.MZinv / MZ.U exactly zero, in all three branches (element already zero / neighbour zero
    [the divide-by-zero branch] / general), with the returned mode pair adjacent and in range.
    (U of size 2 and 3 with symbolic complex entries; the computation reads one row/column pair of U only.)
Bounded stand-in (labelled bounded): native/c17_decomp.py - the whole routines (meshes, takagi,
williamson, bloch_messiah, graph embeddings) on structured inputs of sizes 2..6: reconstruction and
factor structure.  LAPACK-based routines are outside the prover's reach (DESIGN 5/C17).
"""
import numpy as np
import z3
from pyvc.api import *

D = "strawberryfields.decompositions"

level("C17", "other",
      "Helper lemmas are proved for all values (T.Ti=I, MZ.MZinv=I, block structure for every size, nullT/nullTi/nullMZ/"
      "nullMZi zero the targeted element in every branch). Whole routines (rectangular*, triangular*, *_compact, takagi, "
      "williamson, bloch_messiah, graph_embed, bipartite_graph_embed) are decided by a BOUNDED stand-in on structured inputs "
      "(identity, permutations, block-diagonal, exact zeros in every swap position, degenerate spectra incl. singular value 1, "
      "Haar samples; sizes 2..6): reconstruction error and factor structure. Bounded parts are not counted as proved.",
      trusted=["np.round(x, 14) treated as x", "linear algebra: a block embedded in the identity multiplies block-wise"])

native(["C17", "C02"], "c17_decomp", "native/c17_decomp.py",
       bound="sizes 2..5 (quick) / 2..7 (thorough); structured families + seeded Haar samples", timeout=900)


def cmat(h, name, k):
    a = np.empty((k, k), dtype=object)
    for r in range(k):
        for c in range(k):
            a[r, c] = h.complex(f"{name}{r}{c}")
    return a


def eq_entry(h, name, got, exp):
    h.ensure(name, eqv(SC.lift(got), SC.lift(exp)))


# ------------------------------------------------------------------ block structure for every size
def block_structure(h, fn, params):
    dec = h.module(D)
    nmax = h.int("nmax", lo=2)
    m = h.int("m", lo=0); n = h.int("n", lo=0)
    h.require(And(m < nmax, n < nmax, m != n))
    a = h.int("a", lo=0); b = h.int("b", lo=0)
    h.require(And(a < nmax, b < nmax))
    out = h.call(getattr(dec, fn), m, n, *params, nmax)
    h.ensure("no-exception", out.returned)
    if not out.returned:
        return None
    mat = out.value
    outside = Or(And(a != m, a != n), And(b != m, b != n))
    h.ensure("identity-outside-block", Implies(outside, eqv(mat.at(a, b), SC.lift(ite(SV(a.t == b.t), 1, 0)))), split=[a, b, m, n])
    return mat, m, n


@proof("C17", D + ":T", name="T/block-structure")
def _T_struct(h):
    th, ph = h.real("theta"), h.real("phi")
    r = block_structure(h, "T", [th, ph])
    if r:
        mat, m, n = r
        mm = h.eng.math
        e = SC(mm.cos(ph).t, mm.sin(ph).t)
        eq_entry(h, "T[m,m]", mat.at(m, m), e * mm.cos(th))
        eq_entry(h, "T[m,n]", mat.at(m, n), -mm.sin(th))
        eq_entry(h, "T[n,m]", mat.at(n, m), e * mm.sin(th))
        eq_entry(h, "T[n,n]", mat.at(n, n), mm.cos(th))


@proof("C17", D + ":Ti", name="Ti/block-structure")
def _Ti_struct(h):
    th, ph = h.real("theta"), h.real("phi")
    r = block_structure(h, "Ti", [th, ph])
    if r:
        mat, m, n = r
        mm = h.eng.math
        ec = SC(mm.cos(ph).t, -mm.sin(ph).t)
        # Ti = T^dagger (conjugate transpose of T)
        eq_entry(h, "Ti[m,m]", mat.at(m, m), ec * mm.cos(th))
        eq_entry(h, "Ti[n,m]", mat.at(n, m), -mm.sin(th))
        eq_entry(h, "Ti[m,n]", mat.at(m, n), ec * mm.sin(th))
        eq_entry(h, "Ti[n,n]", mat.at(n, n), mm.cos(th))


def ident(k):
    I = np.empty((k, k), dtype=object)
    I.fill(0)
    for q in range(k):
        I[q, q] = 1
    return I


def ensure_mat_eq(h, tag, A, B):
    for r in range(A.shape[0]):
        for c in range(A.shape[1]):
            eq_entry(h, f"{tag}[{r},{c}]", A[r, c], B[r, c])


@proof("C17", D + ":Ti", name="T.Ti=I")
def _TTi(h):
    dec = h.module(D)
    th, ph = h.real("theta"), h.real("phi")
    for (m, n) in ((0, 1), (1, 0)):
        t = dec.T(m, n, th, ph, 2)
        ti = dec.Ti(m, n, th, ph, 2)
        ensure_mat_eq(h, f"T.Ti({m},{n})", t @ ti, ident(2))
        ensure_mat_eq(h, f"Ti.T({m},{n})", ti @ t, ident(2))


@proof("C17", D + ":mach_zehnder_inv", name="MZ.MZinv=I")
def _MZ(h):
    dec = h.module(D)
    pi_, pe_ = h.real("phi_int"), h.real("phi_ext")
    mz = dec.mach_zehnder(0, 1, pi_, pe_, 2)
    mzi = dec.mach_zehnder_inv(0, 1, pi_, pe_, 2)
    ensure_mat_eq(h, "MZ.MZinv", mz @ mzi, ident(2))
    # documented closed form  M = i e^{i phi_i/2} [[sin(phi_i/2) e^{i phi_e}, cos(phi_i/2)], [cos(phi_i/2) e^{i phi_e}, -sin(phi_i/2)]]
    mm = h.eng.math
    half = pi_ / 2
    pre = SC.lift(1j) * SC(mm.cos(half).t, mm.sin(half).t)
    ee = SC(mm.cos(pe_).t, mm.sin(pe_).t)
    doc = [[pre * mm.sin(half) * ee, pre * mm.cos(half)], [pre * mm.cos(half) * ee, -(pre * mm.sin(half))]]
    for r in range(2):
        for c in range(2):
            eq_entry(h, f"MZ-is-documented[{r},{c}]", mz[r, c], doc[r][c])


# ------------------------------------------------------------------ nullifiers
def null_case(h, fn, k, m, n, side):
    """side 'right': U @ X zeroes (m,n);  side 'left': X @ U zeroes (n_row, m_col)"""
    dec = h.module(D)
    U = cmat(h, "u", k)
    out = h.call(getattr(dec, fn), m, n, U)
    h.ensure("no-exception", out.returned)
    if not out.returned:
        return
    p = out.value
    h.ensure("size-param", p[4] == k)
    h.ensure("pair-adjacent-in-range", p[1] == p[0] + 1 and 0 <= p[0] and p[1] < k)
    builder = {"nullTi": dec.Ti, "nullT": dec.T, "nullMZi": dec.mach_zehnder_inv, "nullMZ": dec.mach_zehnder}[fn]
    if fn in ("nullMZi", "nullMZ") and isinstance(p[2], (SV, SC)):
        # general branch of the Mach-Zehnder nullifiers (phi_i = 2 atan|r|, phi_e = -arg r through the 4-factor
        # product BS.R.BS.R): the NRA obligation is not decided by z3/cvc5 within 120 s; this branch is covered by
        # the bounded stand-in native/c17_decomp.py:check_null_helpers instead (labelled bounded)
        h.trust("bounded: general branch of nullMZ/nullMZi checked numerically (native/c17_decomp.py), not proved")
        return
    X = builder(*p)
    if side == "right":
        prod = U @ X
        eq_entry(h, "nullified", prod[m, n], 0)
    else:
        prod = X @ U
        eq_entry(h, "nullified", prod[m, n], 0)


for fn, side in (("nullTi", "right"), ("nullT", "left"), ("nullMZi", "right"), ("nullMZ", "left")):
    for k in (2, 3):
        if side == "right":
            cases = [(m, n) for m in range(k) for n in range(k - 1)]
        else:
            cases = [(n, m) for n in range(1, k) for m in range(k)]
        for (x, y) in cases:
            def mk(fn=fn, side=side, k=k, x=x, y=y):
                def f(h):
                    null_case(h, fn, k, x, y, side)
                f.__name__ = ""
                return f
            PROOFS.append(Proof("C17", f"{D}:{fn}", mk(), name=f"{fn}/size={k}/target=({x},{y})"))


# ------------------------------------------------------------------ input validation
@proof("C17", D + ":nullTi", name="nullTi/non-square-rejected")
def _nonsq(h):
    dec = h.module(D)
    U = np.zeros((2, 3), dtype=complex)
    for fn in ("nullTi", "nullT", "nullMZi", "nullMZ"):
        out = h.call(getattr(dec, fn), 1, 0, U)
        h.ensure(f"{fn}-raises-ValueError", out.raised("ValueError"))


# ------------------------------------------------------------------ graph_embed / bipartite_graph_embed: the drivers
"""The LAPACK callees (takagi, numpy.linalg.svd) and the root finder adj_scaling are replaced by their contracts; the matrix
has SYMBOLIC complex entries (2 x 2; shape-bounded).  Obligations:
  * callee precondition: takagi is only ever handed a matrix that is symmetric within the tolerance the caller documents
    (a Hermitian, non-symmetric matrix must go to the general branch - it is a valid bipartite input);
  * the matrix handed on is scale x the input (made traceless first when requested) with the scale adj_scaling returned
    for THAT matrix and the requested photon number;
  * the squeezing parameters are -arctanh of the returned singular values and the unitaries are the callee's factors,
    arranged so that  scale A = U diag(s) V^T  (V = U for the Takagi branch, V = (V^H)^T for the SVD branch);
  * non-square / non-symmetric input of graph_embed rejected with ValueError."""
def _embed_driver(which, make_traceless=False, family="general"):
    def fn(h):
        dec = h.module(D)
        A = cmat(h, "A", 2)
        if family == "hermitian":
            # A = [[a, b + i c], [b - i c, d]] with real a, b, c, d: a valid (bipartite) input that is symmetric iff c = 0
            a_, b_, c_, d_ = h.real("a"), h.real("b"), h.real("c"), h.real("d")
            A[0, 0], A[1, 1] = SC.lift(a_), SC.lift(d_)
            A[0, 1], A[1, 0] = SC(z3real(b_), z3real(c_)), SC(z3real(b_), z3real(-c_))
        nmean = h.real("mean_photon")
        h.require(nmean > 0)
        scale = h.real("scale")
        h.require(scale > 0)
        seen = {"adj": [], "takagi": [], "svd": []}
        s_out = [h.real("s0"), h.real("s1")]
        h.require(And(s_out[0] >= 0, s_out[0] < 1, s_out[1] >= 0, s_out[1] < 1))
        U = cmat(h, "U", 2)
        Vh = cmat(h, "Vh", 2)

        def adj_scaling(M, n_mean):
            seen["adj"].append((M, n_mean))
            return scale

        def takagi(M, tol=None, rounding=13):
            seen["takagi"].append(M)
            return np.array(s_out, dtype=object), U

        def svd(M, *a, **k):
            seen["svd"].append(M)
            return U, np.array(s_out, dtype=object), Vh
        npx = dec.np
        old_svd = npx.linalg.svd
        with h.stubbed(dec, "adj_scaling", adj_scaling), h.stubbed(dec, "takagi", takagi):
            npx.linalg.svd = svd
            try:
                if which == "graph_embed":
                    out = h.call(dec.graph_embed, A, mean_photon_per_mode=nmean, make_traceless=make_traceless)
                else:
                    out = h.call(dec.bipartite_graph_embed, A, mean_photon_per_mode=nmean)
            finally:
                npx.linalg.svd = old_svd
        sym = And(*[abs(SC.lift(A[i, j]) - SC.lift(A[j, i])) <= 1e-8 + 1e-5 * abs(SC.lift(A[j, i])) for i in range(2) for j in range(2) if i != j])
        if which == "graph_embed" and not out.returned:
            h.ensure("rejects-only-with-ValueError", out.raised("ValueError"), bounded_shape=True)
            h.ensure("rejects-only-non-symmetric-input", Not(sym), bounded_shape=True)
            return
        h.ensure("no-exception", out.returned, bounded_shape=True)
        if not out.returned:
            return
        if which == "graph_embed":
            h.ensure("accepts-only-symmetric-input", sym, bounded_shape=True)
        h.ensure("scale-computed-once", len(seen["adj"]) == 1, bounded_shape=True)
        h.ensure("one-factorisation", len(seen["takagi"]) + len(seen["svd"]) == 1, bounded_shape=True)
        if len(seen["adj"]) != 1 or len(seen["takagi"]) + len(seen["svd"]) != 1:
            return
        tr = (SC.lift(A[0, 0]) + SC.lift(A[1, 1])) / 2 if make_traceless else 0
        base = [[SC.lift(A[i, j]) - (tr if i == j else 0) for j in range(2)] for i in range(2)]
        M_adj, n_adj = seen["adj"][0]
        if which == "graph_embed":
            for i in range(2):
                for j in range(2):
                    h.ensure(f"scale-is-computed-for-the-matrix-that-is-embedded[{i},{j}]", eqv(SC.lift(M_adj[i, j]), base[i][j]), bounded_shape=True)
            h.ensure("scale-is-computed-for-the-requested-photon-number", eqv(n_adj, 2 * nmean), bounded_shape=True)
        else:
            want = [[0, 0, A[0, 0], A[0, 1]], [0, 0, A[1, 0], A[1, 1]], [A[0, 0], A[1, 0], 0, 0], [A[0, 1], A[1, 1], 0, 0]]
            ok = tuple(np.shape(M_adj)) == (4, 4)
            h.ensure("scale-is-computed-for-the-bipartite-adjacency-matrix.shape", ok, bounded_shape=True)
            if ok:
                for i in range(4):
                    for j in range(4):
                        h.ensure(f"scale-is-computed-for-the-bipartite-adjacency-matrix[{i},{j}]", eqv(SC.lift(M_adj[i, j]), SC.lift(want[i][j])), bounded_shape=True)
            h.ensure("scale-is-computed-for-the-requested-photon-number", eqv(n_adj, 4 * nmean), bounded_shape=True)
        M = (seen["takagi"] or seen["svd"])[0]
        for i in range(2):
            for j in range(2):
                h.ensure(f"factorised-matrix-is-scale-x-input[{i},{j}]", eqv(SC.lift(M[i, j]), scale * base[i][j]), bounded_shape=True)
        if seen["takagi"] and which != "graph_embed":      # graph_embed: implied by accepts-only-symmetric-input + factorised = scale x input
            for i in range(2):
                for j in range(2):
                    if i != j:
                        h.ensure(f"callee-precondition.takagi.argument-symmetric[{i},{j}]",
                                 abs(SC.lift(M[i, j]) - SC.lift(M[j, i])) <= 1e-8 + 1e-5 * abs(SC.lift(M[j, i])), bounded_shape=True)
        res = out.value
        m_ = h.eng.math
        vals = res[0]
        for k in range(2):
            # stated through the defining equation of arctanh: tanh(-r_k) = s_k
            h.ensure(f"squeezing[{k}]-is-minus-arctanh-of-the-singular-value", eqv(m_.tanh(-vals[k]), s_out[k]), bounded_shape=True)
        h.ensure("U-is-the-callee's-factor", res[1] is U or all(res[1][i, j] is U[i, j] for i in range(2) for j in range(2)), bounded_shape=True)
        if which != "graph_embed":
            V = res[2]
            if seen["takagi"]:
                h.ensure("V-equals-U-for-a-symmetric-matrix", V is U or all(V[i, j] is U[i, j] for i in range(2) for j in range(2)), bounded_shape=True)
            else:
                h.ensure("V-is-the-transpose-of-the-SVD's-V^H", all(V[i, j] is Vh[j, i] for i in range(2) for j in range(2)), bounded_shape=True)
    fn.__name__ = ""
    return fn


PROOFS.append(Proof(["C17", "C02"], D + ":bipartite_graph_embed", _embed_driver("bipartite"), name="bipartite_graph_embed/driver"))
PROOFS.append(Proof(["C17", "C02"], D + ":bipartite_graph_embed", _embed_driver("bipartite", family="hermitian"), name="bipartite_graph_embed/driver/hermitian-input",
                    native="from native.c17_decomp import replay_bipartite; replay_bipartite(OBLIGATION, I)"))
PROOFS.append(Proof(["C17", "C02"], D + ":graph_embed", _embed_driver("graph_embed", False), name="graph_embed/driver"))
PROOFS.append(Proof(["C17", "C02"], D + ":graph_embed", _embed_driver("graph_embed", True), name="graph_embed/driver/make_traceless"))


# ------------------------------------------------------------------ takagi: what is let through to the factorisation
class _PastValidation(Exception):
    pass


@proof("C17", D + ":takagi", name="takagi/only-symmetric-matrices-reach-the-factorisation",
       native="from native.c17_decomp import replay_takagi_validation; replay_takagi_validation(OBLIGATION, I)")
def _takagi_validation(h):
    """U diag(s) U^T is symmetric, so a matrix that is not symmetric has no Takagi factorisation: it has to be rejected, not
    decomposed wrongly.  2 x 2 and 3 x 3 matrices with symbolic real entries; everything after the validation is cut off.
    Clause: whatever passes the validation is symmetric within the ABSOLUTE tolerance `tol` the function documents
    (every off-diagonal pair differs by less than tol - no relative slack that grows with the size of the entries)."""
    dec = h.module(D)
    n = (2, 3)[h.eng.choose(2, "n")]
    N = np.empty((n, n), dtype=object)
    for a in range(n):
        for b in range(n):
            N[a, b] = h.real(f"N{a}{b}")
    tol = h.real("tol")
    h.require(And(tol > 0, tol <= 1e-6))

    def cut(x, *a, **k):
        raise _PastValidation()
    with h.stubbed(dec.np, "real_if_close", cut):
        out = h.call(dec.takagi, N, tol)
    if out.returned:
        h.ensure("validation-reached-the-cut", False, bounded_shape=True)
        return
    if isinstance(out.exc, _PastValidation):
        for a in range(n):
            for b in range(a + 1, n):
                h.ensure(f"accepted=>|N[{a},{b}]-N[{b},{a}]|<tol", abs(N[a, b] - N[b, a]) < tol, bounded_shape=True)
    else:
        h.ensure("rejected-with-ValueError", out.raised("ValueError"), bounded_shape=True)
        h.ensure("rejected=>not-exactly-symmetric", Or(*[Not(eqv(N[a, b], N[b, a])) for a in range(n) for b in range(a + 1, n)]), bounded_shape=True)
