"""C13 - time-domain programs (tdm/program.py).  Proved: shift_by; the typestate of roll / unroll / space_unroll over all
call histories.  Shape-bounded contracts: the loop emitted by _unroll_program / apply_op, the arrangement of outcomes by
reshape_samples / _get_mode_order.  Joint states and engine runs: BOUNDED stand-in (native/c13_tdm.py)."""
import z3
from pyvc.api import *

T = "strawberryfields.tdm.program"

level("C13", "other",
      "Proved for all values: shift_by(l, n) is the cyclic left rotation for lists of arbitrary length; roll / unroll / "
      "space_unroll re-establish the representation invariant of the program (rolled | unrolled(k) | space-unrolled(k)) from an "
      "ARBITRARY state satisfying it (symbolic register size, time bins, shots, added modes), hence after every call history: "
      "roll restores circuit and register exactly, the circuit is the unrolling of the requested kind for the requested shots, "
      "refused calls change nothing, the locked flag survives. Shape-bounded (layouts and small counts enumerated, per-bin values "
      "symbolic): _unroll_program + apply_op emit the explicit loop; reshape_samples arranges the outcome of pulse (shot, band, "
      "bin) at that entry. Bounded stand-in: (a) entry (shot, band, time bin) of Result.samples identifies exactly that pulse "
      "(identifying displacements) for N in [1],[2],[3],[1,1],[2,1],[1,2],[8,2], bands measured in either order, 2/3/5 bins, 1-2 "
      "shots; (b) register-shifting unrolling == hand-written fresh-mode loop and space-unrolling == hand-written loop (joint "
      "state), N=2,3, 2-4 bins, with and without daggered gates; (c) every sequence of unroll/space_unroll/roll/lock calls up to "
      "length 3 (quick) / 4; (d) cropping, integer shifts. F17, F18, F33, F60 found and repaired; F16, F32, F41, F58 are open findings.",
      trusted=["contracts of _unroll_program / _add_subsystems / _delete_subsystems used as stubs in the typestate proofs (the first is itself under contract at enumerated shapes)"])

native("C13", "c13_tdm", "native/c13_tdm.py", bound="see level text; Gaussian backend", timeout=900)


@proof("C13", T + ":shift_by")
def _shift_by(h):
    tp = h.module(T)
    l = h.list("l", "int")
    n = h.int("n", lo=0)
    h.require(n <= l.length())
    out = h.call(tp.shift_by, l, n)
    h.ensure("no-exception", out.returned)
    if out.returned:
        r = out.value
        L = l.length()
        h.ensure("len", r.length() == L)
        h.ensure("rotation", forall(lambda i: Implies(And(i >= 0, i < L),
                                                      eqv(r.at(i), ite(i + n < L, l.at(i + n), l.at(i + n - L))))))
        h.ensure("argument-unmodified", l.length() == L)


# ---------------------------------------------------------------- roll / unroll / space_unroll: typestate over ALL call histories
"""Abstract view of a TDMProgram for the history clauses of C13:
   form in {rolled, unrolled(k shots), space-unrolled(k shots)}, ORIG = the circuit the user wrote, R0 = the register the
   user declared.  Representation invariant INV(form):
     rolled : circuit is ORIG, rolled_circuit is ORIG, both caches None, register == R0 == init_num_subsystems
     unrolled(k): circuit is the cache, cache built by _unroll_program(k, space=False) from ORIG and _unrolled_shots == k,
                  register == R0 == init_num_subsystems
     space(k)   : same with space=True, register == R0 + added, init_num_subsystems == R0 + added, added >= 0
   Every public operation is called on an ARBITRARY state satisfying INV (symbolic R0, time bins, shots, added modes) and
   must re-establish INV and its own postcondition; by induction the postconditions hold after every call history.
   _unroll_program, _add_subsystems, _delete_subsystems are replaced by their contracts (ghost register length)."""
FORMS = ("rolled", "unrolled", "space")


class _GhostRegister:
    """the register as (length); a slice [start:] is the token ('tail', number of entries it holds)"""
    def __init__(self, st):
        self.st = st

    def __getitem__(self, k):
        # Python slice semantics of register[start:] on a register of length L: a negative start counts from the end
        # (at most L entries), a start >= 0 - including -0 == 0 - counts from the front
        assert isinstance(k, slice) and k.stop is None and k.step is None
        L, st = self.st.reglen, k.start
        count = ite(st < 0, ite(-st < L, -st, L), ite(st < L, L - st, 0))
        return ("tail", count)


class _St:
    pass


def tdm_state(h, tp, form):
    g = _St()
    g.ORIG = ["user-circuit"]
    g.R0 = h.int("R0", lo=1)
    g.timebins = h.int("timebins", lo=1)
    g.locked = bool(h._reg("locked", h.eng.choose(2, "locked")))
    g.calls, g.errors, g.adds = [], [], 0
    g.cache, g.cache_key = None, None
    g.reglen = g.R0
    fields = dict(N=[g.R0], _concurr_modes=g.R0, _timebins=g.timebins, _spatial_modes=1, locked=g.locked,
                  rolled_circuit=g.ORIG, circuit=g.ORIG, unrolled_circuit=None, space_unrolled_circuit=None,
                  _unrolled_shots=None, _num_added_subsystems=0, init_num_subsystems=g.R0, _measured_modes=set())
    if form != "space":
        fields["_num_added_subsystems"] = h.int("stale_added")      # not constrained by INV outside the space-unrolled form
    if form != "rolled":
        k = h.int("cached_shots", lo=1)
        g.cache, g.cache_key = ["cached-circuit"], (k, form == "space")
        fields["_unrolled_shots"] = k
        fields["circuit"] = g.cache
        if form == "unrolled":
            fields["unrolled_circuit"] = g.cache
        else:
            added = h.int("added", lo=0)
            fields["space_unrolled_circuit"] = g.cache
            fields["_num_added_subsystems"] = added
            fields["init_num_subsystems"] = g.R0 + added
            g.reglen = g.R0 + added
    obj = h.new(tp.TDMProgram, **fields)

    def unroll_program(self, shots, space):
        # contract of _unroll_program (its body is under contract separately): requires a rolled program
        if not (self.unrolled_circuit is None and self.space_unrolled_circuit is None) or self.circuit is not g.ORIG:
            g.errors.append("_unroll_program called on a program that is not rolled")
        g.calls.append((shots, space))
        self.rolled_circuit = self.circuit
        new = ["unrolled-circuit", len(g.calls)]
        self.circuit = new
        g.cache, g.cache_key = new, (shots, space)
        if space:
            self.space_unrolled_circuit = new
        else:
            self.unrolled_circuit = new

    def add(self, n):
        g.adds += 1
        h.ensure(f"callee-precondition._add_subsystems#{g.adds}.count>=1", n >= 1)
        g.reglen = g.reglen + n

    def delete(self, refs):
        if not (isinstance(refs, tuple) and refs[0] == "tail"):
            g.errors.append("_delete_subsystems not called with the tail of the register")
            return
        g.deleted = refs[1]
        g.reglen = g.reglen - refs[1]
    patches = [h.stubbed(tp.TDMProgram, "_unroll_program", unroll_program), h.stubbed(tp.TDMProgram, "_add_subsystems", add),
               h.stubbed(tp.TDMProgram, "_delete_subsystems", delete),
               h.stubbed(tp.TDMProgram, "register", property(lambda self: _GhostRegister(g)))]
    return obj, g, patches


def tdm_inv(h, obj, g, tag):
    """INV of the state reached; the form is read off the caches"""
    u, s = obj.unrolled_circuit, obj.space_unrolled_circuit
    h.ensure(f"{tag}inv.no-contract-of-a-callee-violated", not g.errors, why=str(g.errors))
    h.ensure(f"{tag}inv.rolled_circuit-is-the-user-circuit", obj.rolled_circuit is g.ORIG)
    h.ensure(f"{tag}inv.at-most-one-cache", u is None or s is None)
    if u is None and s is None:
        h.ensure(f"{tag}inv.rolled.circuit-is-the-user-circuit", obj.circuit is g.ORIG)
    else:
        c = u if u is not None else s
        h.ensure(f"{tag}inv.unrolled.circuit-is-the-cache", obj.circuit is c or list(obj.circuit) == list(c))
        h.ensure(f"{tag}inv.unrolled.cache-was-built-by-the-matching-unrolling", g.cache is not None and (c is g.cache or list(c) == list(g.cache)) and g.cache_key[1] == (s is not None))
        h.ensure(f"{tag}inv.unrolled.recorded-shots-are-the-shots-of-the-cache", eqv(obj._unrolled_shots, g.cache_key[0]) if obj._unrolled_shots is not None else False)
    if s is None:
        h.ensure(f"{tag}inv.register-is-the-declared-register", And(eqv(g.reglen, g.R0), eqv(obj.init_num_subsystems, g.R0)))
    else:
        h.ensure(f"{tag}inv.space.register-bookkeeping", And(eqv(g.reglen, g.R0 + obj._num_added_subsystems), eqv(obj.init_num_subsystems, g.R0 + obj._num_added_subsystems), obj._num_added_subsystems >= 0))
    h.ensure(f"{tag}locked-flag-preserved", obj.locked is g.locked)


def _enter(patches):
    import contextlib
    st = contextlib.ExitStack()
    for p in patches:
        st.enter_context(p)
    return st


@proof("C13", T + ":TDMProgram.roll", name="TDMProgram.roll/from-any-state", native="from native.c13_replay import replay; replay('roll', OBLIGATION, I)")
def _tdm_roll(h):
    tp = h.module(T)
    form = FORMS[h._reg("form", h.eng.choose(3, "form"))]
    obj, g, patches = tdm_state(h, tp, form)
    with _enter(patches):
        out = h.call(obj.roll)
        h.ensure("no-exception", out.returned)
        tdm_inv(h, obj, g, "")
        h.ensure("circuit-restored-exactly", obj.circuit is g.ORIG)
        h.ensure("register-restored-exactly", eqv(g.reglen, g.R0))
        h.ensure("program-is-rolled", obj.unrolled_circuit is None and obj.space_unrolled_circuit is None)
        h.ensure("no-unrolling-performed", g.calls == [])


@proof("C13", T + ":TDMProgram.unroll", name="TDMProgram.unroll/from-any-state", native="from native.c13_replay import replay; replay('unroll', OBLIGATION, I)")
def _tdm_unroll(h):
    tp = h.module(T)
    form = FORMS[h._reg("form", h.eng.choose(3, "form"))]
    obj, g, patches = tdm_state(h, tp, form)
    shots = h.int("shots", lo=1)
    before = dict(vars(obj))
    key0, len0 = g.cache_key, g.reglen
    with _enter(patches):
        out = h.call(obj.unroll, shots)
        tdm_inv(h, obj, g, "")
        if form == "space":
            h.ensure("refused-when-space-unrolled", out.raised("ValueError"))
            h.ensure("refusal-leaves-the-program-as-it-was", obj.circuit is before["circuit"] and obj.space_unrolled_circuit is before["space_unrolled_circuit"] and g.calls == [])
            h.ensure("refusal-leaves-the-register-as-it-was", eqv(g.reglen, len0))
        else:
            h.ensure("no-exception", out.returned)
            h.ensure("circuit-is-a-register-shift-unrolling", g.cache_key is not None and g.cache_key[1] is False and (obj.circuit is g.cache or list(obj.circuit) == list(g.cache)))
            if g.cache_key is not None:
                h.ensure("unrolled-for-the-requested-shots", eqv(g.cache_key[0], shots))
            h.ensure("unrolled-from-the-user-circuit-at-most-once", len(g.calls) <= 1)
            h.ensure("register-untouched", eqv(g.reglen, g.R0))


@proof("C13", T + ":TDMProgram.space_unroll", name="TDMProgram.space_unroll/from-any-state", native="from native.c13_replay import replay; replay('space_unroll', OBLIGATION, I)")
def _tdm_space_unroll(h):
    tp = h.module(T)
    form = FORMS[h._reg("form", h.eng.choose(3, "form"))]
    obj, g, patches = tdm_state(h, tp, form)
    shots = h.int("shots", lo=1)
    if form == "space":
        # a cached space-unrolling for the same shots has the register of that unrolling (part of INV for the cache)
        h.require(Implies(eqv(g.cache_key[0], shots), eqv(obj._num_added_subsystems, ite(g.timebins - 1 > 0, g.timebins - 1, 0))))
    with _enter(patches):
        out = h.call(obj.space_unroll, shots)
        h.ensure("no-exception", out.returned)
        tdm_inv(h, obj, g, "")
        h.ensure("circuit-is-a-space-unrolling", g.cache_key is not None and g.cache_key[1] is True and (obj.circuit is g.cache or list(obj.circuit) == list(g.cache)))
        if g.cache_key is not None:
            h.ensure("unrolled-for-the-requested-shots", eqv(g.cache_key[0], shots))
        h.ensure("unrolled-from-the-user-circuit-at-most-once", len(g.calls) <= 1)
        # one fresh mode per time bin: the loop of one shot needs timebins + (concurrent modes - 1) register entries
        need = g.timebins + g.R0 - 1
        h.ensure("register-long-enough-for-one-shot-and-never-shrunk-below-the-declared-one", eqv(g.reglen, ite(need > g.R0, need, g.R0)))


# ---------------------------------------------------------------- _unroll_program + apply_op: the emitted loop
"""Contract of the unrolling itself (the callee of the typestate proofs above).  Program.append is replaced by a recorder;
the rolled circuit consists of real operations (a gate with a looped parameter, a daggered two-mode gate with a looped
and a constant parameter, a post-selected measurement with a looped angle) on fixed register positions; the per-time-bin
parameter arrays hold SYMBOLIC values.  Postcondition, from the property ("the program denotes its explicit loop"): the
emitted sequence is, for every shot, every time bin t and every rolled command c in order, the command c - same class,
same inverse flag, same post-selection, constant parameters untouched, every looped parameter replaced by entry t of ITS
array - applied to the register positions of c after g = shot * timebins + t shifts, where one shift rotates each band
separately by one (shift='default'), the whole register by k (integer shift k) or the whole register by one
(space-unrolling: with the register space_unroll allocates nothing ever wraps around, every pulse gets a fresh mode).
The rolled commands are left untouched and no emitted operation is one of the rolled operation objects.
Shapes enumerated (bands, shift, 1-3 time bins, 1-2 shots): shape-bounded."""
OPS_ = "strawberryfields.ops"
UNROLL_CASES = [
    # (N, shift, space, register positions of (gate, two-mode gate, measurement))
    ([1], "default", False, (0, (0, 0), 0)),
    ([2], "default", False, (1, (0, 1), 0)),
    ([3], "default", False, (2, (1, 2), 0)),
    ([1, 2], "default", False, (2, (1, 2), 0)),
    ([2, 1, 2], "default", False, (4, (0, 3), 3)),
    ([3], 1, False, (2, (1, 2), 0)),
    ([3], 2, False, (2, (0, 2), 0)),
    ([4], -1, False, (3, (1, 2), 0)),
    ([2], "default", True, (1, (0, 1), 0)),
    ([3], "default", True, (2, (1, 2), 0)),
]


def _shifted(N, shift, space, R, j, g):
    """register position j after g shifts (index of the reference found there)"""
    if space:
        return j + g                      # no wrap-around within one shot on the register space_unroll allocates
    if shift == "default":
        start = 0
        for nb in N:
            if start <= j < start + nb:
                return start + (j - start + g) % nb
            start += nb
    return (j + g * shift) % R


def _tdm_unroll_body(h, TB=(1, 2, 3), SH=(1, 2)):
    tp, ops, pu, par = h.module(T), h.module(OPS_), h.module("strawberryfields.program_utils"), h.module("strawberryfields.parameters")
    N, shift, space, (g1, g2, gm) = UNROLL_CASES[h._reg("case", h.eng.choose(len(UNROLL_CASES), "case"))]
    tb = TB[h.eng.choose(len(TB), "timebins_idx")]
    shots = 1 if space else SH[h.eng.choose(len(SH), "shots_idx")]
    h._reg("timebins", tb)
    h._reg("shots", shots)
    if g2[0] == g2[1]:
        g2 = None
    R0 = sum(N)
    R = tb + R0 - 1 if space and tb + R0 - 1 > R0 else R0
    refs = tuple(pu.RegRef(k) for k in range(R))
    p0, p1 = par.FreeParameter("p0"), par.FreeParameter("p1")
    A = [[h.real(f"p{k}_{t}") for t in range(tb)] for k in range(2)]
    gate = ops.Rgate(p0)
    two = ops.BSgate(p1, 0.5).H if g2 else None
    const = two.p[1] if two else None
    meas = ops.MeasureHomodyne(p0, select=0.25)
    rolled = [pu.Command(gate, [refs[g1]])] + ([pu.Command(two, [refs[g2[0]], refs[g2[1]]])] if two else []) + [pu.Command(meas, [refs[gm]])]
    before = [(c, c.op, list(c.op.p), list(c.reg)) for c in rolled]
    orig = list(rolled)
    emitted = []

    def append(self, op, reg):
        emitted.append((op, tuple(r.ind for r in reg)))
        self.circuit.append(("cmd", len(emitted)))
    obj = h.new(tp.TDMProgram, N=list(N), _concurr_modes=R0, _timebins=tb, _spatial_modes=len(N), shift=shift, circuit=rolled, rolled_circuit=rolled,
                unrolled_circuit=None, space_unrolled_circuit=None, _measured_modes=set(), tdm_params=A, loop_vars=[p0, p1], locked=False,
                _unrolled_shots=shots)
    with h.stubbed(tp.TDMProgram, "append", append), h.stubbed(tp.TDMProgram, "register", property(lambda self: refs)):
        out = h.call(obj._unroll_program, shots, space)
    h.ensure("no-exception", out.returned, bounded_shape=True)
    if not out.returned:
        return
    h.ensure("one-command-per-shot-time-bin-and-rolled-command", len(emitted) == shots * tb * len(orig), bounded_shape=True)
    k = 0
    for s_ in range(shots):
        for t in range(tb):
            g = s_ * tb + t
            for c in orig:
                if k >= len(emitted):
                    break
                op, inds = emitted[k]
                tag = f"shot{s_}.bin{t}.{type(c.op).__name__}"
                k += 1
                h.ensure(f"{tag}.same-class-inverse-flag-and-post-selection", type(op) is type(c.op) and getattr(op, "dagger", None) == getattr(c.op, "dagger", None)
                         and getattr(op, "select", None) == getattr(c.op, "select", None), bounded_shape=True)
                h.ensure(f"{tag}.a-new-operation-object", all(op is not c2.op for c2 in orig), bounded_shape=True)
                want = tuple(_shifted(N, shift, space, R, r.ind, g) for r in c.reg)
                h.ensure(f"{tag}.acts-on-the-register-positions-after-{g}-shifts", inds == want, bounded_shape=True)
                if c.op is gate or c.op is meas:
                    h.ensure(f"{tag}.looped-parameter-is-entry-{t}-of-its-array", len(op.p) == len(c.op.p) and op.p[0] is A[0][t], bounded_shape=True)
                else:
                    h.ensure(f"{tag}.looped-parameter-is-entry-{t}-of-its-array", len(op.p) == 2 and op.p[0] is A[1][t], bounded_shape=True)
                    h.ensure(f"{tag}.constant-parameter-untouched", op.p[1] is const or op.p[1] == const, bounded_shape=True)
    h.ensure("rolled-commands-untouched", all(c.op is o and list(o.p) == p and all(x is y for x, y in zip(o.p, p)) and list(c.reg) == rg for (c, o, p, rg) in before)
             and obj.rolled_circuit is rolled and list(rolled) == orig, bounded_shape=True)
    cache = obj.space_unrolled_circuit if space else obj.unrolled_circuit
    other = obj.unrolled_circuit if space else obj.space_unrolled_circuit
    h.ensure("cache-of-the-requested-kind-holds-the-emitted-circuit", cache is not None and other is None and list(cache) == list(obj.circuit) and len(obj.circuit) == len(emitted), bounded_shape=True)
    h.ensure("measured-modes-recorded", set(obj._measured_modes) == {gm}, bounded_shape=True)


PROOFS.append(Proof("C13", T + ":TDMProgram._unroll_program", _tdm_unroll_body, name="TDMProgram._unroll_program/emits-the-explicit-loop",
                    native="from native.c13_replay import replay_unroll; replay_unroll(OBLIGATION, I)"))
PROOFS.append(Proof("C13", T + ":TDMProgram._unroll_program", lambda h: _tdm_unroll_body(h, (4, 5, 7), (1, 3)),
                    name="TDMProgram._unroll_program/emits-the-explicit-loop/4-7-time-bins-up-to-3-shots", tier_only="thorough",
                    native="from native.c13_replay import replay_unroll; replay_unroll(OBLIGATION, I)"))


# ---------------------------------------------------------------- reshape_samples / _get_mode_order: arrangement of the outcomes
"""Precondition = postcondition of the unrolling contract above: the raw outcomes arrive, per register index, in the order
in which the explicit loop measures (shot by shot, time bin by time bin, band by band; the measured position of band b
is found, after g shifts of shift='default', at the index given by _shifted).  Every outcome is a SYMBOLIC value.
Postcondition, from the property: the result has one entry per measured mode, of shape (shots, time bins), and entry
[shot][time bin] of the band's mode IS the outcome of that pulse (identity of the symbolic value, so a permutation
of equal-looking numbers cannot hide).  Band layouts, measured positions, 1-4 time bins, 1-2 shots enumerated."""
RESHAPE_CASES = [([1], [0]), ([2], [0]), ([3], [0]), ([1, 2], [0, 1]), ([1, 2], [0, 2]), ([2, 1], [0, 2]), ([2, 1, 2], [0, 2, 3]), ([3, 2], [1, 3])]


def _reshape(h, TB=(1, 2, 3, 4), SH=(1, 2)):
    tp = h.module(T)
    N, modes = RESHAPE_CASES[h._reg("case", h.eng.choose(len(RESHAPE_CASES), "case"))]
    tb = TB[h.eng.choose(len(TB), "timebins_idx")]
    shots = SH[h.eng.choose(len(SH), "shots_idx")]
    h._reg("timebins", tb)
    h._reg("shots", shots)
    R = sum(N)
    v = [[[h.real(f"outcome_s{s}_b{b}_t{t}") for t in range(tb)] for b in range(len(N))] for s in range(shots)]
    raw = {}
    for s in range(shots):
        for t in range(tb):
            for b, m in enumerate(modes):
                raw.setdefault(_shifted(N, "default", False, R, m, s * tb + t), []).append([v[s][b][t]])
    snap = {k: [list(x) for x in lst] for k, lst in raw.items()}
    out = h.call(tp.reshape_samples, raw, list(modes), list(N), tb)
    h.ensure("no-exception", out.returned, bounded_shape=True)
    if not out.returned:
        return
    res = out.value
    h.ensure("one-entry-per-measured-mode", sorted(res.keys()) == sorted(modes), bounded_shape=True)
    for b, m in enumerate(modes):
        if m not in res:
            continue
        arr = res[m]
        shp = tuple(getattr(arr, "shape", ()))
        h.ensure(f"band{b}.shape-is-(shots,timebins)", shp == (shots, tb), bounded_shape=True)
        if shp != (shots, tb):
            continue
        for s in range(shots):
            for t in range(tb):
                h.ensure(f"band{b}.entry[{s}][{t}]-is-the-outcome-of-that-pulse", arr[s][t] is v[s][b][t], bounded_shape=True)
    h.ensure("raw-outcomes-untouched", all(len(raw[k]) == len(snap[k]) and all(x[0] is y[0] for x, y in zip(raw[k], snap[k])) for k in snap) and set(raw) == set(snap), bounded_shape=True)


PROOFS.append(Proof("C13", T + ":reshape_samples", _reshape, name="reshape_samples/entry-(shot,band,bin)-is-the-outcome-of-that-pulse",
                    native="from native.c13_replay import replay_reshape; replay_reshape(OBLIGATION, I)"))
PROOFS.append(Proof("C13", T + ":reshape_samples", lambda h: _reshape(h, (5, 6, 9), (1, 3)),
                    name="reshape_samples/entry-(shot,band,bin)-is-the-outcome-of-that-pulse/5-9-time-bins-up-to-3-shots", tier_only="thorough",
                    native="from native.c13_replay import replay_reshape; replay_reshape(OBLIGATION, I)"))
