"""C13 - time-domain programs (tdm/program.py).  Proved: shift_by is the cyclic rotation for every list length and
shift.  Everything else is a BOUNDED stand-in (native/c13_tdm.py): the unrolling machinery builds real Program objects
command by command through Program.append and the sample arrangement is a property of a whole engine run."""
import z3
from pyvc.api import *

T = "strawberryfields.tdm.program"

level("C13", "other",
      "Proved: shift_by(l, n) is the cyclic left rotation by n (result[i] = l[(i+n) mod len]) for lists of arbitrary length. "
      "Bounded stand-in: (a) entry (shot, band, time bin) of Result.samples identifies exactly that pulse (pulses carry "
      "identifying displacements) for N in [1],[2],[3],[1,1],[2,1],[1,2],[8,2], bands measured in either order, 2/3/5 bins, 1-2 "
      "shots; (b) register-shifting unrolling == hand-written fresh-mode loop (conditional state of the in-flight modes under "
      "the same post-selected outcomes) and space-unrolling == hand-written loop (joint state of all pulses), N=2,3, 2-4 bins, "
      "with and without daggered gates; (c) every sequence of unroll/space_unroll/roll/lock calls up to length 3 (quick) / 4: "
      "roll restores circuit and register, locked flag preserved (also on refusals), program still runs; (d) inverse flag and "
      "select survive unrolling. F17, F18, F33 found and repaired; F16, F32, F41 are open findings.",
      trusted=[])

native("C13", "c13_tdm", "native/c13_tdm.py", bound="see level text; Gaussian backend", timeout=900)


@proof("C13", T + ":shift_by")
def _shift_by(h):
    tp = h.module(T)
    l = h.list("l", "int")
    n = h.int("n", lo=0)
    h.require(n <= l.length())
    out = h.call(tp.shift_by, l, n)
    h.ensure("no-exception", out.returned)
    if out.returned:
        r = out.value
        L = l.length()
        h.ensure("len", r.length() == L)
        h.ensure("rotation", forall(lambda i: Implies(And(i >= 0, i < L),
                                                      eqv(r.at(i), ite(i + n < L, l.at(i + n), l.at(i + n - L))))))
        h.ensure("argument-unmodified", l.length() == L)
