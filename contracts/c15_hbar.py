"""C15 - independence of the hbar convention (front-end rescaling in ops.py, state objects in backends/states.py)

hbar is SYMBOLIC (> 0).  Every front-end operation that converts between hbar-dependent user units and
the hbar-free backend API is executed for real against a recording stub backend; with the dimensionful
user quantity written as (hbar-free number) x (its documented power of hbar), the argument handed to the
backend must be hbar-FREE and the value handed back to the user must carry exactly the documented power
of hbar (quadratures ~ sqrt(hbar), covariances ~ hbar, amplitudes/photon numbers ~ 1).
(Xgate/Zgate: contracts/c02_fixed.py, also with symbolic hbar.)
"""
import numpy as np
import z3
from pyvc.api import *

OPS = "strawberryfields.ops"
ST = "strawberryfields.backends.states"


class RecBackend:
    """stub of the hbar-free backend API: records calls, returns opaque hbar-free values"""
    def __init__(self, h):
        self.calls = []
        self.h = h

    def __getattr__(self, name):
        def f(*a, **kw):
            self.calls.append((name, a, kw))
            if name in ("measure_homodyne", "mb_squeeze_single_shot"):
                self.outcome = self.h.real("backend_outcome")     # in hbar=2 units, independent of sf.hbar
                return self.outcome
            return None
        return f


def setup(h):
    hb = h.real("hbar")
    h.require(hb > 0)
    h.ghost(hbar=hb)
    m = h.eng.math
    return hb, m, m.sqrt(hb), m.sqrt(hb / 2)


def op_snapshot(op):
    """old(op): every instance attribute by identity, list-valued ones also element by element"""
    return {k: (v, list(v) if isinstance(v, list) else None) for k, v in vars(op).items()}


def _same_value(a, b):
    if a is b:
        return True
    try:
        r = (a == b)
        return bool(r) if not hasattr(r, "all") else bool(r.all())
    except Exception:
        return False


def op_unchanged(op, snap):
    """the observable content of the operation is what it was: same attributes, list-valued ones hold the SAME parameter
    objects element by element (a re-created but equal container is not a change), other values equal"""
    cur = vars(op)
    if set(cur) != set(snap):
        return False
    for k, (v, items) in snap.items():
        if items is not None:
            if not isinstance(cur[k], list) or len(cur[k]) != len(items) or any(a is not b for a, b in zip(cur[k], items)):
                return False
        elif not _same_value(cur[k], v):
            return False
    return True


@proof(["C15", "C06", "C09"], OPS + ":MeasureHomodyne._apply")
def _homodyne(h):
    ops = h.module(OPS)
    hb, m, rt, s = setup(h)
    sel = h.real("select_scaled")           # user's select = sel * sqrt(hbar)
    op = ops.MeasureHomodyne(h.real("phi"), select=sel * rt)
    be = RecBackend(h)
    snap = op_snapshot(op)
    out = h.call(op._apply, [0], be, shots=1)
    h.ensure("no-exception", out.returned)
    if not out.returned:
        return
    (name, a, kw), = be.calls
    h.ensure("calls-measure_homodyne-on-mode", name == "measure_homodyne" and a[1] == 0)
    h.ensure("select-handed-to-backend-is-hbar-free", eqv(kw["select"], sel * m.sqrt(2)))
    h.ensure("result~sqrt(hbar)", eqv(out.value, be.outcome * s))
    h.ensure("angle-unchanged", a[0] is op.p[0])
    # frame: the operation object (shared by every use of it and by compiled copies of the program) is left as it was,
    # so a second application hands the same hbar-free value to the backend
    h.ensure("operation-untouched", op_unchanged(op, snap))
    out2 = h.call(op._apply, [0], be, shots=1)
    h.ensure("second-application.same-backend-call", out2.returned and len(be.calls) == 2 and eqv(be.calls[1][2]["select"], sel * m.sqrt(2)))


@proof(["C15", "C06"], OPS + ":MeasureHomodyne._apply", name="MeasureHomodyne._apply/no-select")
def _homodyne_nosel(h):
    ops = h.module(OPS)
    hb, m, rt, s = setup(h)
    op = ops.MeasureHomodyne(h.real("phi"))
    be = RecBackend(h)
    snap = op_snapshot(op)
    out = h.call(op._apply, [1], be, shots=1)
    h.ensure("no-exception", out.returned)
    h.ensure("operation-untouched", op_unchanged(op, snap))
    if out.returned:
        h.ensure("no-select-passed", be.calls[0][2]["select"] is None)


@proof("C15", OPS + ":MSgate._apply")
def _msgate(h):
    ops = h.module(OPS)
    hb, m, rt, s = setup(h)
    op = ops.MSgate(h.real("r"), h.real("phi"), h.real("r_anc"), h.real("eta"), False)
    be = RecBackend(h)
    snap = op_snapshot(op)
    out = h.call(op._apply, [0], be)
    h.ensure("no-exception", out.returned)
    h.ensure("operation-untouched", op_unchanged(op, snap))
    if out.returned:
        # the ancilla outcome is a quadrature value: it must scale like every homodyne outcome, ~ sqrt(hbar)
        h.ensure("ancilla-outcome~sqrt(hbar)", eqv(out.value, be.outcome * s))
        h.ensure("backend-args-hbar-free", all(not _mentions(x, hb) for x in be.calls[0][1]))


def _mentions(x, hb):
    if isinstance(x, SV):
        return any(d.sexpr() == hb.t.sexpr() for d in _consts(x.t))
    return False


def _consts(t):
    seen, out, stack = set(), [], [t]
    while stack:
        e = stack.pop()
        if e.get_id() in seen:
            continue
        seen.add(e.get_id())
        if z3.is_const(e) and e.decl().kind() == z3.Z3_OP_UNINTERPRETED:
            out.append(e)
        stack.extend(e.children())
    return out


@proof("C15", OPS + ":Vgate._apply")
def _vgate(h):
    ops = h.module(OPS)
    hb, m, rt, s = setup(h)
    g = h.real("gamma_scaled")              # documented unit: V(gamma) = exp(i gamma x^3 / (3 hbar)); gamma = g / sqrt(hbar)
    op = ops.Vgate(g / rt)
    be = RecBackend(h)
    snap = op_snapshot(op)
    out = h.call(op._apply, [0], be)
    h.ensure("no-exception", out.returned)
    h.ensure("operation-untouched", op_unchanged(op, snap))
    if out.returned:
        (name, a, kw), = be.calls
        h.ensure("calls-cubic_phase", name == "cubic_phase")
        h.ensure("backend-gamma-is-hbar-free", eqv(a[0], g / m.sqrt(2)))


@proof("C15", OPS + ":Gaussian._apply")
def _gaussian_apply(h):
    ops = h.module(OPS)
    hb, m, rt, s = setup(h)
    # a one-mode Gaussian: user covariance V = (hbar/2) Vt, user means r = sqrt(hbar/2) rt  (Vt, rt hbar-free)
    Vt = np.empty((2, 2), dtype=object)
    for a_ in range(2):
        for b_ in range(2):
            Vt[a_, b_] = h.real(f"Vt{a_}{b_}")
    rt_ = np.array([h.real("rt0"), h.real("rt1")], dtype=object)
    op = ops.Gaussian.__new__(ops.Gaussian)
    # what Gaussian.__init__ stores: p = [V / (hbar/2), r]
    ops.Operation.__init__(op, [(Vt * (hb / 2)) / (hb / 2), rt_ * s])
    be = RecBackend(h)
    snap = op_snapshot(op)
    out = h.call(op._apply, [0], be)
    h.ensure("no-exception", out.returned)
    h.ensure("operation-untouched", op_unchanged(op, snap))
    if out.returned:
        (name, a, kw), = be.calls
        h.ensure("calls-prepare_gaussian_state", name == "prepare_gaussian_state")
        for k in range(2):
            h.ensure(f"means[{k}]-hbar-free", eqv(a[0][k], rt_[k]))
            for l in range(2):
                h.ensure(f"cov[{k},{l}]-hbar-free", eqv(a[1][k, l], Vt[k, l]))


@proof(["C15", "C16"], ST + ":BaseGaussianState.__init__")
def _gstate_init(h):
    st = h.module(ST)
    hb, m, rt, s = setup(h)
    mu2 = np.array([h.real("mu_x"), h.real("mu_p")], dtype=object)
    cov2 = np.empty((2, 2), dtype=object)
    for a_ in range(2):
        for b_ in range(2):
            cov2[a_, b_] = h.real(f"cov{a_}{b_}")
    obj = st.BaseGaussianState.__new__(st.BaseGaussianState)
    out = h.call(obj.__init__, (mu2, cov2), 1)
    h.ensure("no-exception", out.returned)
    if out.returned:
        for k in range(2):
            h.ensure(f"mu[{k}]~sqrt(hbar)", eqv(obj._mu[k], mu2[k] * s))
            for l in range(2):
                h.ensure(f"cov[{k},{l}]~hbar", eqv(obj._cov[k, l], cov2[k, l] * (hb / 2)))
        h.ensure("alpha-hbar-free", eqv(obj._alpha[0], SC((mu2[0] / 2).t, (mu2[1] / 2).t)))
        h.ensure("hbar-recorded", obj._hbar is hb)


native("C15", "c15_hbar", "native/c15_hbar.py",
       bound="5 circuits x hbar in {0.5,2,3.1} (quick) / 6 values (thorough) x 3 backends; fock cutoff 14", timeout=900)


# ---------------------------------------------------------------------------------------------
# A state object is closed over ITS OWN convention: the global sf.hbar (ghost symbol g) and the hbar recorded in the state
# (symbol hs) are DIFFERENT symbols here; whatever a query computes or hands to thewalrus may depend on hs only.
# One- and two-mode Gaussian states with symbolic data (shape-bounded).
# ---------------------------------------------------------------------------------------------
def _closed_state(h, n):
    st = h.module(ST)
    g = h.real("global_hbar")
    hs = h.real("state_hbar")
    h.require(And(g > 0, hs > 0))
    h.ghost(hbar=g)
    mu = np.array([h.real(f"mu{k}") for k in range(2 * n)], dtype=object)
    cov = np.empty((2 * n, 2 * n), dtype=object)
    for a_ in range(2 * n):
        for b_ in range(2 * n):
            cov[a_, b_] = h.real(f"V{a_}_{b_}")
    obj = h.new(st.BaseGaussianState, _modes=n, _hbar=hs, _pure=False, _basis="gaussian", _mu=mu, _cov=cov, _data=(mu, cov),
                _alpha=None, _mode_names=[f"q[{k}]" for k in range(n)], EQ_TOLERANCE=1e-10, _str="")
    return st, obj, g, hs, mu, cov


@proof(["C15", "C16"], ST + ":BaseGaussianState.fidelity_coherent", name="BaseGaussianState.fidelity_coherent/reference-state-in-the-state's-own-convention")
def _fid_coh_closed(h):
    n = (1, 2)[h.eng.choose(2, "modes")]
    st, obj, g, hs, mu, cov = _closed_state(h, n)
    from pyvc.npm import OArr
    al = np.array([SC(z3real(h.real(f"re{k}")), z3real(h.real(f"im{k}"))) for k in range(n)], dtype=object).view(OArr)
    seen = []
    m = h.eng.math

    def fidelity(self, other, mode, **kw):
        seen.append((other, mode))
        return 0.5
    with h.stubbed(st.BaseGaussianState, "fidelity", fidelity):
        out = h.call(obj.fidelity_coherent, al)
    h.ensure("no-exception", out.returned, bounded_shape=True)
    if not out.returned or len(seen) != 1:
        h.ensure("one-overlap-with-one-reference-state", False, bounded_shape=True)
        return
    (rmu, rcov), modes = seen[0]
    h.ensure("overlap-over-all-modes-in-order", list(modes) == list(range(n)), bounded_shape=True)
    s2 = m.sqrt(2 * hs)
    for k in range(n):
        h.ensure(f"reference-mean-x[{k}]-is-sqrt(2 hbar_state) Re alpha", eqv(rmu[k], SV(al[k].re) * s2), bounded_shape=True)
        h.ensure(f"reference-mean-p[{k}]-is-sqrt(2 hbar_state) Im alpha", eqv(rmu[k + n], SV(al[k].im) * s2), bounded_shape=True)
    for a_ in range(2 * n):
        for b_ in range(2 * n):
            h.ensure(f"reference-covariance[{a_},{b_}]-is-the-vacuum-of-the-state's-convention", eqv(rcov[a_, b_], hs / 2 if a_ == b_ else 0), bounded_shape=True)


@proof(["C15", "C16"], ST + ":BaseGaussianState.mean_photon", name="BaseGaussianState/queries-use-the-state's-own-hbar")
def _queries_closed(h):
    """mean_photon, displacement-like readouts, fidelity / number_expectation / fock_prob hand hbar = hbar_state to thewalrus"""
    n = (1, 2)[h.eng.choose(2, "modes")]
    st, obj, g, hs, mu, cov = _closed_state(h, n)
    out = h.call(obj.mean_photon, 0)
    h.ensure("mean_photon.no-exception", out.returned, bounded_shape=True)
    if out.returned:
        mean = out.value[0]
        want = (cov[0, 0] + cov[n, n] + mu[0] * mu[0] + mu[n] * mu[n]) / (2 * hs) - SV(z3.RealVal("1/2"))
        h.ensure("mean_photon.mean-in-the-state's-convention", eqv(mean, want), bounded_shape=True)
    calls = []

    class TW:
        def __getattr__(self, name):
            def f(*a, **kw):
                calls.append((name, kw.get("hbar", "absent")))
                return np.array(0.5) if name != "density_matrix" else np.zeros((2, 2))
            return f
    with h.stubbed(st, "twq", TW()):
        for meth, args in (("number_expectation", ([0],)), ("fidelity", ([mu[[0, n]], cov[np.ix_([0, n], [0, n])]], 0)), ("fock_prob", ([0] * n,)), ("all_fock_probs", ())):
            k0 = len(calls)
            kw = {"cutoff": 3} if meth in ("fock_prob", "all_fock_probs") else {}
            r = h.call(getattr(obj, meth), *args, **kw)
            if r.returned and len(calls) > k0:
                h.ensure(f"{meth}.hands-the-state's-hbar-to-thewalrus", all(hb is hs for (_, hb) in calls[k0:]), bounded_shape=True)
