"""C08 / C01 - the Fock backend wrapper addresses the simulator through the mode map
(backends/fockbackend/backend.py:FockBackend.<every method with a mode argument>).
After deletions the external (lifetime) index of a mode differs from its position in the simulator; ModeMap.remap /
_remap_modes (proved in c08_modemap.py for every history) translates and rejects deleted modes.  Contract, for EVERY
public method that takes `mode`, `mode1`, `mode2` or `modes` (found by introspection on each run, so a new method is
covered automatically): with a register whose lowest mode was deleted, the simulator method is called with exactly
the translated positions, every other argument is handed on untouched, and a deleted or unknown mode is refused with
nothing reaching the simulator.  The simulator is a recording stub.  (shape-bounded: one register history, all
argument values opaque.)"""
import inspect
from pyvc.api import *

FB = "strawberryfields.backends.fockbackend.backend"
BASE = "strawberryfields.backends.base"
MODE_PARAMS = ("mode", "mode1", "mode2", "modes")
SKIP = {"state", "del_mode", "add_mode", "begin_circuit", "reset", "get_modes", "is_vacuum", "get_cutoff_dim", "supports",
        "prepare_gkp"}          # prepare_gkp builds a ket first (numerics) and then calls prepare_ket_state, which is covered


class RecCircuit:
    def __init__(self):
        self.calls = []
        self._trunc = 3

    def __getattr__(self, name):
        if name.startswith("__"):
            raise AttributeError(name)

        def f(*a, **k):
            self.calls.append((name, a, k))
            return "RESULT"
        return f


def methods(fb):
    out = []
    for name, fn in inspect.getmembers(fb.FockBackend, predicate=inspect.isfunction):
        if name.startswith("_") or name in SKIP:
            continue
        params = list(inspect.signature(fn).parameters)[1:]
        if any(p in MODE_PARAMS for p in params):
            out.append((name, params))
    return sorted(out)


@proof(["C08", "C01"], FB + ":FockBackend._remap_modes", name="FockBackend/every-method-addresses-the-simulator-through-the-mode-map")
def _fock_wrapper(h):
    fb, base = h.module(FB), h.module(BASE)
    ms = methods(fb)
    h.ensure("methods-with-mode-arguments-found", len(ms) >= 18, bounded_shape=True)
    name, params = ms[h.eng.choose(len(ms), "method")]
    # register history: 4 modes created, mode 0 deleted -> external 1, 2, 3 sit at positions 0, 1, 2
    mm = base.ModeMap(4)
    mm.delete([0])
    expected_pos = {1: 0, 2: 1, 3: 2}
    for scenario in ("alive", "deleted"):
        circ = RecCircuit()
        be = h.new(fb.FockBackend, circuit=circ, _modemap=mm, _init_modes=4)
        args, opaque, want = [], [], []
        for p in params:
            if p in ("mode", "mode1"):
                v = 2 if scenario == "alive" else 0
                args.append(v)
            elif p == "mode2":
                args.append(3)
            elif p == "modes":
                args.append([3, 1] if scenario == "alive" else [3, 0])
            elif p in ("shots",):
                args.append(1)
            elif p in ("kwargs",):
                continue
            elif p == "select":
                args.append(None)
            else:
                tok = ("OPAQUE", p)
                args.append(tok)
                opaque.append(tok)
        out = h.call(getattr(be, name), *args)
        if out.raised("NotImplementedError") and not circ.calls:
            continue                     # an operation this simulator does not offer (inherited stub of the base class)
        if scenario == "alive":
            h.ensure(f"{name}.no-exception", out.returned, bounded_shape=True)
            if not out.returned:
                continue
            h.ensure(f"{name}.exactly-one-simulator-call", len(circ.calls) == 1, bounded_shape=True)
            if len(circ.calls) != 1:
                continue
            cname, cargs, ckw = circ.calls[0]
            got_modes = [a for a in cargs if isinstance(a, (int, list)) and not isinstance(a, bool) and a != 1 or a == [2, 0]]
            want = []
            for p, v in zip([p for p in params if p != "kwargs"], args):
                if p in ("mode", "mode1", "mode2"):
                    want.append(expected_pos[v])
                elif p == "modes":
                    want.append([expected_pos[x] for x in v])
            flat = lambda xs: [y for x in xs for y in (x if isinstance(x, list) else [x])]
            seen_modes = flat([a for a in cargs if (isinstance(a, int) and not isinstance(a, bool)) or isinstance(a, list)])
            # the translated positions appear in order; what is left over (constants such as the photon number 0 of a vacuum
            # preparation) must not be an untranslated external index
            rest, it = [], iter(flat(want))
            nxt = next(it, None)
            for v in seen_modes:
                if nxt is not None and v == nxt:
                    nxt = next(it, None)
                else:
                    rest.append(v)
            externals = flat([v for p, v in zip([p for p in params if p != "kwargs"], args) if p in MODE_PARAMS])
            h.ensure(f"{name}.simulator-gets-the-translated-positions", nxt is None and not any(v in externals for v in rest), bounded_shape=True)
            h.ensure(f"{name}.other-arguments-handed-on-untouched", all(any(a is t for a in cargs) or any(v is t for v in ckw.values()) for t in opaque), bounded_shape=True)
        else:
            h.ensure(f"{name}.deleted-mode-refused", out.exc is not None and not circ.calls, bounded_shape=True)
