"""C01 / C05 / C07 - backends/bosonicbackend/bosoniccircuit.py:BosonicModes, the deterministic Gaussian operations.

State: a weighted sum of Gaussians, component c = (weights[c], means[c, :], covs[c, :, :]) with the quadratures in
(x_0, p_0, x_1, p_1, ...) order, hbar = 2; means and weights may be COMPLEX (cat / GKP states).
Spec (independent of the code): every operation acts on EVERY component by the same affine map of phase space,
   means'[c] = E means[c] + d,   covs'[c] = E covs[c] E^T + Y,   weights' = weights,
with (E, d, Y) the documented action of the operation (strawberryfields/ops.py docstrings, the same one the Gaussian
simulator is proved against) embedded at the quadratures of the target modes and the identity elsewhere.  The code
reaches this through thewalrus' (x.., p..) embeddings and two index permutations; the contract is stated entry by
entry for ALL entries, so the C05 frame (entries of the other modes unchanged, their correlations with the target
transformed from one side only) is the same clause read outside the target, and is also emitted on its own.
Register sizes and component counts are enumerated ((2 modes, 2 components), (3 modes, 1 component)), every entry of
the state and every parameter is symbolic: shape-bounded.
"""
import numpy as _np
from pyvc.api import *

B = "strawberryfields.backends.bosonicbackend.bosoniccircuit"
PROPS = ["C01", "C05", "C07"]
SHAPES = [(2, 2), (3, 1)]


class St:
    pass


def mk(h, n, K):
    bc = h.module(B)
    s = St()
    s.n, s.K = n, K
    s.means = _np.empty((K, 2 * n), dtype=object)
    s.covs = _np.empty((K, 2 * n, 2 * n), dtype=object)
    s.weights = _np.empty((K,), dtype=object)
    for c in range(K):
        s.weights[c] = h.complex(f"w{c}")
        for a in range(2 * n):
            s.means[c, a] = h.complex(f"mu{c}_{a}")
            for b in range(2 * n):
                s.covs[c, a, b] = h.real(f"V{c}_{a}_{b}")
    s.obj = h.new(bc.BosonicModes, hbar=2, nlen=n, active=list(range(n)), to_xp=bc.to_xp(n), from_xp=bc.from_xp(n),
                  means=s.means.copy(), covs=s.covs.copy(), weights=s.weights.copy())
    return s


def embed(n, pos, E2):
    """identity of size 2n with the block E2 at the quadrature positions `pos`"""
    E = [[(1 if a == b else 0) for b in range(2 * n)] for a in range(2 * n)]
    for i, a in enumerate(pos):
        for j, b in enumerate(pos):
            E[a][b] = E2[i][j]
    return E


def check(h, s, out, E, d=None, Y=None, targets=()):
    n, K = s.n, s.K
    h.ensure("no-exception", out.returned, bounded_shape=True)
    if not out.returned:
        return
    o = s.obj
    h.ensure("shapes-kept", tuple(_np.shape(o.means)) == (K, 2 * n) and tuple(_np.shape(o.covs)) == (K, 2 * n, 2 * n) and tuple(_np.shape(o.weights)) == (K,), bounded_shape=True)
    tq = [q for m in targets for q in (2 * m, 2 * m + 1)]
    for c in range(K):
        h.ensure(f"component{c}.weight-unchanged", eqv(o.weights[c], s.weights[c]), bounded_shape=True)
        for a in range(2 * n):
            want = sum((E[a][b] * s.means[c, b] for b in range(2 * n) if not (isinstance(E[a][b], int) and E[a][b] == 0)), 0)
            if d is not None:
                want = want + d[a]
            tag = "frame." if a not in tq else ""
            h.ensure(f"component{c}.{tag}mean[{a}]", eqv(o.means[c, a], want), bounded_shape=True)
            for b in range(2 * n):
                want = 0
                for x in range(2 * n):
                    if isinstance(E[a][x], int) and E[a][x] == 0:
                        continue
                    for y in range(2 * n):
                        if isinstance(E[b][y], int) and E[b][y] == 0:
                            continue
                        want = want + E[a][x] * s.covs[c, x, y] * E[b][y]
                if Y is not None:
                    want = want + Y[a][b]
                tag = "frame." if (a not in tq and b not in tq) else ""
                h.ensure(f"component{c}.{tag}cov[{a},{b}]", eqv(o.covs[c, a, b], want), bounded_shape=True)


def _case(h, with_pair=False):
    n, K = SHAPES[h._reg("shape", h.eng.choose(len(SHAPES), "shape"))]
    if with_pair:
        pairs = [(k, l) for k in range(n) for l in range(n) if k != l]
        k, l = pairs[h._reg("pair", h.eng.choose(len(pairs), "pair"))]
        return n, K, k, l
    k = h._reg("mode", h.eng.choose(n, "mode"))
    return n, K, k, None


@proof(PROPS, B + ":BosonicModes.displace", native="from native.c01_bosonic_replay import replay; replay('displace', OBLIGATION, I)")
def _displace(h):
    n, K, k, _ = _case(h)
    s = mk(h, n, K)
    r, phi = h.real("r"), h.real("phi")
    m = h.eng.math
    out = h.call(s.obj.displace, r, phi, k)
    d = [0] * (2 * n)
    d[2 * k], d[2 * k + 1] = 2 * r * m.cos(phi), 2 * r * m.sin(phi)      # hbar = 2: (x, p) = 2 (Re, Im) alpha
    check(h, s, out, embed(n, [], []), d=d, targets=[k])


@proof(PROPS, B + ":BosonicModes.squeeze", native="from native.c01_bosonic_replay import replay; replay('squeeze', OBLIGATION, I)")
def _squeeze(h):
    n, K, k, _ = _case(h)
    s = mk(h, n, K)
    r, phi = h.real("r"), h.real("phi")
    m = h.eng.math
    ch, sh, cp, sp = m.cosh(r), m.sinh(r), m.cos(phi), m.sin(phi)
    out = h.call(s.obj.squeeze, r, phi, k)
    check(h, s, out, embed(n, [2 * k, 2 * k + 1], [[ch - cp * sh, -sp * sh], [-sp * sh, ch + cp * sh]]), targets=[k])


@proof(PROPS, B + ":BosonicModes.phase_shift", native="from native.c01_bosonic_replay import replay; replay('phase_shift', OBLIGATION, I)")
def _phase(h):
    n, K, k, _ = _case(h)
    s = mk(h, n, K)
    phi = h.real("phi")
    m = h.eng.math
    c_, s_ = m.cos(phi), m.sin(phi)
    out = h.call(s.obj.phase_shift, phi, k)
    check(h, s, out, embed(n, [2 * k, 2 * k + 1], [[c_, -s_], [s_, c_]]), targets=[k])


@proof(PROPS, B + ":BosonicModes.beamsplitter", native="from native.c01_bosonic_replay import replay; replay('beamsplitter', OBLIGATION, I)")
def _bs(h):
    n, K, k, l = _case(h, with_pair=True)
    s = mk(h, n, K)
    th, phi = h.real("theta"), h.real("phi")
    m = h.eng.math
    ct, st, cp, sp = m.cos(th), m.sin(th), m.cos(phi), m.sin(phi)
    out = h.call(s.obj.beamsplitter, th, phi, k, l)
    # a_k -> ct a_k - e^{-i phi} st a_l ;  a_l -> e^{i phi} st a_k + ct a_l   on (x_k, p_k, x_l, p_l)
    E4 = [[ct, 0, -st * cp, -st * sp],
          [0, ct, st * sp, -st * cp],
          [st * cp, -st * sp, ct, 0],
          [st * sp, st * cp, 0, ct]]
    check(h, s, out, embed(n, [2 * k, 2 * k + 1, 2 * l, 2 * l + 1], E4), targets=[k, l])


def _loss_like(h, thermal):
    n, K, k, _ = _case(h)
    s = mk(h, n, K)
    T = h.real("T")
    h.require(And(T >= 0, T <= 1))
    m = h.eng.math
    sq = m.sqrt(T)
    nbar = h.real("nbar") if thermal else 0
    if thermal:
        h.require(nbar >= 0)
        out = h.call(s.obj.thermal_loss, T, nbar, k)
    else:
        out = h.call(s.obj.loss, T, k)
    Y = [[0] * (2 * n) for _ in range(2 * n)]
    for q in (2 * k, 2 * k + 1):
        Y[q][q] = (1 - T) * (2 * nbar + 1)                      # hbar / 2 = 1
    check(h, s, out, embed(n, [2 * k, 2 * k + 1], [[sq, 0], [0, sq]]), Y=Y, targets=[k])


@proof(PROPS, B + ":BosonicModes.loss", native="from native.c01_bosonic_replay import replay; replay('loss', OBLIGATION, I)")
def _loss(h):
    _loss_like(h, False)


@proof(PROPS, B + ":BosonicModes.thermal_loss", native="from native.c01_bosonic_replay import replay; replay('thermal_loss', OBLIGATION, I)")
def _thermal_loss(h):
    _loss_like(h, True)


@proof(PROPS, B + ":BosonicModes.init_thermal", native="from native.c01_bosonic_replay import replay; replay('init_thermal', OBLIGATION, I)")
def _init_thermal(h):
    n, K, k, _ = _case(h)
    s = mk(h, n, K)
    nbar = h.real("nbar")
    h.require(nbar >= 0)
    out = h.call(s.obj.init_thermal, nbar, k)
    Y = [[0] * (2 * n) for _ in range(2 * n)]
    for q in (2 * k, 2 * k + 1):
        Y[q][q] = 2 * nbar + 1
    check(h, s, out, embed(n, [2 * k, 2 * k + 1], [[0, 0], [0, 0]]), Y=Y, targets=[k])


@proof(["C08", "C05"], B + ":BosonicModes.squeeze", name="BosonicModes/deleted-mode-refused-state-untouched")
def _deleted(h):
    n, K = 2, 1
    s = mk(h, n, K)
    s.obj.active = [None, 1]
    calls = {"displace": (h.real("r"), h.real("phi"), 0), "squeeze": (h.real("r2"), h.real("phi2"), 0), "phase_shift": (h.real("phi3"), 0),
             "beamsplitter": (h.real("th"), h.real("phi4"), 1, 0), "loss": (0.5, 0), "thermal_loss": (0.5, 0.2, 0)}
    for name, args in calls.items():
        out = h.call(getattr(s.obj, name), *args)
        h.ensure(f"{name}.refused-with-ValueError", out.raised("ValueError"), bounded_shape=True)
        same = all(s.obj.means[0, a] is s.means[0, a] or eqv(s.obj.means[0, a], s.means[0, a]) is True for a in range(2 * n))
        h.ensure(f"{name}.state-untouched", same and all(s.obj.covs[0, a, b] is s.covs[0, a, b] for a in range(2 * n) for b in range(2 * n)), bounded_shape=True)


# ---------------------------------------------------------------- register changes (C08): del_mode / add_mode
@proof(["C08", "C05"], B + ":BosonicModes.del_mode", native="from native.c01_bosonic_replay import replay; replay('del_mode', OBLIGATION, I)")
def _del_mode(h):
    """a deleted mode is marked inactive, left in the vacuum and uncorrelated with the rest; every other mode keeps its
    reduced state (means and covariance block) and all weights are kept"""
    n, K, k, _ = _case(h)
    s = mk(h, n, K)
    out = h.call(s.obj.del_mode, k)
    h.ensure("no-exception", out.returned, bounded_shape=True)
    if not out.returned:
        return
    o = s.obj
    h.ensure("marked-inactive-others-alive", list(o.active) == [None if m == k else m for m in range(n)], bounded_shape=True)
    h.ensure("register-size-kept", o.nlen == n and tuple(_np.shape(o.means)) == (K, 2 * n), bounded_shape=True)
    tq = (2 * k, 2 * k + 1)
    for c in range(K):
        h.ensure(f"component{c}.weight-unchanged", eqv(o.weights[c], s.weights[c]), bounded_shape=True)
        for a in range(2 * n):
            h.ensure(f"component{c}.mean[{a}]", eqv(o.means[c, a], 0 if a in tq else s.means[c, a]), bounded_shape=True)
            for b in range(2 * n):
                if a in tq or b in tq:
                    want = 1 if a == b else 0
                else:
                    want = s.covs[c, a, b]
                h.ensure(f"component{c}.cov[{a},{b}]", eqv(o.covs[c, a, b], want), bounded_shape=True)


@proof(["C08", "C05"], B + ":BosonicModes.add_mode", native="from native.c01_bosonic_replay import replay; replay('add_mode', OBLIGATION, I)")
def _add_mode(h):
    """one new single-peak mode: appended as the LAST mode in the vacuum, uncorrelated; everything else unchanged; the
    quadrature permutations are those of the new register size"""
    bc = h.module(B)
    n, K = SHAPES[h._reg("shape", h.eng.choose(len(SHAPES), "shape"))]
    s = mk(h, n, K)
    out = h.call(s.obj.add_mode)
    h.ensure("no-exception", out.returned, bounded_shape=True)
    if not out.returned:
        return
    o = s.obj
    h.ensure("register-grows-by-one-alive-mode", o.nlen == n + 1 and list(o.active) == list(range(n + 1)), bounded_shape=True)
    h.ensure("quadrature-permutations-of-the-new-size", list(o.from_xp) == list(bc.from_xp(n + 1)) and list(o.to_xp) == list(bc.to_xp(n + 1)), bounded_shape=True)
    ok = tuple(_np.shape(o.means)) == (K, 2 * n + 2) and tuple(_np.shape(o.covs)) == (K, 2 * n + 2, 2 * n + 2) and tuple(_np.shape(o.weights)) == (K,)
    h.ensure("shapes", ok, bounded_shape=True)
    if not ok:
        return
    for c in range(K):
        h.ensure(f"component{c}.weight-unchanged", eqv(o.weights[c], s.weights[c]), bounded_shape=True)
        for a in range(2 * n + 2):
            h.ensure(f"component{c}.mean[{a}]", eqv(o.means[c, a], s.means[c, a] if a < 2 * n else 0), bounded_shape=True)
            for b in range(2 * n + 2):
                want = s.covs[c, a, b] if (a < 2 * n and b < 2 * n) else (1 if a == b else 0)
                h.ensure(f"component{c}.cov[{a},{b}]", eqv(o.covs[c, a, b], want), bounded_shape=True)
