"""C01 / C05 / C07 - backends/bosonicbackend/bosoniccircuit.py:BosonicModes, the deterministic Gaussian operations.

State: a weighted sum of Gaussians, component c = (weights[c], means[c, :], covs[c, :, :]) with the quadratures in
(x_0, p_0, x_1, p_1, ...) order, hbar = 2; means and weights may be COMPLEX (cat / GKP states).
Spec (independent of the code): every operation acts on EVERY component by the same affine map of phase space,
   means'[c] = E means[c] + d,   covs'[c] = E covs[c] E^T + Y,   weights' = weights,
with (E, d, Y) the documented action of the operation (strawberryfields/ops.py docstrings, the same one the Gaussian
simulator is proved against) embedded at the quadratures of the target modes and the identity elsewhere.  The code
reaches this through thewalrus' (x.., p..) embeddings and two index permutations; the contract is stated entry by
entry for ALL entries, so the C05 frame (entries of the other modes unchanged, their correlations with the target
transformed from one side only) is the same clause read outside the target, and is also emitted on its own.
Register sizes and component counts are enumerated ((2 modes, 2 components), (3 modes, 1 component)), every entry of
the state and every parameter is symbolic: shape-bounded.
"""
import numpy as _np
from pyvc.api import *

B = "strawberryfields.backends.bosonicbackend.bosoniccircuit"
PROPS = ["C01", "C05", "C07"]
SHAPES = [(2, 2), (3, 1)]


class St:
    pass


def mk(h, n, K):
    bc = h.module(B)
    s = St()
    s.n, s.K = n, K
    s.means = _np.empty((K, 2 * n), dtype=object)
    s.covs = _np.empty((K, 2 * n, 2 * n), dtype=object)
    s.weights = _np.empty((K,), dtype=object)
    for c in range(K):
        s.weights[c] = h.complex(f"w{c}")
        for a in range(2 * n):
            s.means[c, a] = h.complex(f"mu{c}_{a}")
            for b in range(2 * n):
                s.covs[c, a, b] = h.real(f"V{c}_{a}_{b}")
    s.obj = h.new(bc.BosonicModes, hbar=2, nlen=n, active=list(range(n)), to_xp=bc.to_xp(n), from_xp=bc.from_xp(n),
                  means=s.means.copy(), covs=s.covs.copy(), weights=s.weights.copy())
    return s


def embed(n, pos, E2):
    """identity of size 2n with the block E2 at the quadrature positions `pos`"""
    E = [[(1 if a == b else 0) for b in range(2 * n)] for a in range(2 * n)]
    for i, a in enumerate(pos):
        for j, b in enumerate(pos):
            E[a][b] = E2[i][j]
    return E


def check(h, s, out, E, d=None, Y=None, targets=()):
    n, K = s.n, s.K
    h.ensure("no-exception", out.returned, bounded_shape=True)
    if not out.returned:
        return
    o = s.obj
    h.ensure("shapes-kept", tuple(_np.shape(o.means)) == (K, 2 * n) and tuple(_np.shape(o.covs)) == (K, 2 * n, 2 * n) and tuple(_np.shape(o.weights)) == (K,), bounded_shape=True)
    tq = [q for m in targets for q in (2 * m, 2 * m + 1)]
    for c in range(K):
        h.ensure(f"component{c}.weight-unchanged", eqv(o.weights[c], s.weights[c]), bounded_shape=True)
        for a in range(2 * n):
            want = sum((E[a][b] * s.means[c, b] for b in range(2 * n) if not (isinstance(E[a][b], int) and E[a][b] == 0)), 0)
            if d is not None:
                want = want + d[a]
            tag = "frame." if a not in tq else ""
            h.ensure(f"component{c}.{tag}mean[{a}]", eqv(o.means[c, a], want), bounded_shape=True)
            for b in range(2 * n):
                want = 0
                for x in range(2 * n):
                    if isinstance(E[a][x], int) and E[a][x] == 0:
                        continue
                    for y in range(2 * n):
                        if isinstance(E[b][y], int) and E[b][y] == 0:
                            continue
                        want = want + E[a][x] * s.covs[c, x, y] * E[b][y]
                if Y is not None:
                    want = want + Y[a][b]
                tag = "frame." if (a not in tq and b not in tq) else ""
                h.ensure(f"component{c}.{tag}cov[{a},{b}]", eqv(o.covs[c, a, b], want), bounded_shape=True)


def _case(h, with_pair=False):
    n, K = SHAPES[h._reg("shape", h.eng.choose(len(SHAPES), "shape"))]
    if with_pair:
        pairs = [(k, l) for k in range(n) for l in range(n) if k != l]
        k, l = pairs[h._reg("pair", h.eng.choose(len(pairs), "pair"))]
        return n, K, k, l
    k = h._reg("mode", h.eng.choose(n, "mode"))
    return n, K, k, None


@proof(PROPS, B + ":BosonicModes.displace", native="from native.c01_bosonic_replay import replay; replay('displace', OBLIGATION, I)")
def _displace(h):
    n, K, k, _ = _case(h)
    s = mk(h, n, K)
    r, phi = h.real("r"), h.real("phi")
    m = h.eng.math
    out = h.call(s.obj.displace, r, phi, k)
    d = [0] * (2 * n)
    d[2 * k], d[2 * k + 1] = 2 * r * m.cos(phi), 2 * r * m.sin(phi)      # hbar = 2: (x, p) = 2 (Re, Im) alpha
    check(h, s, out, embed(n, [], []), d=d, targets=[k])


@proof(PROPS, B + ":BosonicModes.squeeze", native="from native.c01_bosonic_replay import replay; replay('squeeze', OBLIGATION, I)")
def _squeeze(h):
    n, K, k, _ = _case(h)
    s = mk(h, n, K)
    r, phi = h.real("r"), h.real("phi")
    m = h.eng.math
    ch, sh, cp, sp = m.cosh(r), m.sinh(r), m.cos(phi), m.sin(phi)
    out = h.call(s.obj.squeeze, r, phi, k)
    check(h, s, out, embed(n, [2 * k, 2 * k + 1], [[ch - cp * sh, -sp * sh], [-sp * sh, ch + cp * sh]]), targets=[k])


@proof(PROPS, B + ":BosonicModes.phase_shift", native="from native.c01_bosonic_replay import replay; replay('phase_shift', OBLIGATION, I)")
def _phase(h):
    n, K, k, _ = _case(h)
    s = mk(h, n, K)
    phi = h.real("phi")
    m = h.eng.math
    c_, s_ = m.cos(phi), m.sin(phi)
    out = h.call(s.obj.phase_shift, phi, k)
    check(h, s, out, embed(n, [2 * k, 2 * k + 1], [[c_, -s_], [s_, c_]]), targets=[k])


@proof(PROPS, B + ":BosonicModes.beamsplitter", native="from native.c01_bosonic_replay import replay; replay('beamsplitter', OBLIGATION, I)")
def _bs(h):
    n, K, k, l = _case(h, with_pair=True)
    s = mk(h, n, K)
    th, phi = h.real("theta"), h.real("phi")
    m = h.eng.math
    ct, st, cp, sp = m.cos(th), m.sin(th), m.cos(phi), m.sin(phi)
    out = h.call(s.obj.beamsplitter, th, phi, k, l)
    # a_k -> ct a_k - e^{-i phi} st a_l ;  a_l -> e^{i phi} st a_k + ct a_l   on (x_k, p_k, x_l, p_l)
    E4 = [[ct, 0, -st * cp, -st * sp],
          [0, ct, st * sp, -st * cp],
          [st * cp, -st * sp, ct, 0],
          [st * sp, st * cp, 0, ct]]
    check(h, s, out, embed(n, [2 * k, 2 * k + 1, 2 * l, 2 * l + 1], E4), targets=[k, l])


def _loss_like(h, thermal):
    n, K, k, _ = _case(h)
    s = mk(h, n, K)
    T = h.real("T")
    h.require(And(T >= 0, T <= 1))
    m = h.eng.math
    sq = m.sqrt(T)
    nbar = h.real("nbar") if thermal else 0
    if thermal:
        h.require(nbar >= 0)
        out = h.call(s.obj.thermal_loss, T, nbar, k)
    else:
        out = h.call(s.obj.loss, T, k)
    Y = [[0] * (2 * n) for _ in range(2 * n)]
    for q in (2 * k, 2 * k + 1):
        Y[q][q] = (1 - T) * (2 * nbar + 1)                      # hbar / 2 = 1
    check(h, s, out, embed(n, [2 * k, 2 * k + 1], [[sq, 0], [0, sq]]), Y=Y, targets=[k])


@proof(PROPS, B + ":BosonicModes.loss", native="from native.c01_bosonic_replay import replay; replay('loss', OBLIGATION, I)")
def _loss(h):
    _loss_like(h, False)


@proof(PROPS, B + ":BosonicModes.thermal_loss", native="from native.c01_bosonic_replay import replay; replay('thermal_loss', OBLIGATION, I)")
def _thermal_loss(h):
    _loss_like(h, True)


@proof(PROPS, B + ":BosonicModes.init_thermal", native="from native.c01_bosonic_replay import replay; replay('init_thermal', OBLIGATION, I)")
def _init_thermal(h):
    n, K, k, _ = _case(h)
    s = mk(h, n, K)
    nbar = h.real("nbar")
    h.require(nbar >= 0)
    out = h.call(s.obj.init_thermal, nbar, k)
    Y = [[0] * (2 * n) for _ in range(2 * n)]
    for q in (2 * k, 2 * k + 1):
        Y[q][q] = 2 * nbar + 1
    check(h, s, out, embed(n, [2 * k, 2 * k + 1], [[0, 0], [0, 0]]), Y=Y, targets=[k])


@proof(["C08", "C05"], B + ":BosonicModes.squeeze", name="BosonicModes/deleted-mode-refused-state-untouched")
def _deleted(h):
    n, K = 2, 1
    s = mk(h, n, K)
    s.obj.active = [None, 1]
    calls = {"displace": (h.real("r"), h.real("phi"), 0), "squeeze": (h.real("r2"), h.real("phi2"), 0), "phase_shift": (h.real("phi3"), 0),
             "beamsplitter": (h.real("th"), h.real("phi4"), 1, 0), "loss": (0.5, 0), "thermal_loss": (0.5, 0.2, 0)}
    for name, args in calls.items():
        out = h.call(getattr(s.obj, name), *args)
        h.ensure(f"{name}.refused-with-ValueError", out.raised("ValueError"), bounded_shape=True)
        same = all(s.obj.means[0, a] is s.means[0, a] or eqv(s.obj.means[0, a], s.means[0, a]) is True for a in range(2 * n))
        h.ensure(f"{name}.state-untouched", same and all(s.obj.covs[0, a, b] is s.covs[0, a, b] for a in range(2 * n) for b in range(2 * n)), bounded_shape=True)


# ---------------------------------------------------------------- register changes (C08): del_mode / add_mode
@proof(["C08", "C05"], B + ":BosonicModes.del_mode", native="from native.c01_bosonic_replay import replay; replay('del_mode', OBLIGATION, I)")
def _del_mode(h):
    """a deleted mode is marked inactive, left in the vacuum and uncorrelated with the rest; every other mode keeps its
    reduced state (means and covariance block) and all weights are kept"""
    n, K, k, _ = _case(h)
    s = mk(h, n, K)
    out = h.call(s.obj.del_mode, k)
    h.ensure("no-exception", out.returned, bounded_shape=True)
    if not out.returned:
        return
    o = s.obj
    h.ensure("marked-inactive-others-alive", list(o.active) == [None if m == k else m for m in range(n)], bounded_shape=True)
    h.ensure("register-size-kept", o.nlen == n and tuple(_np.shape(o.means)) == (K, 2 * n), bounded_shape=True)
    tq = (2 * k, 2 * k + 1)
    for c in range(K):
        h.ensure(f"component{c}.weight-unchanged", eqv(o.weights[c], s.weights[c]), bounded_shape=True)
        for a in range(2 * n):
            h.ensure(f"component{c}.mean[{a}]", eqv(o.means[c, a], 0 if a in tq else s.means[c, a]), bounded_shape=True)
            for b in range(2 * n):
                if a in tq or b in tq:
                    want = 1 if a == b else 0
                else:
                    want = s.covs[c, a, b]
                h.ensure(f"component{c}.cov[{a},{b}]", eqv(o.covs[c, a, b], want), bounded_shape=True)


@proof(["C08", "C05"], B + ":BosonicModes.add_mode", native="from native.c01_bosonic_replay import replay; replay('add_mode', OBLIGATION, I)")
def _add_mode(h):
    """one new single-peak mode: appended as the LAST mode in the vacuum, uncorrelated; everything else unchanged; the
    quadrature permutations are those of the new register size"""
    bc = h.module(B)
    n, K = SHAPES[h._reg("shape", h.eng.choose(len(SHAPES), "shape"))]
    s = mk(h, n, K)
    out = h.call(s.obj.add_mode)
    h.ensure("no-exception", out.returned, bounded_shape=True)
    if not out.returned:
        return
    o = s.obj
    h.ensure("register-grows-by-one-alive-mode", o.nlen == n + 1 and list(o.active) == list(range(n + 1)), bounded_shape=True)
    h.ensure("quadrature-permutations-of-the-new-size", list(o.from_xp) == list(bc.from_xp(n + 1)) and list(o.to_xp) == list(bc.to_xp(n + 1)), bounded_shape=True)
    ok = tuple(_np.shape(o.means)) == (K, 2 * n + 2) and tuple(_np.shape(o.covs)) == (K, 2 * n + 2, 2 * n + 2) and tuple(_np.shape(o.weights)) == (K,)
    h.ensure("shapes", ok, bounded_shape=True)
    if not ok:
        return
    for c in range(K):
        h.ensure(f"component{c}.weight-unchanged", eqv(o.weights[c], s.weights[c]), bounded_shape=True)
        for a in range(2 * n + 2):
            h.ensure(f"component{c}.mean[{a}]", eqv(o.means[c, a], s.means[c, a] if a < 2 * n else 0), bounded_shape=True)
            for b in range(2 * n + 2):
                want = s.covs[c, a, b] if (a < 2 * n and b < 2 * n) else (1 if a == b else 0)
                h.ensure(f"component{c}.cov[{a},{b}]", eqv(o.covs[c, a, b], want), bounded_shape=True)


# ---------------------------------------------------------------- measurement-based squeezing, average map (C07: a physical channel)
@proof(["C07", "C01"], B + ":BosonicModes.mb_squeeze_avg", native="from native.c01_bosonic_replay import replay_mbsq; replay_mbsq(OBLIGATION, I)")
def _mb_squeeze_avg(h):
    """modular: phase_shift and apply_channel are replaced by recorders (both are under contract above).  The average map is
    R(phi/2) o Channel(X, Y) o R(-phi/2) on the target mode with X = diag(e^-|r|, e^|r|) and additive noise
    Y = (hbar/2) diag((1 - e^-2|r|) e^(-2 r_anc), (e^2|r| - 1)(1 - eta)/eta); the channel must be completely positive for
    every 0 < eta <= 1: for det X = 1 that is Y >= 0 (both noise terms non-negative) - otherwise the simulator leaves the
    set of physical states."""
    n, K, k, _ = _case(h)
    s = mk(h, n, K)
    bc = h.module(B)
    r, phi, r_anc, eta = h.real("r"), h.real("phi"), h.real("r_anc"), h.real("eta_anc")
    h.require(And(eta > 0, eta <= 1))
    calls = []

    def phase_shift(self, ang, mode):
        calls.append(("phase", ang, mode))

    def apply_channel(self, X, Y):
        calls.append(("channel", X, Y))
    with h.stubbed(bc.BosonicModes, "phase_shift", phase_shift), h.stubbed(bc.BosonicModes, "apply_channel", apply_channel):
        out = h.call(s.obj.mb_squeeze_avg, k, r, phi, r_anc, eta)
    h.ensure("no-exception", out.returned, bounded_shape=True)
    if not out.returned:
        return
    kinds = [c[0] for c in calls]
    h.ensure("rotate-channel-rotate-back", kinds == ["phase", "channel", "phase"], bounded_shape=True)
    if kinds != ["phase", "channel", "phase"]:
        return
    h.ensure("rotations-on-the-target-mode-and-inverse-of-each-other", calls[0][2] == k and calls[2][2] == k and eqv(calls[0][1] + calls[2][1], 0) is not False, bounded_shape=True)
    h.ensure("rotations-cancel", eqv(calls[0][1] + calls[2][1], 0), bounded_shape=True)
    X, Y = calls[1][1], calls[1][2]
    m = h.eng.math
    ok = tuple(_np.shape(X)) == (2 * n, 2 * n) and tuple(_np.shape(Y)) == (2 * n, 2 * n)
    h.ensure("channel-matrices-have-the-register-size", ok, bounded_shape=True)
    if not ok:
        return
    tq = (k, k + n)                                   # (x_k, p_k) in the (x.., p..) order of expandXY
    for a in range(2 * n):
        for b in range(2 * n):
            if a in tq and b in tq and a == b:
                continue
            h.ensure(f"frame.X[{a},{b}]", eqv(X[a, b], 1 if a == b else 0), bounded_shape=True)
            h.ensure(f"frame.Y[{a},{b}]", eqv(Y[a, b], 0), bounded_shape=True)
    xx, xp, yx, yp = X[k, k], X[k + n, k + n], Y[k, k], Y[k + n, k + n]
    h.ensure("X-has-unit-determinant", eqv(xx * xp, 1), bounded_shape=True)
    h.ensure("x-quadrature-attenuated-p-amplified", And(xx > 0, xx <= 1), bounded_shape=True)
    h.ensure("completely-positive.x-noise-non-negative", yx >= 0, bounded_shape=True)
    h.ensure("completely-positive.p-noise-non-negative", yp >= 0, bounded_shape=True)
    h.ensure("ideal-detector-adds-no-p-noise", Implies(eta == 1, eqv(yp, 0)), bounded_shape=True)
    h.ensure("p-noise-is-(1/x^2-1)(1-eta)/eta-in-vacuum-units", eqv(yp * eta * xx * xx, (1 - xx * xx) * (1 - eta)), bounded_shape=True)
    h.ensure("x-noise-is-(1-x^2)-times-the-ancilla-variance", eqv(yx, (1 - xx * xx) * m.exp(-2 * r_anc)), bounded_shape=True)


# ---------------------------------------------------------------- general-dyne post-selection (C06 / C05): conditioning of every component
class _NPX:
    """the module's numpy with exp / sqrt replaced by recorders returning fresh symbols (their arguments are the clauses)"""
    def __init__(self, real_np, h, K):
        self._np, self._h, self.K = real_np, h, K
        self.exp_args, self.sqrt_args, self.sums = [], [], []
        self.E = _np.array([h.complex(f"E{c}") for c in range(K)], dtype=object)
        self.D = _np.array([h.real(f"D{c}") for c in range(K)], dtype=object)

    def __getattr__(self, name):
        return getattr(self._np, name)

    def exp(self, x):
        self.exp_args.append(x)
        return self.E.copy()

    def sum(self, x, *a, **k):
        # the normalisation: named by a fresh symbol (equal to the real sum, non-zero) so that the division is by an atom
        tot = 0
        for e in x:
            tot = tot + SC.lift(e)
        S = self._h.complex("weight_sum")
        self._h.require(And(eqv(SC.lift(S), tot), SV(S.re * S.re + S.im * S.im > 0)))
        self.sums.append((S, [SC.lift(e) for e in x]))
        return S

    def sqrt(self, x):
        self.sqrt_args.append(x)
        for c in range(self.K):
            self._h.require(And(self.D[c] > 0, eqv(self.D[c] * self.D[c], x[c])))
        return self.D.copy()


@proof(["C06", "C05"], B + ":BosonicModes.post_select_generaldyne", native="from native.c01_bosonic_replay import replay_dyne; replay_dyne(OBLIGATION, I)")
def _post_select_generaldyne(h):
    """2 modes, 2 components, either mode measured with a general-dyne covariance sigma (symbolic, symmetric) and outcome v.
    For EVERY component c (means mu_c possibly complex): with the measured block (m_c, C_c), the rest (a_c, A_c) and the
    cross block B_c,
        rest mean  a_c + B_c (C_c + sigma)^-1 (v - m_c),   rest covariance  A_c - B_c (C_c + sigma)^-1 B_c^T,
        measured mode reset to the vacuum, uncorrelated,
        weight  proportional to  w_c exp(-1/2 (v - m_c)^T (C_c + sigma)^-1 (v - m_c)) / sqrt(det 2 pi (C_c + sigma))
    - the quadratic form is BILINEAR (the analytic continuation of the Gaussian density to complex means; no complex
    conjugate); the reweighted weights are then divided by their sum (that last division is not checked)."""
    bc = h.module(B)
    n, K = 2, 2
    meas = h._reg("measured", h.eng.choose(2, "measured"))
    s = mk(h, n, K)
    sig = _np.empty((2, 2), dtype=object)
    sig[0, 0], sig[1, 1] = h.real("sig_xx"), h.real("sig_pp")
    sig[0, 1] = sig[1, 0] = h.real("sig_xp")
    v = _np.array([h.real("v_x"), h.real("v_p")], dtype=object)
    npx = _NPX(bc.np, h, K)
    la = bc.np.linalg
    mq, rq = [2 * meas, 2 * meas + 1], [2 * (1 - meas), 2 * (1 - meas) + 1]
    # the matrices C_c + sigma must be invertible
    Cs = [_np.array([[s.covs[c, a, b] + sig[i, j] for j, b in enumerate(mq)] for i, a in enumerate(mq)], dtype=object) for c in range(K)]
    for c in range(K):
        h.require(Not(eqv(la.det(Cs[c]), 0)))
    # unnormalised new weights t_c = w_c E_c / D_c (their sum must not vanish: the code divides by it, see _NPX.sum)
    t = [SC.lift(s.weights[c]) * SC.lift(npx.E[c]) / SC.lift(npx.D[c]) for c in range(K)]
    # the final filter `abs(weights) > 0` (components of exactly zero weight are dropped) is taken as "all kept": the modulus
    # of a symbolic complex number would fork every path and drag square roots into every later obligation
    with h.stubbed(bc, "np", npx), h.stubbed(bc, "abs", lambda x: _np.ones(_np.shape(x))):
        out = h.call(s.obj.post_select_generaldyne, sig, [meas], v)
    h.ensure("no-exception", out.returned, bounded_shape=True)
    if not out.returned:
        return
    o = s.obj
    if tuple(_np.shape(o.weights)) != (K,):
        h.cover("a-component-of-zero-weight-was-dropped")
        return
    h.ensure("one-exponential-and-one-normalisation-per-component", len(npx.exp_args) == 1 and len(npx.sqrt_args) == 1, bounded_shape=True)
    if len(npx.exp_args) != 1 or len(npx.sqrt_args) != 1:
        return
    two_pi = 2 * _np.pi
    for c in range(K):
        Ci = la.inv(Cs[c])
        dv = [v[i] - s.means[c, mq[i]] for i in range(2)]
        quad = sum(dv[i] * Ci[i, j] * dv[j] for i in range(2) for j in range(2))
        h.ensure(f"component{c}.exponent-is-minus-half-the-BILINEAR-form", eqv(SC.lift(npx.exp_args[0][c]), SC.lift(quad) * SV(z3.RealVal("-1/2"))), bounded_shape=True)
        h.ensure(f"component{c}.normalisation-is-det(2 pi (C + sigma))", eqv(npx.sqrt_args[0][c], la.det(Cs[c]) * two_pi * two_pi), bounded_shape=True)
        Bc = _np.array([[s.covs[c, a, b] for b in mq] for a in rq], dtype=object)
        G = [[sum(Bc[i, x] * Ci[x, j] for x in range(2)) for j in range(2)] for i in range(2)]
        for i, a in enumerate(rq):
            h.ensure(f"component{c}.rest-mean[{a}]", eqv(SC.lift(o.means[c, a]), SC.lift(s.means[c, a] + sum(G[i][j] * dv[j] for j in range(2)))), bounded_shape=True)
            for j, b in enumerate(rq):
                h.ensure(f"component{c}.rest-cov[{a},{b}]", eqv(o.covs[c, a, b], s.covs[c, a, b] - sum(G[i][x] * Bc[j, x] for x in range(2))), bounded_shape=True)
        for a in mq:
            h.ensure(f"component{c}.measured-mode-mean-reset[{a}]", eqv(SC.lift(o.means[c, a]), SC.lift(0)), bounded_shape=True)
            for b in range(2 * n):
                h.ensure(f"component{c}.measured-mode-reset-to-uncorrelated-vacuum[{a},{b}]", And(eqv(o.covs[c, a, b], 1 if a == b else 0), eqv(o.covs[c, b, a], 1 if a == b else 0)), bounded_shape=True)
    h.ensure("weights-normalised-by-their-sum", len(npx.sums) == 1, bounded_shape=True)
    if len(npx.sums) == 1:
        # the final division `weights /= sum` by a complex number is the one step left unchecked (complex division defeats
        # both solvers here); what it divides and what it divides by are checked
        for c in range(K):
            h.ensure(f"component{c}.reweighted-weight-is-w-exp-over-normalisation", len(npx.sums[0][1]) == K and eqv(npx.sums[0][1][c], t[c]), bounded_shape=True)


# ---------------------------------------------------------------- native multi-mode Gaussian preparation (C01 / C05)
BBK = "strawberryfields.backends.bosonicbackend.backend"


@proof(["C01", "C05"], BBK + ":BosonicBackend.prepare_gaussian_state", native="from native.c01_bosonic_replay import replay_prepare; replay_prepare(OBLIGATION, I)")
def _prepare_gaussian_state(h):
    """subsystem i of the given (r, V) lands in the i-th LISTED mode, for every ordered list of 1-3 distinct modes of a 4-mode
    register (labelled symbols, checked by identity): means, covariance block, zero correlations with the other modes, which
    keep their own data"""
    import itertools
    bb = h.module(BBK)
    n = 4
    lists = [list(c) for k in (1, 2, 3) for c in itertools.permutations(range(n), k)]
    modes = lists[h._reg("modes", h.eng.choose(len(lists), "modes"))]
    N = len(modes)
    s = mk(h, n, 1)
    r = _np.array([h.real(f"r{a}") for a in range(2 * N)], dtype=object)
    V = _np.empty((2 * N, 2 * N), dtype=object)
    for a in range(2 * N):
        for b in range(2 * N):
            V[a, b] = h.real(f"G{a}_{b}")
    be = h.new(bb.BosonicBackend, circuit=s.obj)
    out = h.call(be.prepare_gaussian_state, r, V, list(modes))
    h.ensure("no-exception", out.returned, bounded_shape=True)
    if not out.returned:
        return
    o = s.obj
    pos = {}                                        # quadrature of the register -> index into (x.., p..) of the input
    for i, m in enumerate(modes):
        pos[2 * m], pos[2 * m + 1] = i, i + N
    for a in range(2 * n):
        if a in pos:
            h.ensure(f"mean[{a}]-is-the-{'x' if pos[a] < N else 'p'}-mean-of-subsystem-{pos[a] % N}", o.means[0, a] is r[pos[a]], bounded_shape=True)
        else:
            h.ensure(f"frame.mean[{a}]", o.means[0, a] is s.means[0, a], bounded_shape=True)
        for b in range(2 * n):
            if a in pos and b in pos:
                h.ensure(f"cov[{a},{b}]-is-the-entry-of-the-listed-subsystems", o.covs[0, a, b] is V[pos[a], pos[b]], bounded_shape=True)
            elif a in pos or b in pos:
                h.ensure(f"cov[{a},{b}]-uncorrelated-with-the-other-modes", eqv(o.covs[0, a, b], 0), bounded_shape=True)
            else:
                h.ensure(f"frame.cov[{a},{b}]", o.covs[0, a, b] is s.covs[0, a, b], bounded_shape=True)
