"""C08 - whole-history agreement of Program.register, backend.get_modes() and the returned state.
BOUNDED stand-in (native/c08_history.py): the Program/engine/backends object graph is outside the
engine's unbounded reach (dict-of-RegRef heap, three simulators); the per-operation representation
invariants that make 'every history' an induction are proved in c08_modemap.py / c01_gaussian.py."""
from pyvc.api import *

native("C08", "c08_history", "native/c08_history.py",
       bound="all New(1)/New(2)/Del/gate histories of length <= 3 (quick) / 4 (thorough) from 1- and 2-mode registers, as one program and split into two consecutive segments, on gaussian, fock (<= 4 modes, cutoff 4) and bosonic backends",
       timeout=900)
