"""C14 - saving and loading a program preserves its meaning (io/blackbird_io.py, io/xir_io.py, io/utils.py).

What is PROVED here is the IR-OBJECT level: the real to_blackbird / from_blackbird / to_xir / from_xir are executed on
programs whose numeric parameters, post-selection values and dark counts are symbolic (every value at once), with the
third-party containers blackbird.BlackbirdProgram / xir.Program replaced by plain record classes (contract stubs: they
store what they are given and give it back).  Clauses: the IR carries class name, modes in order, every parameter,
select and dark_counts (also falsy ones); converting does not modify the program; converting back yields the same
commands.  Circuits have a fixed shape per obligation (one command per operation class on permuted modes, and one
mixed 4-command circuit): shape-bounded, all values symbolic.
io.utils._factor_out_pi (code generation) is proved for every real input: the generated text denotes the number.
The TEXT level (blackbird / xir serialisers and parsers, generate_code output executed) is a bounded stand-in
(native/c14_io.py).
"""
import numpy as np
import z3
from pyvc.api import *

BB = "strawberryfields.io.blackbird_io"
XI = "strawberryfields.io.xir_io"
UT = "strawberryfields.io.utils"
PAR = "strawberryfields.parameters"
PRG = "strawberryfields.program"
OPS = "strawberryfields.ops"

level("C14", "other",
      "Proved (IR-object level, shape-bounded over operation classes, all parameter values symbolic): to_blackbird / to_xir "
      "emit class name, modes in order, every parameter, select and dark_counts (falsy values included) and do not modify the "
      "program; from_blackbird / from_xir applied to that IR rebuild the same commands; target and run/backend options "
      "survive. Proved for every real input: io.utils._factor_out_pi returns text that denotes its argument (code generation). "
      "Bounded stand-in: text round trip through the real blackbird / xir serialisers and parsers for every class of "
      "ops.__all__, daggered gates, free / measured parameter expressions, options, TDM programs. Repaired: F19 (saving "
      "mutated the program), F43b-c (XIR target key, XIR string parameters), F49 (_factor_out_pi "
      "truncation). Open findings: F43a (TDM programs cannot be saved as Blackbird text), F20 (dagger never serialised), F35 (symbolic parameters do not survive the text), F43 "
      "(Fouriergate), F44 (BipartiteGraphEmbed), F45 (Del/New), F46 (1-D arrays in Blackbird), F47 (booleans in XIR), F48 "
      "(multi-band TDM).",
      trusted=["blackbird.BlackbirdProgram and xir.Program / Statement are record stubs in the proofs (attributes stored and "
               "returned unchanged); their serialisers and parsers are exercised only by the bounded stand-in",
               "sympy is executed for real on measured-parameter expressions (names, not values, are compared)",
               "_factor_out_pi: Python floats are treated as mathematical reals; np.isclose(a, b) is |a-b| <= 1e-8 + 1e-5 |b|"])

native("C14", "c14_io", "native/c14_io.py",
       bound="one program per class of ops.__all__ (+ daggered gates, falsy select, free/measured parameter expressions, a mixed "
             "4-mode circuit, options, two TDM programs) x {blackbird, xir} text round trip; generate_code executed", timeout=900)


# ------------------------------------------------------------------------------------------------ record stubs
class FakeBlackbirdProgram:
    def __init__(self, name="blackbird_program", version="1.0"):
        self._name, self._version = name, version
        self._modes = set()
        self._target = {"name": None, "options": {}}
        self._type = {"name": None, "options": {}}
        self._operations = []
        self._var = {}
    name = property(lambda s: s._name)
    version = property(lambda s: s._version)
    modes = property(lambda s: s._modes)
    target = property(lambda s: s._target)
    programtype = property(lambda s: s._type)
    operations = property(lambda s: s._operations)
    variables = property(lambda s: s._var)


class FakeRegRefTransform:
    def __init__(self, expr):
        self.expr = expr


class FakeBlackbird:
    BlackbirdProgram = FakeBlackbirdProgram
    RegRefTransform = FakeRegRefTransform


class FakeStatement:
    def __init__(self, name, params, wires):
        self.name, self.params, self.wires = name, params, tuple(wires)


class FakeDeclaration:
    def __init__(self, name, type_, params=None, wires=()):
        self.name, self.type_, self.params, self.wires = name, type_, params, wires


class FakeXirProgram:
    def __init__(self):
        self.options, self.constants, self.statements = {}, {}, []
        self.declarations = {"gate": [], "out": [], "func": [], "obs": []}
        self.gates = {}
    def add_option(self, k, v): self.options[k] = v
    def add_constant(self, k, v): self.constants[k] = v
    def add_statement(self, s): self.statements.append(s)
    def add_declaration(self, d): self.declarations[d.type_].append(d)
    def search(self, *a): return []
    @property
    def wires(self):
        return set(w for s in self.statements for w in s.wires)


class FakeDecimalComplex(complex):
    pass


class FakeXir:
    Program = FakeXirProgram
    Statement = FakeStatement
    Declaration = FakeDeclaration
    DecimalComplex = FakeDecimalComplex


# ------------------------------------------------------------------------------------------------ catalogue
from native.c14_catalogue import catalogue


def build(h, idx=None):
    prg, ops = h.module(PRG), h.module(OPS)
    cat = catalogue(h, ops)
    k = h.eng.choose(len(cat), "op") if idx is None else idx
    h._reg("op", k)
    label, n, f = cat[k]
    prog = prg.Program(n, name="c14")
    with prog.context as q:
        f(q)
    return prog, label


def same_value(a, b):
    """parameters / options compare as values: identical proxy, or equal numbers / sequences"""
    if a is b:
        return True
    if isinstance(a, (list, tuple, np.ndarray)) or isinstance(b, (list, tuple, np.ndarray)):
        try:
            la, lb = list(a), list(b)
        except TypeError:
            return False
        return len(la) == len(lb) and all(same_value(x, y) for x, y in zip(la, lb))
    if a is None or b is None:
        return False
    return eqv(a, b)


def conj(xs):
    xs = list(xs)
    out = True
    for x in xs:
        if x is False:
            return False
        if x is True:
            continue
        out = x if out is True else And(out, x)
    return out


def snapshot_prog(prog):
    return [(c, c.op, c.op.p, list(c.op.p), getattr(c.op, "dagger", None), getattr(c.op, "select", None),
             getattr(c.op, "dark_counts", None), list(c.reg)) for c in prog.circuit]


def unchanged(prog, snap):
    if len(prog.circuit) != len(snap):
        return False
    ok = []
    for c, (c0, op0, p0, pvals, dg, sel, dc, reg) in zip(prog.circuit, snap):
        ok.append(c is c0 and c.op is op0 and c.op.p is p0 and len(c.op.p) == len(pvals) and all(x is y for x, y in zip(c.op.p, pvals))
                  and getattr(c.op, "dagger", None) is dg and getattr(c.op, "select", None) is sel
                  and getattr(c.op, "dark_counts", None) is dc and list(c.reg) == reg)
    return all(ok)


def commands_equal(h, tag, prog, loaded):
    h.ensure(tag + "same-number-of-commands", len(loaded.circuit) == len(prog.circuit), bounded_shape=True)
    if len(loaded.circuit) != len(prog.circuit):
        return
    for i, (a, b) in enumerate(zip(prog.circuit, loaded.circuit)):
        h.ensure(tag + f"cmd{i}.same-class", type(a.op).__name__ == type(b.op).__name__, bounded_shape=True)
        h.ensure(tag + f"cmd{i}.same-modes-in-order", [r.ind for r in a.reg] == [r.ind for r in b.reg], bounded_shape=True)
        h.ensure(tag + f"cmd{i}.same-parameters", len(a.op.p) == len(b.op.p) and conj(same_value(x, y) for x, y in zip(a.op.p, b.op.p)), bounded_shape=True)
        if hasattr(a.op, "select"):
            sa, sb = a.op.select, getattr(b.op, "select", None)
            h.ensure(tag + f"cmd{i}.same-select", (sa is None and sb is None) or (sa is not None and sb is not None and same_value(sa, sb)), bounded_shape=True)
        if hasattr(a.op, "dark_counts"):
            da, db = a.op.dark_counts, getattr(b.op, "dark_counts", None)
            h.ensure(tag + f"cmd{i}.same-dark-counts", (da is None and db is None) or (da is not None and db is not None and same_value(da, db)), bounded_shape=True)


# ------------------------------------------------------------------------------------------------ Blackbird
@proof("C14", BB + ":to_blackbird", name="to_blackbird+from_blackbird/ir-roundtrip",
       native="from native.c14_replay import replay; replay('blackbird', OBLIGATION, I)")
def _bb_roundtrip(h):
    bbio, par = h.module(BB), h.module(PAR)
    prog, label = build(h)
    snap = snapshot_prog(prog)
    with h.stubbed(bbio, "blackbird", FakeBlackbird), h.stubbed(par, "blackbird", FakeBlackbird):
        out = h.call(bbio.to_blackbird, prog)
        h.ensure("to_blackbird.no-exception", out.returned, bounded_shape=True)
        if not out.returned:
            return
        bb = out.value
        h.ensure("to_blackbird.program-unmodified", unchanged(prog, snap), bounded_shape=True)
        h.ensure("to_blackbird.one-ir-operation-per-command", len(bb.operations) == len(prog.circuit), bounded_shape=True)
        for i, (c, op) in enumerate(zip(prog.circuit, bb.operations)):
            h.ensure(f"to_blackbird.op{i}.class-name", op["op"] == type(c.op).__name__, bounded_shape=True)
            h.ensure(f"to_blackbird.op{i}.modes-in-order", list(op["modes"]) == [r.ind for r in c.reg], bounded_shape=True)
            h.ensure(f"to_blackbird.op{i}.every-parameter", len(op["args"]) == len(c.op.p) and all(x is y for x, y in zip(op["args"], c.op.p)), bounded_shape=True)
            h.ensure(f"to_blackbird.op{i}.args-not-aliased", op["args"] is not c.op.p, bounded_shape=True)
            sel = getattr(c.op, "select", None)
            dc = getattr(c.op, "dark_counts", None)
            # Python-level truth of these clauses depends on the path (select == 0 forks in code that tests truthiness)
            h.ensure(f"to_blackbird.op{i}.select-carried", ("select" in op["kwargs"]) == (sel is not None) and (sel is None or op["kwargs"]["select"] is sel), bounded_shape=True)
            h.ensure(f"to_blackbird.op{i}.dark-counts-carried", ("dark_counts" in op["kwargs"]) == (dc is not None) and (dc is None or op["kwargs"]["dark_counts"] is dc), bounded_shape=True)
        h.ensure("to_blackbird.modes", set(bb.modes) == set(prog.reg_refs.keys()), bounded_shape=True)
        out2 = h.call(bbio.from_blackbird, bb)
        h.ensure("from_blackbird.no-exception", out2.returned, bounded_shape=True)
        if not out2.returned:
            return
        loaded = out2.value
        commands_equal(h, "roundtrip.", prog, loaded)
        h.ensure("roundtrip.same-name", loaded.name == prog.name, bounded_shape=True)
        h.ensure("from_blackbird.ir-unmodified", len(bb.operations) == len(prog.circuit), bounded_shape=True)


@proof("C14", BB + ":to_blackbird", name="to_blackbird+from_blackbird/target-and-options")
def _bb_options(h):
    bbio, par = h.module(BB), h.module(PAR)
    prog, label = build(h, 0)
    shots, cutoff = h.int("shots", lo=1), h.int("cutoff", lo=1)
    prog._target = "fock"
    prog.run_options = {"shots": shots}
    prog.backend_options = {"cutoff_dim": cutoff}
    with h.stubbed(bbio, "blackbird", FakeBlackbird), h.stubbed(par, "blackbird", FakeBlackbird):
        out = h.call(bbio.to_blackbird, prog)
        h.ensure("no-exception", out.returned)
        if not out.returned:
            return
        bb = out.value
        h.ensure("ir-target", bb.target["name"] == "fock")
        h.ensure("ir-options", bb.target["options"].get("shots") is shots and bb.target["options"].get("cutoff_dim") is cutoff)
        out2 = h.call(bbio.from_blackbird, bb)
        h.ensure("load.no-exception", out2.returned)
        if out2.returned:
            l = out2.value
            h.ensure("roundtrip.target", l.target == "fock")
            h.ensure("roundtrip.shots", l.run_options.get("shots") is shots)
            h.ensure("roundtrip.cutoff", l.backend_options.get("cutoff_dim") is cutoff)
            h.ensure("program-options-not-aliased", prog.run_options == {"shots": shots} and prog.backend_options == {"cutoff_dim": cutoff})


@proof("C14", BB + ":to_blackbird", name="to_blackbird+from_blackbird/measured-parameter")
def _bb_measured(h):
    """a gate parameter that is an expression of a measured mode: the IR carries the expression, loading re-binds it to
    the measured mode of the NEW program (same mode index)"""
    bbio, par, prg, ops = h.module(BB), h.module(PAR), h.module(PRG), h.module(OPS)
    # the measured mode is written into the IR by NAME ('q<index>'): indices with one and with several digits
    MODES = (0, 1, 9, 10, 11, 12, 21, 24)
    m = MODES[h.eng.choose(len(MODES), "mode")]
    tgt = 2 if m != 2 else 3
    prog = prg.Program(25, name="c14")
    with prog.context as q:
        ops.MeasureHomodyne(h.real("phi")) | q[m]
        ops.Xgate(2 * q[m].par) | q[tgt]
    snap = snapshot_prog(prog)
    with h.stubbed(bbio, "blackbird", FakeBlackbird), h.stubbed(par, "blackbird", FakeBlackbird):
        out = h.call(bbio.to_blackbird, prog)
        h.ensure("no-exception", out.returned, bounded_shape=True)
        if not out.returned:
            return
        bb = out.value
        h.ensure("program-unmodified", unchanged(prog, snap), bounded_shape=True)
        a = bb.operations[1]["args"][0]
        h.ensure("ir-carries-the-expression", isinstance(a, FakeRegRefTransform) and a.expr is prog.circuit[1].op.p[0], bounded_shape=True)
        out2 = h.call(bbio.from_blackbird, bb)
        h.ensure("load.no-exception", out2.returned, bounded_shape=True)
        if out2.returned:
            l = out2.value
            p = l.circuit[1].op.p[0]
            deps = par.par_regref_deps(p)
            h.ensure("loaded-parameter-depends-on-the-same-mode-of-the-loaded-program",
                     len(deps) == 1 and next(iter(deps)).ind == m and next(iter(deps)) is l.reg_refs[m], bounded_shape=True)
            h.ensure("same-expression", str(p) == str(prog.circuit[1].op.p[0]), bounded_shape=True)


@proof("C14", BB + ":to_blackbird", name="to_blackbird/dagger-representable")
def _bb_dagger(h):
    """F20: a daggered gate must be distinguishable in the IR (flag, or inverse parameters)"""
    bbio, par, prg, ops = h.module(BB), h.module(PAR), h.module(PRG), h.module(OPS)
    x = h.real("x")
    h.require(x != 0)
    ir = []
    for dag in (False, True):
        prog = prg.Program(1, name="c14")
        with prog.context as q:
            (ops.Rgate(x).H if dag else ops.Rgate(x)) | q[0]
        with h.stubbed(bbio, "blackbird", FakeBlackbird), h.stubbed(par, "blackbird", FakeBlackbird):
            out = h.call(bbio.to_blackbird, prog)
        if not out.returned:
            h.ensure("no-exception", False, finding="F20")
            return
        ir.append(out.value.operations[0])
    a, b = ir
    differs = a["op"] != b["op"] or a["kwargs"] != b["kwargs"] or len(a["args"]) != len(b["args"]) or Not(SV(eqv(a["args"][0], b["args"][0])))
    h.ensure("Rgate(x).H-and-Rgate(x)-have-different-IR", differs, finding="F20")


# ------------------------------------------------------------------------------------------------ XIR
@proof("C14", XI + ":to_xir", name="to_xir+from_xir/ir-roundtrip",
       native="from native.c14_replay import replay; replay('xir', OBLIGATION, I)")
def _xir_roundtrip(h):
    xio, par = h.module(XI), h.module(PAR)
    prog, label = build(h)
    snap = snapshot_prog(prog)
    with h.stubbed(xio, "xir", FakeXir), h.stubbed(par, "blackbird", FakeBlackbird):
        out = h.call(xio.to_xir, prog)
        h.ensure("to_xir.no-exception", out.returned, bounded_shape=True)
        if not out.returned:
            return
        xp = out.value
        h.ensure("to_xir.program-unmodified", unchanged(prog, snap), bounded_shape=True)
        h.ensure("to_xir.one-statement-per-command", len(xp.statements) == len(prog.circuit), bounded_shape=True)
        for i, (c, st) in enumerate(zip(prog.circuit, xp.statements)):
            h.ensure(f"to_xir.stmt{i}.class-name", st.name == type(c.op).__name__, bounded_shape=True)
            h.ensure(f"to_xir.stmt{i}.wires-in-order", list(st.wires) == [r.ind for r in c.reg], bounded_shape=True)
            if "Measure" in st.name:
                sel = getattr(c.op, "select", None)
                dc = getattr(c.op, "dark_counts", None)
                h.ensure(f"to_xir.stmt{i}.phase-carried", (not c.op.p and "phi" not in st.params) or (len(c.op.p) == 1 and st.params.get("phi") is c.op.p[0]), bounded_shape=True)
                h.ensure(f"to_xir.stmt{i}.select-carried", ("select" in st.params) == (sel is not None) and (sel is None or st.params["select"] is sel), bounded_shape=True)
                h.ensure(f"to_xir.stmt{i}.dark-counts-carried", ("dark_counts" in st.params) == (dc is not None) and (dc is None or st.params["dark_counts"] is dc), bounded_shape=True)
            else:
                h.ensure(f"to_xir.stmt{i}.every-parameter", len(st.params) == len(c.op.p) and all(x is y for x, y in zip(st.params, c.op.p)), bounded_shape=True)
        out2 = h.call(xio.from_xir, xp)
        h.ensure("from_xir.no-exception", out2.returned, bounded_shape=True)
        if not out2.returned:
            return
        commands_equal(h, "roundtrip.", prog, out2.value)
        h.ensure("roundtrip.same-name", out2.value.name == prog.name, bounded_shape=True)


@proof("C14", XI + ":to_xir", name="to_xir+from_xir/target-and-options")
def _xir_options(h):
    xio, par = h.module(XI), h.module(PAR)
    prog, label = build(h, 0)
    shots, cutoff = h.int("shots", lo=1), h.int("cutoff", lo=1)
    prog._target = "fock"
    prog.run_options = {"shots": shots}
    prog.backend_options = {"cutoff_dim": cutoff}
    with h.stubbed(xio, "xir", FakeXir), h.stubbed(par, "blackbird", FakeBlackbird):
        out = h.call(xio.to_xir, prog)
        h.ensure("no-exception", out.returned)
        if not out.returned:
            return
        out2 = h.call(xio.from_xir, out.value)
        h.ensure("load.no-exception", out2.returned)
        if out2.returned:
            l = out2.value
            h.ensure("roundtrip.target", l.target == "fock")
            h.ensure("roundtrip.shots", l.run_options.get("shots") is shots)
            h.ensure("roundtrip.cutoff", l.backend_options.get("cutoff_dim") is cutoff)


@proof("C14", XI + ":to_xir", name="to_xir/dagger-representable")
def _xir_dagger(h):
    xio, par, prg, ops = h.module(XI), h.module(PAR), h.module(PRG), h.module(OPS)
    x = h.real("x")
    h.require(x != 0)
    ir = []
    for dag in (False, True):
        prog = prg.Program(1, name="c14")
        with prog.context as q:
            (ops.Rgate(x).H if dag else ops.Rgate(x)) | q[0]
        with h.stubbed(xio, "xir", FakeXir), h.stubbed(par, "blackbird", FakeBlackbird):
            out = h.call(xio.to_xir, prog)
        if not out.returned:
            h.ensure("no-exception", False, finding="F20")
            return
        ir.append(out.value.statements[0])
    a, b = ir
    differs = a.name != b.name or len(a.params) != len(b.params) or Not(SV(eqv(a.params[0], b.params[0])))
    h.ensure("Rgate(x).H-and-Rgate(x)-have-different-IR", differs, finding="F20")


# ------------------------------------------------------------------------------------------------ time-domain programs
TDM = "strawberryfields.tdm.program"


def tdm_prog(h, T=3):
    tdm, ops = h.module(TDM), h.module(OPS)
    prog = tdm.TDMProgram(N=2, name="c14tdm")
    A = [[h.real(f"p{k}_{t}") for t in range(T)] for k in range(3)]
    with prog.context(*A) as (p, q):
        ops.Sgate(h.real("r"), p[0]) | q[1]
        ops.BSgate(p[1], h.real("phi")) | (q[0], q[1])
        ops.MeasureHomodyne(p[2]) | q[0]
    return prog, A


@proof("C14", BB + ":to_blackbird", name="to_blackbird+from_blackbird_to_tdm/ir-roundtrip")
def _bb_tdm(h):
    bbio, par = h.module(BB), h.module(PAR)
    prog, A = tdm_prog(h)
    snap = snapshot_prog(prog)
    with h.stubbed(bbio, "blackbird", FakeBlackbird), h.stubbed(par, "blackbird", FakeBlackbird):
        out = h.call(bbio.to_blackbird, prog)
        h.ensure("to_blackbird.no-exception", out.returned, bounded_shape=True)
        if not out.returned:
            return
        bb = out.value
        h.ensure("to_blackbird.program-unmodified", unchanged(prog, snap), bounded_shape=True)
        h.ensure("ir-type-is-tdm", bb.programtype["name"] == "tdm" and bb.programtype["options"].get("temporal_modes") == 3, bounded_shape=True)
        h.ensure("ir-carries-the-per-time-bin-arrays", list(bb.variables.keys()) == ["p0", "p1", "p2"] and all(
            tuple(np.shape(bb.variables[f"p{k}"])) == (1, 3) and all(bb.variables[f"p{k}"][0][t] is A[k][t] for t in range(3)) for k in range(3)), bounded_shape=True)
        names = [[a for a in op["args"]] for op in bb.operations]
        h.ensure("loop-variables-written-by-name", names[0][1] == "p0" and names[1][0] == "p1" and names[2][0] == "p2", bounded_shape=True)
        out2 = h.call(bbio.from_blackbird_to_tdm, bb)
        h.ensure("from_blackbird_to_tdm.no-exception", out2.returned, bounded_shape=True)
        if not out2.returned:
            return
        l = out2.value
        h.ensure("roundtrip.same-arrays", len(l.tdm_params) == 3 and all(len(l.tdm_params[k]) == 3 and all(l.tdm_params[k][t] is A[k][t] for t in range(3)) for k in range(3)), bounded_shape=True)
        h.ensure("roundtrip.same-timebins", l.timebins == prog.timebins, bounded_shape=True)
        h.ensure("roundtrip.same-commands", len(l.circuit) == 3 and all(
            type(a.op).__name__ == type(b.op).__name__ and [r.ind for r in a.reg] == [r.ind for r in b.reg] and len(a.op.p) == len(b.op.p)
            and all((x is y) or str(x) == str(y) for x, y in zip(a.op.p, b.op.p)) for a, b in zip(prog.circuit, l.circuit)), bounded_shape=True)


@proof("C14", XI + ":to_xir", name="to_xir+from_xir_to_tdm/ir-roundtrip")
def _xir_tdm(h):
    xio, par = h.module(XI), h.module(PAR)
    prog, A = tdm_prog(h)
    snap = snapshot_prog(prog)
    with h.stubbed(xio, "xir", FakeXir), h.stubbed(par, "blackbird", FakeBlackbird):
        out = h.call(xio.to_xir, prog)
        h.ensure("to_xir.no-exception", out.returned, bounded_shape=True)
        if not out.returned:
            return
        xp = out.value
        h.ensure("to_xir.program-unmodified", unchanged(prog, snap), bounded_shape=True)
        h.ensure("ir-type-is-tdm", xp.options.get("_type_") == "tdm" and xp.options.get("N") == prog.N, bounded_shape=True)
        h.ensure("ir-carries-the-per-time-bin-arrays", list(xp.constants.keys()) == ["p0", "p1", "p2"] and all(
            len(xp.constants[f"p{k}"]) == 3 and all(xp.constants[f"p{k}"][t] is A[k][t] for t in range(3)) for k in range(3)), bounded_shape=True)
        st = xp.statements
        h.ensure("loop-variables-written-by-name", st[0].params[1] == "p0" and st[1].params[0] == "p1" and st[2].params.get("phi") == "p2", bounded_shape=True)
        out2 = h.call(xio.from_xir_to_tdm, xp)
        h.ensure("from_xir_to_tdm.no-exception", out2.returned, bounded_shape=True)
        if not out2.returned:
            return
        l = out2.value
        h.ensure("roundtrip.same-N", list(np.atleast_1d(l.N)) == list(np.atleast_1d(prog.N)), bounded_shape=True)
        h.ensure("roundtrip.same-arrays", len(l.tdm_params) == 3 and all(len(l.tdm_params[k]) == 3 and all(l.tdm_params[k][t] is A[k][t] for t in range(3)) for k in range(3)), bounded_shape=True)
        h.ensure("roundtrip.same-commands", len(l.circuit) == 3 and all(
            type(a.op).__name__ == type(b.op).__name__ and [r.ind for r in a.reg] == [r.ind for r in b.reg] and len(a.op.p) == len(b.op.p)
            and all((x is y) or str(x) == str(y) for x, y in zip(a.op.p, b.op.p)) for a, b in zip(prog.circuit, l.circuit)), bounded_shape=True)


# ------------------------------------------------------------------------------------------------ code generation
def _denote(h, text):
    """value denoted by the generated text (python expression over np.pi and the tokens of symbolic numbers)"""
    import math, types as _t
    from pyvc.sym import sv_untoken
    names = dict(sv_untoken(text))
    names["np"] = _t.SimpleNamespace(pi=math.pi)
    return eval(text, {"__builtins__": {}}, names)


@proof("C14", UT + ":_factor_out_pi", native="from native.c14_replay import replay_factor; replay_factor(OBLIGATION, I)")
def _factor_out_pi(h):
    """generate_code writes every numeric parameter through _factor_out_pi: the text must denote the number
    (up to the closeness tolerance the function itself uses to recognise multiples of pi/12).  Domain: |p| <= 10^6."""
    import math
    ut = h.module(UT)
    p = h.real("p")
    h.require(And(p >= -1000000, p <= 1000000))
    out = h.call(ut._factor_out_pi, [p])
    h.ensure("no-exception", out.returned)
    if not out.returned:
        return
    text = out.value
    h.ensure("returns-text", isinstance(text, str))
    v = _denote(h, text)
    # lemma chain (each step is its own obligation): p = q f + r with r within 10^-5 of 0 or f  =>  round(p / f) is q or
    # q + 1, and for every divisor g of it round(p / f / g) = round(p / f) / g.  The terms are the memoised ones of the
    # code under test (same expressions).
    f = math.pi / 12
    r = p % f
    q = (p - r) / f
    k = round(p / f)
    near_lo, near_hi = r <= 1e-5, f - r <= 1e-5
    h.lemma("round-at-a-multiple", Implies(near_lo, eqv(k, q)))
    h.lemma("round-just-below-a-multiple", Implies(near_hi, eqv(k, q + 1)))
    for g in (2, 3, 4, 6):
        kg = round(p / f / g)
        h.lemma(f"round-of-the-quotient-by-{g}", Implies(And(Or(near_lo, near_hi), eqv(k % g, 0)), eqv(g * kg, k)))
    kpi = round(p / math.pi)
    h.lemma("round-of-the-multiple-of-pi", Implies(And(Or(near_lo, near_hi), eqv(k % 12, 0)), eqv(12 * kpi, k)))
    h.ensure("text-denotes-the-number", abs(v - p) <= 1e-5 + 1e-9 * abs(p))


@proof("C14", UT + ":_factor_out_pi", name="_factor_out_pi/integers-and-names")
def _factor_out_pi_int(h):
    """integers and non-numbers (loop-variable names) are written verbatim, in order"""
    ut = h.module(UT)
    out = h.call(ut._factor_out_pi, [3, "p0", 0, -7])
    h.ensure("verbatim-in-order", out.returned and out.value == "3, p0, 0, -7")


# ------------------------------------------------------------------------------------------------ many loop variables
def tdm_prog_many(h, K=12, T=2):
    """a time-domain program with K per-time-bin arrays: loop-variable names with TWO digits (p10, p11) exist"""
    tdm, ops = h.module(TDM), h.module(OPS)
    prog = tdm.TDMProgram(N=2, name="c14tdm_many")
    A = [[h.real(f"p{k}_{t}") for t in range(T)] for k in range(K)]
    with prog.context(*A) as (p, q):
        for k in range(K - 1):
            ops.Rgate(p[k]) | q[k % 2]
        ops.MeasureHomodyne(p[K - 1]) | q[0]
    return prog, A


def _many_roundtrip(which):
    def fn(h):
        K, T = 12, 2
        par = h.module(PAR)
        prog, A = tdm_prog_many(h, K, T)
        if which == "xir":
            io_ = h.module(XI)
            ctx = [h.stubbed(io_, "xir", FakeXir), h.stubbed(par, "blackbird", FakeBlackbird)]
            to_ir, from_ir = io_.to_xir, io_.from_xir_to_tdm
        else:
            io_ = h.module(BB)
            ctx = [h.stubbed(io_, "blackbird", FakeBlackbird), h.stubbed(par, "blackbird", FakeBlackbird)]
            to_ir, from_ir = io_.to_blackbird, io_.from_blackbird_to_tdm
        import contextlib
        with contextlib.ExitStack() as st:
            for c in ctx:
                st.enter_context(c)
            out = h.call(to_ir, prog)
            h.ensure("to-ir.no-exception", out.returned, bounded_shape=True)
            if not out.returned:
                return
            out2 = h.call(from_ir, out.value)
            h.ensure("from-ir.no-exception", out2.returned, bounded_shape=True)
            if not out2.returned:
                return
            l = out2.value
            h.ensure("roundtrip.same-number-of-arrays", len(l.tdm_params) == K, bounded_shape=True)
            for k in range(min(K, len(l.tdm_params))):
                h.ensure(f"roundtrip.array-{k}-is-array-{k}", len(l.tdm_params[k]) == T and all(l.tdm_params[k][t] is A[k][t] for t in range(T)), bounded_shape=True)
            h.ensure("roundtrip.same-number-of-commands", len(l.circuit) == len(prog.circuit), bounded_shape=True)
            for j, (a, b) in enumerate(zip(prog.circuit, l.circuit)):
                h.ensure(f"roundtrip.command-{j}-loops-over-the-same-variable", type(a.op).__name__ == type(b.op).__name__ and [r.ind for r in a.reg] == [r.ind for r in b.reg]
                         and [str(x) for x in a.op.p] == [str(x) for x in b.op.p], bounded_shape=True)
            # the loop variable of command j is bound to array j in the loaded program
            names = [v.name for v in l.loop_vars]
            h.ensure("roundtrip.loop-variables-in-numeric-order", names == [f"p{k}" for k in range(K)], bounded_shape=True)
    fn.__name__ = ""
    return fn


PROOFS.append(Proof("C14", XI + ":from_xir_to_tdm", _many_roundtrip("xir"), name="to_xir+from_xir_to_tdm/ir-roundtrip/twelve-loop-variables"))
PROOFS.append(Proof("C14", BB + ":from_blackbird_to_tdm", _many_roundtrip("blackbird"), name="to_blackbird+from_blackbird_to_tdm/ir-roundtrip/twelve-loop-variables"))
