"""C09 (no side effects, compositional runs) and C10 (symbolic parameters) - ops.Gate.apply / Operation.apply,
parameters.py, engine hand-over.

Proved for all parameter values and both dagger flags: Gate.apply leaves the operation bit-identical on normal
AND exceptional exit, hands the backend p[0] negated iff daggered, skips the call iff p[0] == 0, passes the mode
indices in register order, and evaluates measured parameters at APPLICATION time (no caching).  parameters.py:
evaluation errors instead of silent defaults.  Whole-engine clauses (three ways of sequencing programs, reset,
re-running a program, compile leaves the program untouched) are a BOUNDED stand-in (native/c09_engine.py).
"""
import numpy as np
import z3
from pyvc.api import *

OPS = "strawberryfields.ops"
PU = "strawberryfields.program_utils"
PAR = "strawberryfields.parameters"

level("C09", "other",
      "Proved: Gate.apply frame (self.p identical objects on normal and exceptional exit), dagger = negated first parameter, "
      "identity skipped, register order, for all parameter values; Gate.decompose only flips freshly created operations and "
      "merge never modifies its operands (C02/C03 contracts). Bounded stand-in: run([p1,p2]) = run(p1);run(p2) = run(p1+p2), "
      "reset = fresh engine, re-running gives the same result, run/compile/optimize leave Program.circuit, parameters, "
      "registers and operation objects untouched, on gaussian/fock/bosonic with measured parameters across segments. "
      "Shape-bounded contracts: BaseEngine._run / reset against abstract program segments (hand-over of measured values mode by "
      "mode), Program(parent) shares nothing mutable with its parent whatever is later done to the successor, every natively "
      "applied operation class leaves the operation untouched. F10, F12, F61 found and repaired; F9 (bosonic re-initialisation) "
      "is an open finding.",
      trusted=["backend API calls are recording stubs in the proofs"])
level("C10", "other",
      "Proved: measured parameters are evaluated when the gate is applied (latest RegRef.val, no caching), an unmeasured "
      "parameter raises ParameterError (no silent default), par_evaluate returns non-symbolic values unchanged and substitutes "
      "free/measured atoms, par_regref_deps returns exactly the RegRefs of the measured atoms; decompositions are parametric "
      "(C02 contracts run the real _decompose on opaque values: any value-dependent branch would make them undecided). "
      "Bounded stand-in: symbolic vs substituted programs give the same state through compile/decompose/optimize on three "
      "backends; hand-over of measured values across program segments; array-valued parameters with and without the optimiser. "
      "Shape-bounded: par_regref_deps / Operation.measurement_deps / Command.get_dependencies over the grammar of parameters "
      "(scalar expressions and object arrays of any shape). F12, F61 repaired; F11 (sympy symbol identity across programs) is "
      "an open finding.",
      trusted=["library: sympy.lambdify(atoms, expr)(*vals) is the value of expr under the substitution (real sympy is executed)"])

native(["C09", "C10"], "c09_engine", "native/c09_engine.py",
       bound="3 program pairs x 3 sequencing patterns x 3 backends; 6 symbolic-parameter circuits x 3 compile paths", timeout=900)


class Rec:
    def __init__(self, fail=None):
        self.calls = []
        self.fail = fail

    def __getattr__(self, name):
        def f(*a, **kw):
            self.calls.append((name, a, kw))
            if self.fail is not None:
                raise self.fail
        return f


GATES = [("Dgate", 2, 1, "displacement"), ("Sgate", 2, 1, "squeeze"), ("Rgate", 1, 1, "rotation"), ("BSgate", 2, 2, "beamsplitter"),
         ("S2gate", 2, 2, "two_mode_squeeze"), ("Kgate", 1, 1, "kerr_interaction")]


def apply_case(h, cls, npar, ns, api, fail):
    ops, pu = h.module(OPS), h.module(PU)
    ps = [h.real(f"p{k}") for k in range(npar)]
    g = getattr(ops, cls)(*ps)
    g.dagger = bool(h.bool("dagger"))
    regs = [pu.RegRef(k) for k in (4, 1)[:ns]]
    before = list(g.p)
    plist = g.p
    be = Rec(fail)
    out = h.call(g.apply, regs, be)
    # frame: the operation object is untouched whatever happens
    h.ensure("frame.p-same-list", g.p is plist)
    h.ensure("frame.p-same-objects", len(g.p) == len(before) and all(a is b for a, b in zip(g.p, before)))
    if fail is not None:
        if out.exc is None:
            h.ensure("returns-normally-only-if-skipped", ps[0] == 0 and not be.calls)
        else:
            h.ensure("exception-propagates-unchanged", out.exc is fail)
        return
    h.ensure("no-exception", out.returned)
    if not out.returned:
        return
    if not be.calls:
        h.ensure("skipped-only-for-identity", ps[0] == 0)
        return
    h.ensure("applied-only-if-not-identity", ps[0] != 0)
    (name, a, kw), = be.calls
    h.ensure("backend-api", name == api)
    sent = a[0]
    h.ensure("first-parameter-negated-iff-dagger", eqv(sent, -ps[0] if g.dagger else ps[0]))
    h.ensure("other-parameters-unchanged", all(x is y for x, y in zip(a[1:npar], ps[1:])))
    h.ensure("modes-in-register-order", list(a[npar:]) == [r.ind for r in regs])


for (cls, npar, ns, api) in GATES:
    for failing in (False, True):
        def mk(cls=cls, npar=npar, ns=ns, api=api, failing=failing):
            def f(h):
                apply_case(h, cls, npar, ns, api, ValueError("backend refused") if failing else None)
            f.__name__ = ""
            return f
        PROOFS.append(Proof(["C09", "C01"], OPS + ":Gate.apply", mk(), name=f"Gate.apply/{cls}/{'backend-raises' if failing else 'normal'}"))


@proof("C10", OPS + ":Gate.apply", name="Gate.apply/measured-parameter-evaluated-at-application")
def _measured(h):
    ops, pu, par = h.module(OPS), h.module(PU), h.module(PAR)
    r = pu.RegRef(0)
    g = ops.Xgate(r.par)            # Xgate -> decomposed normally; use Dgate-like native gate instead
    g = ops.Rgate(r.par)
    be = Rec()
    target = [pu.RegRef(1)]
    # before the measurement: a parameter error, never a silent default
    out = h.call(g.apply, target, be)
    h.ensure("unmeasured=>ParameterError", out.raised("ParameterError") and not be.calls)
    h.ensure("operation-untouched-after-error", len(g.p) == 1 and g.p[0] is not None and not isinstance(g.p[0], (int, float)))
    r.val = 0.25
    out = h.call(g.apply, target, be)
    h.ensure("uses-the-measured-value", out.returned and len(be.calls) == 1 and float(be.calls[0][1][0]) == 0.25)
    r.val = -0.5                    # re-measured: the NEXT application must see the new outcome
    out = h.call(g.apply, target, be)
    h.ensure("uses-the-most-recent-outcome", out.returned and len(be.calls) == 2 and float(be.calls[1][1][0]) == -0.5)
    h.ensure("parameter-still-symbolic", par.par_is_symbolic(g.p[0]))


@proof("C10", PAR + ":par_evaluate")
def _par_eval(h):
    par, pu = h.module(PAR), h.module(PU)
    x = h.real("x")
    out = h.call(par.par_evaluate, [x, 3, 0.5])
    h.ensure("non-symbolic-returned-as-is", out.returned and out.value[0] is x and out.value[1] == 3 and out.value[2] == 0.5)
    r0, r1 = pu.RegRef(0), pu.RegRef(1)
    e = 2 * r0.par + par.par_funcs.sin(r1.par)
    h.ensure("deps-are-exactly-the-measured-atoms", par.par_regref_deps(e) == {r0, r1})
    out = h.call(par.par_evaluate, e)
    h.ensure("unmeasured-atom=>ParameterError", out.raised("ParameterError"))
    r0.val, r1.val = 0.5, 0.0
    out = h.call(par.par_evaluate, e)
    h.ensure("substitution-value", out.returned and abs(float(out.value) - 1.0) < 1e-12)
    fp = par.FreeParameter("alpha_c10")
    out = h.call(par.par_evaluate, fp * 2)
    h.ensure("unbound-free-parameter=>ParameterError", out.raised("ParameterError"))
    fp.val = 0.3
    out = h.call(par.par_evaluate, fp * 2)
    h.ensure("bound-free-parameter", out.returned and abs(float(out.value) - 0.6) < 1e-12)
    fp2 = par.FreeParameter("beta_c10")
    fp2.default = 0.7
    out = h.call(par.par_evaluate, fp2 + 0)
    h.ensure("documented-default-used-only-when-set", out.returned and abs(float(out.value) - 0.7) < 1e-12)
    # expressions MIXING the kinds of atoms (two measured, one bound free parameter), asymmetric in every pair: each atom
    # gets its own value whatever order the atoms are collected in
    import math
    q0, q1, g = pu.RegRef(0), pu.RegRef(1), par.FreeParameter("g_c10")
    q0.val, q1.val, g.val = 0.7, -1.3, 0.2
    f = par.par_funcs
    mixed = {
        "q0-g": (q0.par - g, 0.7 - 0.2), "g-q0": (g - q0.par, 0.2 - 0.7), "q0/g": (q0.par / g, 0.7 / 0.2), "g/q1": (g / q1.par, 0.2 / -1.3),
        "q0**g": (q0.par ** g, 0.7 ** 0.2), "g*sin(q0)": (g * f.sin(q0.par), 0.2 * math.sin(0.7)), "exp(-g)*q1+q0": (f.exp(-g) * q1.par + q0.par, math.exp(-0.2) * -1.3 + 0.7),
        "q0-q1": (q0.par - q1.par, 2.0), "q1/q0-g": (q1.par / q0.par - g, -1.3 / 0.7 - 0.2), "(q0-g)/(q1+2*g)": ((q0.par - g) / (q1.par + 2 * g), 0.5 / -0.9),
    }
    for name, (expr, want) in mixed.items():
        out = h.call(par.par_evaluate, expr)
        h.ensure(f"mixed-atoms.{name}.every-atom-gets-its-own-value", out.returned and abs(complex(out.value) - want) < 1e-12)
    out = h.call(par.par_evaluate, [q0.par - g, g - q1.par, 0.25])
    h.ensure("mixed-atoms.list-of-parameters", out.returned and abs(complex(out.value[0]) - 0.5) < 1e-12 and abs(complex(out.value[1]) - 1.5) < 1e-12 and out.value[2] == 0.25)


# ---------------------------------------------------------------------------------------------
# Program.__init__(parent): a successor segment starts from the register state of its parent and shares NOTHING mutable
# with it - whatever is done to the successor (deleting / creating modes, appending commands, storing outcomes) leaves
# the parent, which the user still holds, exactly as it was.  Parent shapes enumerated (1-3 initial modes, optionally a
# deleted and a created mode, a stored outcome of symbolic value): shape-bounded.
# ---------------------------------------------------------------------------------------------
PRG = "strawberryfields.program"


def _reg_state(prog):
    return [(k, r.ind, r.active, r.val) for k, r in prog.reg_refs.items()], set(prog.unused_indices), len(prog.circuit), list(prog.circuit)


def _same_state(a, b):
    ra, ua, na, ca = a
    rb, ub, nb, cb = b
    return (len(ra) == len(rb) and all(x[:3] == y[:3] and x[3] is y[3] for x, y in zip(ra, rb)) and ua == ub and na == nb
            and all(x is y for x, y in zip(ca, cb)))


@proof("C09", PRG + ":Program.__init__", name="Program.__init__/successor-shares-nothing-mutable-with-its-parent")
def _program_from_parent(h):
    ops, prg = h.module(OPS), h.module(PRG)
    n = (1, 2, 3)[h.eng.choose(3, "modes")]
    history = ("plain", "deleted-first", "created", "deleted-and-created")[h.eng.choose(4, "history")]
    parent = prg.Program(n)
    val = h.real("outcome")
    with parent.context as q:
        ops.Rgate(0.3) | q[n - 1]
        if history in ("deleted-first", "deleted-and-created") and n > 1:
            ops.Del | q[0]
        if history in ("created", "deleted-and-created"):
            ops.New(1)
    parent.reg_refs[n - 1].val = val
    before = _reg_state(parent)
    out = h.call(prg.Program, parent)
    h.ensure("no-exception", out.returned, bounded_shape=True)
    if not out.returned:
        return
    child = out.value
    h.ensure("parent-locked", parent.locked is True, bounded_shape=True)
    h.ensure("construction-leaves-the-parent-register-and-circuit-untouched", _same_state(_reg_state(parent), before), bounded_shape=True)
    h.ensure("successor-starts-from-the-parent's-register-state", [x[:3] for x in _reg_state(child)[0]] == [x[:3] for x in before[0]]
             and child.unused_indices == before[1] and child.init_num_subsystems == parent.num_subsystems and child.circuit == [], bounded_shape=True)
    h.ensure("successor-owns-its-register-references", all(child.reg_refs[k] is not parent.reg_refs[k] for k in parent.reg_refs)
             and child.reg_refs is not parent.reg_refs and child.unused_indices is not parent.unused_indices, bounded_shape=True)
    # whatever is done to the successor ...
    live = [r for r in child.reg_refs.values() if r.active]
    with child.context as q:
        ops.Sgate(0.2) | live[-1]
        if len(live) > 1:
            ops.Del | live[0]
        ops.New(2)
        ops.MeasureHomodyne(0.0) | live[-1]
    live[-1].val = h.real("later_outcome")
    h.ensure("editing-the-successor-leaves-the-parent-untouched", _same_state(_reg_state(parent), before), bounded_shape=True)
    h.ensure("successor-still-follows-its-parent", child.can_follow(parent) is True, bounded_shape=True)


@proof("C09", PRG + ":Program._clear_regrefs", name="Program._clear_regrefs/every-register-ever-created-is-cleared")
def _clear_regrefs(h):
    """what the engine's reset relies on: afterwards NO register reference of the program holds a measured value - also the
    references of modes that were measured and then deleted (a successor segment can still feed their value forward) - and
    nothing else about the program changes"""
    ops, prg = h.module(OPS), h.module(PRG)
    n = (1, 2, 3)[h.eng.choose(3, "modes")]
    history = ("plain", "deleted-first", "deleted-last", "deleted-and-created")[h.eng.choose(4, "history")]
    prog = prg.Program(n)
    with prog.context as q:
        ops.MeasureHomodyne(0.0) | q[0]
        if history == "deleted-first" or history == "deleted-and-created":
            ops.Del | q[0]
        if history == "deleted-last" and n > 1:
            ops.Del | q[n - 1]
        if history == "deleted-and-created":
            ops.New(1)
    for k, r in prog.reg_refs.items():
        r.val = h.real(f"outcome{k}")
    before = [(k, r.ind, r.active) for k, r in prog.reg_refs.items()]
    circ = list(prog.circuit)
    out = h.call(prog._clear_regrefs)
    h.ensure("no-exception", out.returned, bounded_shape=True)
    h.ensure("no-register-keeps-a-measured-value", all(r.val is None for r in prog.reg_refs.values()), bounded_shape=True)
    h.ensure("registers-and-circuit-otherwise-untouched", [(k, r.ind, r.active) for k, r in prog.reg_refs.items()] == before and len(prog.circuit) == len(circ)
             and all(a is b for a, b in zip(prog.circuit, circ)), bounded_shape=True)


# ---------------------------------------------------------------------------------------------
# par_regref_deps / Operation.__init__ / Command.get_dependencies over the GRAMMAR of parameters: a parameter is a number,
# a symbolic expression (atoms: measured / free parameters, numbers; built with + * ** and the par_funcs) or an object
# array of ANY shape whose elements are again parameters.  Contract: the dependencies are exactly the registers of the
# measured atoms occurring anywhere in the parameter, however deep; the operation built from the parameters depends on
# their union and the command on that union plus its own registers.  Enumerated: every element form x every container
# shape below (structure only - there is nothing numeric to abstract), so shape-bounded.
# ---------------------------------------------------------------------------------------------
def _element_forms(par, r0, r1, fp):
    f = par.par_funcs
    return [
        ("number", lambda: 0.37, set()),
        ("bare-measured", lambda: r0.par, {r0}),
        ("scaled-measured", lambda: 1.0 * r0.par, {r0}),
        ("function-of-measured", lambda: f.sin(r1.par), {r1}),
        ("sum-of-two-measured", lambda: 2 * r0.par + f.exp(r1.par) ** 2, {r0, r1}),
        ("free-parameter", lambda: 3 * fp, set()),
        ("free-times-measured", lambda: fp * r1.par, {r1}),
    ]


def _containers():
    import numpy as _np

    def arr(shape):
        def mk(elems):
            n = int(_np.prod(shape))
            a = _np.empty(n, dtype=object)
            for k in range(n):
                a[k] = elems[k % len(elems)]()
            return a.reshape(shape)
        return mk
    return [("scalar", lambda elems: elems[0]()), ("array[1]", arr((1,))), ("array[3]", arr((3,))), ("array[2,2]", arr((2, 2))),
            ("array[1,2,1]", arr((1, 2, 1))),
            ("number-array-times-measured", lambda elems: _np.array([1.0, 0.5]) * elems[0]() if not isinstance(elems[0](), float) else _np.array([1.0, 0.5]))]


@proof(["C10", "C04"], PAR + ":par_regref_deps", name="par_regref_deps/every-measured-atom-at-any-depth")
def _regref_deps_grammar(h):
    ops, pu, par = h.module(OPS), h.module(PU), h.module(PAR)
    r0, r1, r2 = pu.RegRef(0), pu.RegRef(1), pu.RegRef(2)
    fp = par.FreeParameter("gamma_c10")
    forms = _element_forms(par, r0, r1, fp)
    for cname, mk in _containers():
        for i, (fname, el, deps) in enumerate(forms):
            # the container holds this form first and the next two forms after it (arrays mix kinds of elements)
            elems = [forms[(i + d) % len(forms)] for d in range(3)]
            p = mk([e[1] for e in elems])
            n_el = 1 if cname in ("scalar", "array[1]", "number-array-times-measured") else (2 if cname == "array[1,2,1]" else 3)
            want = set().union(*[e[2] for e in elems[:n_el]])
            out = h.call(par.par_regref_deps, p)
            tag = f"{cname}/{fname}"
            h.ensure(f"{tag}.no-exception", out.returned, bounded_shape=True)
            if not out.returned:
                continue
            h.ensure(f"{tag}.exactly-the-registers-of-the-measured-atoms", set(out.value) == want, bounded_shape=True)
            op = h.call(ops.Ggate if False else _AnyOp(ops), [0.5, p])
            h.ensure(f"{tag}.operation-depends-on-the-union-over-its-parameters", op.returned and set(op.value.measurement_deps) == want, bounded_shape=True)
            if op.returned:
                cmd = pu.Command(op.value, [r2])
                d = h.call(cmd.get_dependencies)
                h.ensure(f"{tag}.command-depends-on-its-registers-and-the-measured-registers", d.returned and set(d.value) == want | {r2}, bounded_shape=True)


def _AnyOp(ops):
    class AnyOp(ops.Operation):
        ns = 1
    return AnyOp


# ---------------------------------------------------------------------------------------------
# BaseEngine._run: the segment loop against ABSTRACT program segments (modular: only can_follow / bind_params / lock /
# reg_refs of a Program are used).  Measured values are handed from one segment to the next MODE BY MODE (keyed by the
# subsystem index, whatever was deleted or created in between), before the segment is run; nothing is handed to a mode
# the successor does not have; a value the successor still holds from an earlier run of its own is replaced by the
# predecessor's more recent outcome of that mode; the predecessor's references are left alone; every segment is bound, locked, run once and
# appended in order.  Register patterns fixed (shape-bounded), all values opaque.
# ---------------------------------------------------------------------------------------------
ENGINE = "strawberryfields.engine"


class SegRef:
    def __init__(self, ind, val=None):
        self.ind, self.val = ind, val


class Segment:
    """abstract program segment"""
    def __init__(self, name, refs, log):
        self.name, self.reg_refs, self.log = name, {r.ind: r for r in refs}, log
        self.init_num_subsystems = len(refs)
        self.run_options, self.backend_options = {}, {}

    @property
    def register(self):
        return tuple(r for r in self.reg_refs.values() if getattr(r, "active", True))

    def can_follow(self, prev):
        self.log.append(("can_follow", self.name, prev.name))
        return True

    def bind_params(self, args):
        self.log.append(("bind", self.name))

    def lock(self):
        self.log.append(("lock", self.name))


@proof("C09", ENGINE + ":BaseEngine._run", name="BaseEngine._run/hand-over-of-measured-values-by-mode")
def _engine_handover(h):
    import types
    eng_mod = h.module(ENGINE)
    log = []
    v1, v2, v3 = ("OUTCOME", 1), ("OUTCOME", 2), ("OUTCOME", 3)
    # previous segment: modes 0..3 ever existed; mode 0 was deleted (inactive, but its reference is still there and may even
    # hold an old value), modes 1 and 2 were measured, mode 3 was not
    old0 = SegRef(0, ("OLD", 0)); old0.active = False
    prev = Segment("prev", [old0, SegRef(1, v1), SegRef(2, v2), SegRef(3, None)], log)
    # successor: modes 1, 2, 3 alive, mode 4 created; second successor: mode 1 deleted as well, mode 3 measured by segment A
    # a successor may be a program that already ran on this engine (a repeated feed-forward segment): its references then
    # still hold the outcomes of THAT run - stale wherever the predecessor holds a more recent outcome of the same mode
    a_refs = [SegRef(1, ("STALE", 1)), SegRef(2), SegRef(3), SegRef(4)]
    A = Segment("A", a_refs, log)
    B = Segment("B", [SegRef(2, ("STALE", 2)), SegRef(3, ("STALE", 3)), SegRef(4), SegRef(5)], log)
    seen = {}

    def run_program(self, p, **kw):
        seen[p.name] = {k: r.val for k, r in p.reg_refs.items()}
        log.append(("run", p.name))
        if p.name == "A":
            p.reg_refs[3].val = v3            # segment A measures mode 3
        return None, "SAMPLES-" + p.name, {"dict": p.name}
    backend = types.SimpleNamespace(compiler=None, state=lambda **k: "STATE")
    eng = object.__new__(eng_mod.LocalEngine)
    for k_, v_ in dict(backend=backend, run_progs=[prev], samples=None, samples_dict=None, backend_name="stub", backend_options={}).items():
        setattr(eng, k_, v_)
    with h.stubbed(eng_mod.LocalEngine, "_run_program", run_program), h.stubbed(eng_mod.LocalEngine, "_init_backend", lambda self, n: log.append(("init", n))):
        out = h.call(eng_mod.BaseEngine._run, eng, [A, B], args={}, compile_options={}, modes=[])
    h.ensure("no-exception", out.returned, bounded_shape=True)
    if not out.returned:
        return
    h.ensure("A-sees-the-outcomes-of-its-own-modes", seen.get("A") == {1: v1, 2: v2, 3: None, 4: None}, bounded_shape=True)
    h.ensure("B-sees-the-latest-outcome-of-every-mode-it-has", seen.get("B") == {2: v2, 3: v3, 4: None, 5: None}, bounded_shape=True)
    h.ensure("predecessor-references-untouched", [r.val for r in prev.reg_refs.values()] == [("OLD", 0), v1, v2, None], bounded_shape=True)
    h.ensure("backend-not-reinitialised-for-a-successor", not any(e[0] == "init" for e in log), bounded_shape=True)
    order = [e for e in log if e[0] in ("can_follow", "bind", "lock", "run")]
    h.ensure("each-segment-checked-bound-locked-run-once-in-order",
             order == [("can_follow", "A", "prev"), ("bind", "A"), ("lock", "A"), ("run", "A"),
                       ("can_follow", "B", "A"), ("bind", "B"), ("lock", "B"), ("run", "B")], bounded_shape=True)
    h.ensure("run-history-appended-in-order", [p.name for p in eng.run_progs] == ["prev", "A", "B"], bounded_shape=True)
    h.ensure("samples-of-the-last-segment-kept", eng.samples == "SAMPLES-B" and eng.samples_dict == {"dict": "B"}, bounded_shape=True)


# the same contract carries C10's clause "a measured parameter always evaluates to the most recent outcome of the mode it
# refers to" across segments (including a segment that is run again after the mode was re-measured elsewhere)
proof("C10", ENGINE + ":BaseEngine._run", name="BaseEngine._run/most-recent-outcome-reaches-a-repeated-segment")(_engine_handover)


# ---------------------------------------------------------------------------------------------
# Every operation that a backend applies natively (every class of ops.py that defines `_apply`, found by introspection on
# each run): applying it with SYMBOLIC parameters (a measured parameter that holds a value, an expression of it) uses the
# current value and leaves the operation object exactly as it was - the parameter list still holds the symbolic
# parameters, no attribute is rewritten - so that the next application sees the value the symbol has THEN (C10) and the
# user's program is untouched (C09).  The backend is a recording stub.  Shape-bounded: one argument pattern per class.
# ---------------------------------------------------------------------------------------------
def _native_classes(ops):
    import inspect
    out = []
    for name, cls in inspect.getmembers(ops, inspect.isclass):
        if cls.__module__ == ops.__name__ and "_apply" in vars(cls) and not name.startswith("_"):
            out.append(name)
    return sorted(out)


# constructor arguments: "S" = the symbolic parameter (an expression of a measured parameter), numbers as they are
NATIVE_ARGS = {
    "Vacuum": (), "Coherent": ("S", 0.2), "Squeezed": ("S", 0.1), "DisplacedSqueezed": ("S", 0.1, 0.2, 0.3), "Fock": (1,),
    "Catstate": ("S", 0.2, 0), "Thermal": ("S",),
    "MeasureFock": (), "MeasureThreshold": (), "MeasureHomodyne": ("S",), "MeasureHeterodyne": (),
    "LossChannel": ("S",), "ThermalLossChannel": ("S", 0.3), "MSgate": ("S", 0.1, 1.0, 0.9, True),
    "Dgate": ("S", 0.3), "Sgate": ("S", 0.3), "Vgate": ("S",), "Kgate": ("S",), "Rgate": ("S",),
    "BSgate": ("S", 0.2), "MZgate": ("S", 0.2), "S2gate": ("S", 0.2), "CKgate": ("S",),
}
# classes whose parameters are arrays (no symbolic scalar to hand in): not covered by this contract
NATIVE_SKIP = {"GKP", "Ket", "DensityMatrix", "PassiveChannel", "Ggate", "Gaussian", "Bosonic", "Operation"}
# the value reaches the backend inside a state vector, not as a scalar argument: only the frame clause applies
VALUE_IN_ARRAY = {"Catstate"}


class AnyBackend:
    """recording stub of the backend API: measurement calls return one outcome per mode"""
    def __init__(self):
        self.calls = []

    def get_cutoff_dim(self):
        return 4

    def __getattr__(self, name):
        if name.startswith("__"):
            raise AttributeError(name)

        def f(*a, **kw):
            self.calls.append((name, a, kw))
            if name.startswith("measure_"):
                nm = len(a[0]) if name in ("measure_fock", "measure_threshold") else 1
                return np.array([[0.25] * nm])
            if name == "mb_squeeze_single_shot":
                return 0.25
            return None
        return f


def _flatnum(x):
    try:
        return complex(x)
    except Exception:
        return None


@proof(["C10", "C09"], OPS + ":Operation.apply", name="Operation.apply/symbolic-parameters-used-by-value-and-left-symbolic")
def _apply_symbolic_all(h):
    ops, pu, par = h.module(OPS), h.module(PU), h.module(PAR)
    names = _native_classes(ops)
    h.ensure("every-natively-applied-class-has-an-argument-pattern", all(n in NATIVE_ARGS or n in NATIVE_SKIP for n in names), bounded_shape=True)
    todo = [n for n in names if n in NATIVE_ARGS]
    h.ensure("classes-found", len(todo) >= 20, bounded_shape=True)
    name = todo[h.eng.choose(len(todo), "class")]
    cls = getattr(ops, name)
    src = pu.RegRef(5)
    src.val = 0.5
    sym = 0.5 * src.par + 0.1              # evaluates to 0.35 now
    args = [sym if a == "S" else a for a in NATIVE_ARGS[name]]
    op = cls(*args)
    reg = [pu.RegRef(k) for k in range(op.ns if op.ns else 2)]
    snap = {k: (v, list(v) if isinstance(v, list) else None) for k, v in vars(op).items()}
    be = AnyBackend()
    out = h.call(op.apply, reg, be)
    h.ensure(f"{name}.no-exception", out.returned, bounded_shape=True)
    if not out.returned:
        return
    uses_sym = "S" in NATIVE_ARGS[name] and name not in VALUE_IN_ARRAY
    nums = [c for call in be.calls for c in [_flatnum(x) for x in call[1]] if c is not None]
    if uses_sym:
        h.ensure(f"{name}.backend-gets-the-current-value", any(abs(c - 0.35) < 1e-12 for c in nums), bounded_shape=True)
    cur = vars(op)

    def _eq(a, b):
        if a is b:
            return True
        try:
            r = (a == b)
            return bool(r) if not hasattr(r, "all") else bool(r.all())
        except Exception:
            return False
    # lists hold the SAME parameter objects element by element (an equal, re-created container is not a change)
    same = set(cur) == set(snap) and all(
        (isinstance(cur[k], list) and len(cur[k]) == len(items) and all(a is b for a, b in zip(cur[k], items))) if items is not None else _eq(cur[k], v)
        for k, (v, items) in snap.items())
    h.ensure(f"{name}.operation-object-untouched", same, bounded_shape=True)
    # the symbol changes its value (re-measurement, new binding): the next application must use the new value
    src.val = -0.9                                  # sym now evaluates to -0.35
    be2 = AnyBackend()
    for r in reg:
        r.val = None
    out2 = h.call(op.apply, reg, be2)
    if uses_sym:
        nums2 = [c for call in be2.calls for c in [_flatnum(x) for x in call[1]] if c is not None]
        h.ensure(f"{name}.second-application-uses-the-new-value", out2.returned and any(abs(c - (-0.35)) < 1e-12 for c in nums2)
                 and not any(abs(c - 0.35) < 1e-12 for c in nums2), bounded_shape=True)


@proof("C09", ENGINE + ":BaseEngine.reset", name="BaseEngine.reset+LocalEngine.reset/history-and-measured-values-cleared")
def _engine_reset(h):
    """after reset the engine behaves like a fresh one: every previously run segment is cleared of measured values, the run
    history and the stored samples are empty, the backend is reset once with the (updated) backend options - and nothing
    else about the programs changes"""
    import types
    eng_mod = h.module(ENGINE)
    log = []

    class Seg:
        def __init__(self, name):
            self.name, self.cleared, self.circuit = name, 0, ["CIRCUIT-" + name]

        def _clear_regrefs(self):
            self.cleared += 1
    A, B = Seg("A"), Seg("B")
    backend = types.SimpleNamespace(reset=lambda **kw: log.append(("backend.reset", dict(kw))))
    eng = object.__new__(eng_mod.LocalEngine)
    opts = {"cutoff_dim": 5}
    for k_, v_ in dict(backend=backend, run_progs=[A, B], samples="SAMPLES", samples_dict={"d": 1}, backend_name="stub", backend_options=opts).items():
        setattr(eng, k_, v_)
    out = h.call(eng.reset, {"pure": False})
    h.ensure("no-exception", out.returned, bounded_shape=True)
    h.ensure("every-run-segment-cleared-of-measured-values-once", A.cleared == 1 and B.cleared == 1, bounded_shape=True)
    h.ensure("run-history-empty", list(eng.run_progs) == [], bounded_shape=True)
    h.ensure("stored-samples-cleared", eng.samples is None, bounded_shape=True)
    h.ensure("backend-reset-once-with-the-updated-options", log == [("backend.reset", {"cutoff_dim": 5, "pure": False})], bounded_shape=True)
    h.ensure("programs-otherwise-untouched", A.circuit == ["CIRCUIT-A"] and B.circuit == ["CIRCUIT-B"], bounded_shape=True)
