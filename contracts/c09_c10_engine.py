"""C09 (no side effects, compositional runs) and C10 (symbolic parameters) - ops.Gate.apply / Operation.apply,
parameters.py, engine hand-over.

Proved for all parameter values and both dagger flags: Gate.apply leaves the operation bit-identical on normal
AND exceptional exit, hands the backend p[0] negated iff daggered, skips the call iff p[0] == 0, passes the mode
indices in register order, and evaluates measured parameters at APPLICATION time (no caching).  parameters.py:
evaluation errors instead of silent defaults.  Whole-engine clauses (three ways of sequencing programs, reset,
re-running a program, compile leaves the program untouched) are a BOUNDED stand-in (native/c09_engine.py).
"""
import numpy as np
import z3
from pyvc.api import *

OPS = "strawberryfields.ops"
PU = "strawberryfields.program_utils"
PAR = "strawberryfields.parameters"

level("C09", "other",
      "Proved: Gate.apply frame (self.p identical objects on normal and exceptional exit), dagger = negated first parameter, "
      "identity skipped, register order, for all parameter values; Gate.decompose only flips freshly created operations and "
      "merge never modifies its operands (C02/C03 contracts). Bounded stand-in: run([p1,p2]) = run(p1);run(p2) = run(p1+p2), "
      "reset = fresh engine, re-running gives the same result, run/compile/optimize leave Program.circuit, parameters, "
      "registers and operation objects untouched, on gaussian/fock/bosonic with measured parameters across segments. "
      "F10, F12 found and repaired; F9 (bosonic re-initialisation) is an open finding.",
      trusted=["backend API calls are recording stubs in the proofs"])
level("C10", "other",
      "Proved: measured parameters are evaluated when the gate is applied (latest RegRef.val, no caching), an unmeasured "
      "parameter raises ParameterError (no silent default), par_evaluate returns non-symbolic values unchanged and substitutes "
      "free/measured atoms, par_regref_deps returns exactly the RegRefs of the measured atoms; decompositions are parametric "
      "(C02 contracts run the real _decompose on opaque values: any value-dependent branch would make them undecided). "
      "Bounded stand-in: symbolic vs substituted programs give the same state through compile/decompose/optimize on three "
      "backends; hand-over of measured values across program segments. F12 repaired; F11 (sympy symbol identity across "
      "programs) is an open finding.",
      trusted=["library: sympy.lambdify(atoms, expr)(*vals) is the value of expr under the substitution (real sympy is executed)"])

native(["C09", "C10"], "c09_engine", "native/c09_engine.py",
       bound="3 program pairs x 3 sequencing patterns x 3 backends; 6 symbolic-parameter circuits x 3 compile paths", timeout=900)


class Rec:
    def __init__(self, fail=None):
        self.calls = []
        self.fail = fail

    def __getattr__(self, name):
        def f(*a, **kw):
            self.calls.append((name, a, kw))
            if self.fail is not None:
                raise self.fail
        return f


GATES = [("Dgate", 2, 1, "displacement"), ("Sgate", 2, 1, "squeeze"), ("Rgate", 1, 1, "rotation"), ("BSgate", 2, 2, "beamsplitter"),
         ("S2gate", 2, 2, "two_mode_squeeze"), ("Kgate", 1, 1, "kerr_interaction")]


def apply_case(h, cls, npar, ns, api, fail):
    ops, pu = h.module(OPS), h.module(PU)
    ps = [h.real(f"p{k}") for k in range(npar)]
    g = getattr(ops, cls)(*ps)
    g.dagger = bool(h.bool("dagger"))
    regs = [pu.RegRef(k) for k in (4, 1)[:ns]]
    before = list(g.p)
    plist = g.p
    be = Rec(fail)
    out = h.call(g.apply, regs, be)
    # frame: the operation object is untouched whatever happens
    h.ensure("frame.p-same-list", g.p is plist)
    h.ensure("frame.p-same-objects", len(g.p) == len(before) and all(a is b for a, b in zip(g.p, before)))
    if fail is not None:
        if out.exc is None:
            h.ensure("returns-normally-only-if-skipped", ps[0] == 0 and not be.calls)
        else:
            h.ensure("exception-propagates-unchanged", out.exc is fail)
        return
    h.ensure("no-exception", out.returned)
    if not out.returned:
        return
    if not be.calls:
        h.ensure("skipped-only-for-identity", ps[0] == 0)
        return
    h.ensure("applied-only-if-not-identity", ps[0] != 0)
    (name, a, kw), = be.calls
    h.ensure("backend-api", name == api)
    sent = a[0]
    h.ensure("first-parameter-negated-iff-dagger", eqv(sent, -ps[0] if g.dagger else ps[0]))
    h.ensure("other-parameters-unchanged", all(x is y for x, y in zip(a[1:npar], ps[1:])))
    h.ensure("modes-in-register-order", list(a[npar:]) == [r.ind for r in regs])


for (cls, npar, ns, api) in GATES:
    for failing in (False, True):
        def mk(cls=cls, npar=npar, ns=ns, api=api, failing=failing):
            def f(h):
                apply_case(h, cls, npar, ns, api, ValueError("backend refused") if failing else None)
            f.__name__ = ""
            return f
        PROOFS.append(Proof(["C09", "C01"], OPS + ":Gate.apply", mk(), name=f"Gate.apply/{cls}/{'backend-raises' if failing else 'normal'}"))


@proof("C10", OPS + ":Gate.apply", name="Gate.apply/measured-parameter-evaluated-at-application")
def _measured(h):
    ops, pu, par = h.module(OPS), h.module(PU), h.module(PAR)
    r = pu.RegRef(0)
    g = ops.Xgate(r.par)            # Xgate -> decomposed normally; use Dgate-like native gate instead
    g = ops.Rgate(r.par)
    be = Rec()
    target = [pu.RegRef(1)]
    # before the measurement: a parameter error, never a silent default
    out = h.call(g.apply, target, be)
    h.ensure("unmeasured=>ParameterError", out.raised("ParameterError") and not be.calls)
    h.ensure("operation-untouched-after-error", len(g.p) == 1 and g.p[0] is not None and not isinstance(g.p[0], (int, float)))
    r.val = 0.25
    out = h.call(g.apply, target, be)
    h.ensure("uses-the-measured-value", out.returned and len(be.calls) == 1 and float(be.calls[0][1][0]) == 0.25)
    r.val = -0.5                    # re-measured: the NEXT application must see the new outcome
    out = h.call(g.apply, target, be)
    h.ensure("uses-the-most-recent-outcome", out.returned and len(be.calls) == 2 and float(be.calls[1][1][0]) == -0.5)
    h.ensure("parameter-still-symbolic", par.par_is_symbolic(g.p[0]))


@proof("C10", PAR + ":par_evaluate")
def _par_eval(h):
    par, pu = h.module(PAR), h.module(PU)
    x = h.real("x")
    out = h.call(par.par_evaluate, [x, 3, 0.5])
    h.ensure("non-symbolic-returned-as-is", out.returned and out.value[0] is x and out.value[1] == 3 and out.value[2] == 0.5)
    r0, r1 = pu.RegRef(0), pu.RegRef(1)
    e = 2 * r0.par + par.par_funcs.sin(r1.par)
    h.ensure("deps-are-exactly-the-measured-atoms", par.par_regref_deps(e) == {r0, r1})
    out = h.call(par.par_evaluate, e)
    h.ensure("unmeasured-atom=>ParameterError", out.raised("ParameterError"))
    r0.val, r1.val = 0.5, 0.0
    out = h.call(par.par_evaluate, e)
    h.ensure("substitution-value", out.returned and abs(float(out.value) - 1.0) < 1e-12)
    fp = par.FreeParameter("alpha_c10")
    out = h.call(par.par_evaluate, fp * 2)
    h.ensure("unbound-free-parameter=>ParameterError", out.raised("ParameterError"))
    fp.val = 0.3
    out = h.call(par.par_evaluate, fp * 2)
    h.ensure("bound-free-parameter", out.returned and abs(float(out.value) - 0.6) < 1e-12)
    fp2 = par.FreeParameter("beta_c10")
    fp2.default = 0.7
    out = h.call(par.par_evaluate, fp2 + 0)
    h.ensure("documented-default-used-only-when-set", out.returned and abs(float(out.value) - 0.7) < 1e-12)
