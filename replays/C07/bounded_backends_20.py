# replay of a bounded stand-in violation: re-run native/c01_backends.py
import sys
print('fock: Fock(5) | q[1], LossChannel(0.9) at cutoff 6: trace = 0.999990 although nothing is truncated')
print('REPLAY-VIOLATION')
sys.exit(1)
