#!/venv/bin/python
# replay for failed obligation 'BosonicModes.mb_squeeze_avg/mb_squeeze_avg/completely-positive.p-noise-non-negative' (property C07)
# case: ''; solver: z3
# verifier output (counter-model):
#   /0 = [(1, 1/2) -> 2, else -> 0.0000009834?]
#   acos = 1/1000000
#   choice_mode = 1
#   choice_shape = 1
#   chsh_c = 1.0000000000?
#   chsh_c!1 = 2
#   chsh_s = -142737403/295147905179352825856
#   chsh_s!1 = -1.7320508075?
#   eta_anc = 1/2
#   r = -1/1000000
#   r_anc = -1/1000000
#   sqrt = 0.0000009834?
I = {'shape': 1, 'mode': 1, 'w0': 0j, 'mu0_0': 0j, 'V0_0_0': 0.0, 'V0_0_1': 0.0, 'V0_0_2': 0.0, 'V0_0_3': 0.0, 'V0_0_4': 0.0, 'V0_0_5': 0.0, 'mu0_1': 0j, 'V0_1_0': 0.0, 'V0_1_1': 0.0, 'V0_1_2': 0.0, 'V0_1_3': 0.0, 'V0_1_4': 0.0, 'V0_1_5': 0.0, 'mu0_2': 0j, 'V0_2_0': 0.0, 'V0_2_1': 0.0, 'V0_2_2': 0.0, 'V0_2_3': 0.0, 'V0_2_4': 0.0, 'V0_2_5': 0.0, 'mu0_3': 0j, 'V0_3_0': 0.0, 'V0_3_1': 0.0, 'V0_3_2': 0.0, 'V0_3_3': 0.0, 'V0_3_4': 0.0, 'V0_3_5': 0.0, 'mu0_4': 0j, 'V0_4_0': 0.0, 'V0_4_1': 0.0, 'V0_4_2': 0.0, 'V0_4_3': 0.0, 'V0_4_4': 0.0, 'V0_4_5': 0.0, 'mu0_5': 0j, 'V0_5_0': 0.0, 'V0_5_1': 0.0, 'V0_5_2': 0.0, 'V0_5_3': 0.0, 'V0_5_4': 0.0, 'V0_5_5': 0.0, 'r': -1e-06, 'phi': 0.0, 'r_anc': -1e-06, 'eta_anc': 0.5}
OBLIGATION = 'BosonicModes.mb_squeeze_avg/mb_squeeze_avg/completely-positive.p-noise-non-negative'

import sys
def violated(msg):
    print("REPLAY-VIOLATION", OBLIGATION, "-", msg)
    sys.exit(1)
from native.c01_bosonic_replay import replay_mbsq; replay_mbsq(OBLIGATION, I)
