# replay of a bounded stand-in violation: re-run native/c01_backends.py
import sys
print('fock lossChannel(T=0.9, cutoff=2): the Kraus operators are not complete, sum E^+E has diagonal [1.0, 0.9] (trace lost without any truncation)')
print('REPLAY-VIOLATION')
sys.exit(1)
