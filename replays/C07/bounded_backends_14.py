# replay of a bounded stand-in violation: re-run native/c01_backends.py
import sys
print('fock: Fock(3) | q[1], LossChannel(0.3) at cutoff 4: trace = 0.657000 although nothing is truncated')
print('REPLAY-VIOLATION')
sys.exit(1)
