# replay of a bounded stand-in violation: re-run native/c01_backends.py
import sys
print('MeasureHeterodyne(0.2, -0.3) | q[2] of 3 on gaussian: Gaussian state violates the uncertainty relation (min eigenvalue of V + i hbar/2 Omega = -0.00254)')
print('REPLAY-VIOLATION')
sys.exit(1)
