#!/venv/bin/python
# replay for failed obligation 'GaussianModes.beamsplitter/bs/post.M' (property C07)
# case: 'j=k|i=l'; solver: z3+cvc5
# verifier output (counter-model):
# native replay of the counter-model did not fail (rc=0): 'no failing input among 60 tried'
import sys
print('obligation GaussianModes.beamsplitter/bs/post.M is not discharged on this tree; no failing concrete input was constructed')
print('no-failing-input-found')
sys.exit(1)
