# replay of a bounded stand-in violation: re-run native/c01_backends.py
import sys
print('MeasureHeterodyne(0.2, -0.3) | q[0] of 2 (mixed) on gaussian: Gaussian state violates the uncertainty relation (min eigenvalue of V + i hbar/2 Omega = -0.000403)')
print('REPLAY-VIOLATION')
sys.exit(1)
