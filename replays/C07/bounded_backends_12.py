# replay of a bounded stand-in violation: re-run native/c01_backends.py
import sys
print('fock lossChannel(T=0.9, cutoff=8) on |7>: photon distribution [0.0, 1e-05, 0.00017, 0.00255, 0.02296, 0.124, 0.37201, 0.4783], binomial law [0.0, 1e-05, 0.00017, 0.00255, 0.02296, 0.124, 0.37201, 0.4783]')
print('REPLAY-VIOLATION')
sys.exit(1)
