#!/venv/bin/python
# replay for failed obligation 'strawberryfields.backends.gaussianbackend.gaussiancircuit:GaussianModes.add_mode#1/inv-preserve/M' (property C07)
# case: ''; solver: z3
# verifier output (counter-model):
#   M_im = [else ->
#       If(And(k!68839(Var(0)) == 1, k!68838(Var(1)) == 2),
#          17,
#          If(And(k!68839(Var(0)) == 1, k!68838(Var(1)) == 0),
#             15,
#             If(And(k!68839(Var(0)) == 0, k!68838(Var(1)) == 0),
#                7,
#                If(And(k!68839(Var(0)) == 2, k!68838(Var(1)) == 0),
#                   4,
#                   
#   M_re = [else ->
#       If(And(k!68839(Var(0)) == 1, k!68838(Var(1)) == 2),
#          18,
#          If(And(k!68839(Var(0)) == 1, k!68838(Var(1)) == 0),
#             16,
#             If(And(k!68839(Var(0)) == 0, k!68838(Var(1)) == 0),
#                8,
#                If(And(k!68839(Var(0)) == 0, k!68838(Var(1)) == 2),
#                   2,
#                   
#   N_im = [else ->
#       If(And(k!68837(Var(0)) == 0, k!68836(Var(1)) == 0),
#          13,
#          If(And(k!68837(Var(0)) == 1, k!68836(Var(1)) == 0),
#             11,
#             33))]
#   N_re = [else ->
#       If(And(k!68837(Var(0)) == 0, k!68836(Var(1)) == 0),
#          14,
#          If(And(k!68837(Var(0)) == 1, k!68836(Var(1)) == 0),
#             12,
#             34))]
#   active_isnone = [else -> k!68841(Var(0)) == 2]
#   active_val = [1 -> 1, 0 -> 0, else -> Var(0)]
#   alpha_im = [else ->
#       If(k!68840(Var(0)) == 0,
#          19,
#          If(k!68840(Var(0)) == 1,
#             9,
#             If(k!68840(Var(0)) == 2, 5, 22)))]
#   alpha_re = [else ->
#       If(k!68840(Var(0)) == 0,
#          20,
#          If(k!68840(Var(0)) == 1,
#             10,
#             If(k!68840(Var(0)) == 2, 6, 29)))]
#   hv_newactive = [else ->
#       If(k!68841(Var(0)) == 0,
#          0,
#          If(k!68841(Var(0)) == 1,
#             1,
#             If(k!68841(Var(0)) == 3,
#                3,
#                If(k!68841(Var(0)) == 2, 2, 21))))]
#   hv_newactive_len = 4
#   hv_newmean_im = [else ->
#       If(k!68840(Var(0)) == 0,
#          19,
#          If(k!68840(Var(0)) == 1,
#             9,
#             If(Or(k!68840(Var(0)) == 2, k!68840(Var(0)) == 3),
#                0,
#                25)))]
#   hv_newmean_re = [else ->
#       If(k!68840(Var(0)) == 0,
#          20,
#          If(k!68840(Var(0)) == 1,
#             10,
#             If(Or(k!68840(Var(0)) == 2, k!68840(Var(0)) == 3),
#                0,
#                28)))]
#   hv_newmmat_im = [else ->
#       If(And(k!68839(Var(0)) == 0, k!68838(Var(1)) == 2),
#          3,
#          If(Or(And(k!68839(Var(0)) == 2, k!68838(Var(1)) == 3),
#                And(k!68839(Var(0)) == 3, k!68838(Var(1)) == 3),
#                And(k!68839(Var(0)) == 2, k!68838(Var(1)) == 0),
#                And(k!68839(Var(0)) == 1, k!68838(Var(1)) ==
#   hv_newmmat_im!1 = [else ->
#       If(And(k!68839(Var(0)) == 0, k!68838(Var(1)) == 2),
#          3,
#          If(Or(And(k!68839(Var(0)) == 2, k!68838(Var(1)) == 3),
#                And(k!68839(Var(0)) == 3, k!68838(Var(1)) == 3),
#                And(k!68839(Var(0)) == 1, k!68838(Var(1)) == 3)),
#             0,
#             If(And(k!68839(Var(0)) == 1, k!68838
#   hv_newmmat_re = [else ->
#       If(And(k!68839(Var(0)) == 0, k!68838(Var(1)) == 2),
#          2,
#          If(Or(And(k!68839(Var(0)) == 2, k!68838(Var(1)) == 3),
#                And(k!68839(Var(0)) == 3, k!68838(Var(1)) == 3),
#                And(k!68839(Var(0)) == 2, k!68838(Var(1)) == 0),
#                And(k!68839(Var(0)) == 1, k!68838(Var(1)) ==
#   hv_newmmat_re!1 = [else ->
#       If(And(k!68839(Var(0)) == 0, k!68838(Var(1)) == 2),
#          2,
#          If(Or(And(k!68839(Var(0)) == 2, k!68838(Var(1)) == 3),
#                And(k!68839(Var(0)) == 3, k!68838(Var(1)) == 3),
#                And(k!68839(Var(0)) == 1, k!68838(Var(1)) == 3)),
#             0,
#             If(And(k!68839(Var(0)) == 1, k!68838
#   hv_newnmat_im = [else ->
#       If(And(k!68837(Var(0)) == 0, k!68836(Var(1)) == 3),
#          0,
#          If(And(k!68837(Var(0)) == 0, k!68836(Var(1)) == 0),
#             13,
#             If(Or(And(k!68837(Var(0)) == 1, k!68836(Var(1)) == 3),
#                   And(k!68837(Var(0)) == 3, k!68836(Var(1)) == 0)),
#                0,
#                If(And(k!68837(V
#   hv_newnmat_im!1 = [else ->
#       If(And(k!68837(Var(0)) == 0, k!68836(Var(1)) == 3),
#          0,
#          If(And(k!68837(Var(0)) == 0, k!68836(Var(1)) == 0),
#             13,
#             If(Or(And(k!68837(Var(0)) == 3, k!68836(Var(1)) == 3),
#                   And(k!68837(Var(0)) == 3, k!68836(Var(1)) == 0)),
#                0,
#                If(And(k!68837(V
#   hv_newnmat_re = [else ->
#       If(And(k!68837(Var(0)) == 0, k!68836(Var(1)) == 3),
#          0,
#          If(And(k!68837(Var(0)) == 0, k!68836(Var(1)) == 0),
#             14,
#             If(Or(And(k!68837(Var(0)) == 1, k!68836(Var(1)) == 3),
#                   And(k!68837(Var(0)) == 3, k!68836(Var(1)) == 0)),
#                0,
#                If(And(k!68837(V
#   hv_newnmat_re!1 = [else ->
#       If(And(k!68837(Var(0)) == 0, k!68836(Var(1)) == 3),
#          0,
#          If(And(k!68837(Var(0)) == 0, k!68836(Var(1)) == 0),
#             14,
#             If(Or(And(k!68837(Var(0)) == 3, k!68836(Var(1)) == 3),
#                   And(k!68837(Var(0)) == 3, k!68836(Var(1)) == 0)),
#                0,
#                If(And(k!68837(V
#   i = 0
#   it = 2
#   it!1 = 0
#   j = 0
#   k!68836 = [else ->
#       If(0 <= Var(0),
#          If(3 <= Var(0), If(4 <= Var(0), 4, 3), 0),
#          -1)]
#   k!68837 = [else ->
#       If(1 <= Var(0),
#          If(2 <= Var(0), If(3 <= Var(0), 3, 2), 1),
#          0)]
#   k!68838 = [else ->
#       If(0 <= Var(0),
#          If(2 <= Var(0),
#             If(3 <= Var(0), If(4 <= Var(0), 4, 3), 2),
#             0),
#          -1)]
#   k!68839 = [else ->
#       If(1 <= Var(0),
#          If(2 <= Var(0), If(3 <= Var(0), 3, 2), 1),
#          0)]
#   k!68840 = [else ->
#       If(1 <= Var(0),
#          If(2 <= Var(0), If(3 <= Var(0), 3, 2), 1),
#          0)]
#   k!68841 = [else ->
#       If(1 <= Var(0),
#          If(2 <= Var(0), If(3 <= Var(0), 3, 2), 1),
#          0)]
#   loopfork = True
#   loopfork!1 = True
#   n = 3
#   n_new = 1
#   q_a!17!sk20 = 2
#   q_b!9!sk21 = 0
I = None
OBLIGATION = 'strawberryfields.backends.gaussianbackend.gaussiancircuit:GaussianModes.add_mode#1/inv-preserve/M'

import sys
def violated(msg):
    print("REPLAY-VIOLATION", OBLIGATION, "-", msg)
    sys.exit(1)
from native.c01_gaussian import replay; replay('add_mode', OBLIGATION, I)
