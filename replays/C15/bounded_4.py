# replay of a bounded stand-in violation (C15): re-run native/c15_hbar.py
import sys
print('bosonic homodyne-select: parity at hbar=3.1 is [1.55, 1.34319, 0.86658], at hbar=0.5 it is [0.25, 0.21664, 0.86658]')
print('REPLAY-VIOLATION')
sys.exit(1)
