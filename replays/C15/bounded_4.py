# replay of a bounded stand-in violation (C15): re-run native/c15_hbar.py
import sys
print('gaussian state (2 mode(s)) created at hbar=0.7: mean_photon answers differently after the global sf.hbar was set to another value ([(0.0708+0j), (0.15069+0j)] -> [(-0.37892+0j), (0.15069+0j)])')
print('REPLAY-VIOLATION')
sys.exit(1)
