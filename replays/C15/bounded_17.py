# replay of a bounded stand-in violation (C15): re-run native/c15_hbar.py
import sys
print("gaussian state (1 mode(s), hbar=0.7): calling mean_photon changed the state's own data")
print('REPLAY-VIOLATION')
sys.exit(1)
