# replay of a bounded stand-in violation (C15): re-run native/c15_hbar.py
import sys
print('bosonic CX-CZ: parity at hbar=2.0 is [0.92102, 0.78619, 0.83527], at hbar=0.5 it is [0.23026, 0.19655, 0.83527]')
print('REPLAY-VIOLATION')
sys.exit(1)
