# replay of a bounded stand-in violation (C15): re-run native/c15_hbar.py
import sys
print('gaussian X-Z-P: quad/sqrt(hbar) at hbar=2.0 is [0.5, -0.1], at hbar=0.5 it is [1.0, -0.2]')
print('REPLAY-VIOLATION')
sys.exit(1)
