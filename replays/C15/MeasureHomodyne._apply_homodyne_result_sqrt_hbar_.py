#!/venv/bin/python
# replay for failed obligation 'MeasureHomodyne._apply/homodyne/result~sqrt(hbar)' (property C15)
# case: ''; solver: z3
# verifier output (counter-model):
#   backend_outcome = -1
#   backend_outcome!1 = 0
#   hbar = 2
#   sqrt = 1.4142135623?
#   sqrt!1 = 1
#   sqrt2h = 0.7071067811?
import sys
print('obligation MeasureHomodyne._apply/homodyne/result~sqrt(hbar) is not discharged on this tree; no failing concrete input was constructed')
print('no-failing-input-found')
sys.exit(1)
