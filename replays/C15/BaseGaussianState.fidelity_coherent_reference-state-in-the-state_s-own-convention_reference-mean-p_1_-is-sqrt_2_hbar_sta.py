#!/venv/bin/python
# replay for failed obligation "BaseGaussianState.fidelity_coherent/reference-state-in-the-state's-own-convention/reference-mean-p[1]-is-sqrt(2 hbar_state) Im alpha" (property C15)
# case: ''; solver: z3
# verifier output (counter-model):
#   choice_modes = 1
#   global_hbar = 1089/2048
#   im1 = 5
#   sqrt = 33/32
#   sqrt!1 = 663553/524288
#   state_hbar = 440302583809/549755813888
import sys
print('obligation BaseGaussianState.fidelity_coherent/reference-state-in-the-state's-own-convention/reference-mean-p[1]-is-sqrt(2 hbar_state) Im alpha is not discharged on this tree; no failing concrete input was constructed')
print('no-failing-input-found')
sys.exit(1)
