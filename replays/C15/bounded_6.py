# replay of a bounded stand-in violation (C15): re-run native/c15_hbar.py
import sys
print('gaussian Gaussian-prep: var/hbar at hbar=2.0 is [0.65, 0.45], at hbar=0.5 it is [2.6, 1.8]')
print('REPLAY-VIOLATION')
sys.exit(1)
