#!/venv/bin/python
# replay for failed obligation "BaseGaussianState/queries-use-the-state's-own-hbar/mean_photon.mean-in-the-state's-convention" (property C15)
# case: ''; solver: z3
# verifier output (counter-model):
#   /0 = [(1, 2) -> 1/2, else -> 1]
#   V0_0 = 1
#   V2_2 = 0
#   choice_modes = 1
#   global_hbar = 1
#   mu0 = 0
#   mu2 = 0
#   state_hbar = 1/2
import sys
print('obligation BaseGaussianState/queries-use-the-state's-own-hbar/mean_photon.mean-in-the-state's-convention is not discharged on this tree; no failing concrete input was constructed')
print('no-failing-input-found')
sys.exit(1)
