# replay of a bounded stand-in violation (C15): re-run native/c15_hbar.py
import sys
print('gaussian Gaussian-prep: parity at hbar=3.1 is [1.31819], at hbar=0.5 it is [0.21261]')
print('REPLAY-VIOLATION')
sys.exit(1)
