# replay of a bounded stand-in violation (C15): re-run native/c15_hbar.py
import sys
print('gaussian Gaussian-prep: fock_prob at hbar=2.0 is [0.07292, 0.91479], at hbar=0.5 it is [0.22584, 0.34974]')
print('REPLAY-VIOLATION')
sys.exit(1)
