# replay of a bounded stand-in violation (C15): re-run native/c15_hbar.py
import sys
print('gaussian Gaussian-prep: var/hbar at hbar=3.1 is [0.41935, 0.29032], at hbar=0.5 it is [2.6, 1.8]')
print('REPLAY-VIOLATION')
sys.exit(1)
