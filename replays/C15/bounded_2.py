# replay of a bounded stand-in violation (C15): re-run native/c15_hbar.py
import sys
print('gaussian X-Z-P: var/hbar at hbar=2.0 is [0.29953, 0.83469], at hbar=0.5 it is [1.19814, 3.33875]')
print('REPLAY-VIOLATION')
sys.exit(1)
