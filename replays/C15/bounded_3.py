# replay of a bounded stand-in violation (C15): re-run native/c15_hbar.py
import sys
print('gaussian homodyne-select hbar=3.1: running the same program a second time gives mean_photon = [0.0, 0.07772], the first run gave [0.0, 0.09419]')
print('REPLAY-VIOLATION')
sys.exit(1)
