# replay of a bounded stand-in violation (C15): re-run native/c15_hbar.py
import sys
print('gaussian X-Z-P: fock_prob at hbar=2.0 is [0.16332, 0.825], at hbar=0.5 it is [0.14871, 0.21532]')
print('REPLAY-VIOLATION')
sys.exit(1)
