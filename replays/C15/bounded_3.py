# replay of a bounded stand-in violation (C15): re-run native/c15_hbar.py
import sys
print('bosonic CX-CZ: parity at hbar=3.1 is [1.42758, 1.2186, 0.83527], at hbar=0.5 it is [0.23026, 0.19655, 0.83527]')
print('REPLAY-VIOLATION')
sys.exit(1)
