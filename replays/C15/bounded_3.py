# replay of a bounded stand-in violation (C15): re-run native/c15_hbar.py
import sys
print('gaussian state (1 mode(s)) created at hbar=0.7: mean_photon answers differently after the global sf.hbar was set to another value ([(0.08631+0j), (0.14942+0j)] -> [(-0.37563+0j), (0.14942+0j)])')
print('REPLAY-VIOLATION')
sys.exit(1)
