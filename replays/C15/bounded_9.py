# replay of a bounded stand-in violation (C15): re-run native/c15_hbar.py
import sys
print('gaussian X-Z-P: quad/sqrt(hbar) at hbar=3.1 is [0.40161, -0.08032], at hbar=0.5 it is [1.0, -0.2]')
print('REPLAY-VIOLATION')
sys.exit(1)
