#!/venv/bin/python
# replay for failed obligation 'MeasureHomodyne._apply/homodyne/operation-untouched' (property C15)
# case: ''; solver: z3
# verifier output (counter-model):
#   /0 = [(-1/2, 1/2) -> -1, else -> 0]
#   hbar = 1/2
#   select_scaled = -0.7071067811?
#   sqrt = 0.7071067811?
#   sqrt!1 = 1/2
#   sqrt2h = 0.7071067811?
import sys
print('obligation MeasureHomodyne._apply/homodyne/operation-untouched is not discharged on this tree; no failing concrete input was constructed')
print('no-failing-input-found')
sys.exit(1)
