#!/venv/bin/python
# replay for failed obligation 'MeasureHomodyne._apply/homodyne/operation-untouched' (property C15)
# case: ''; solver: z3
# verifier output (counter-model):
#   hbar = 1
#   sqrt = 1
#   sqrt!1 = 0.7071067811?
#   sqrt2h = 0.7071067811?
import sys
print('obligation MeasureHomodyne._apply/homodyne/operation-untouched is not discharged on this tree; no failing concrete input was constructed')
print('no-failing-input-found')
sys.exit(1)
