# replay of a bounded stand-in violation (C15): re-run native/c15_hbar.py
import sys
print('gaussian Gaussian-prep: quad/sqrt(hbar) at hbar=2.0 is [0.28284, -0.14142], at hbar=0.5 it is [0.56569, -0.28284]')
print('REPLAY-VIOLATION')
sys.exit(1)
