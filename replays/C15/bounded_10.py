# replay of a bounded stand-in violation (C15): re-run native/c15_hbar.py
import sys
print('gaussian X-Z-P: var/hbar at hbar=3.1 is [0.19325, 0.53851], at hbar=0.5 it is [1.19814, 3.33875]')
print('REPLAY-VIOLATION')
sys.exit(1)
