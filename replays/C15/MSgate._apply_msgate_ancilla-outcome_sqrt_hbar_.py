#!/venv/bin/python
# replay for failed obligation 'MSgate._apply/msgate/ancilla-outcome~sqrt(hbar)' (property C15)
# case: ''; solver: z3
# verifier output (counter-model):
#   /0 = [(-1, 1/2) -> -2, else -> 0]
#   backend_outcome = -1
#   hbar = 1/2
#   sqrt = 0.7071067811?
#   sqrt!1 = 1/2
import sys
print('obligation MSgate._apply/msgate/ancilla-outcome~sqrt(hbar) is not discharged on this tree; no failing concrete input was constructed')
print('no-failing-input-found')
sys.exit(1)
