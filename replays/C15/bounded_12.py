# replay of a bounded stand-in violation (C15): re-run native/c15_hbar.py
import sys
print('fock homodyne-select hbar=3.1: second run reports the outcome 0.565685, selected 0.704273')
print('REPLAY-VIOLATION')
sys.exit(1)
