# replay of a bounded stand-in violation (C04): re-run native/c04_reorder.py
import sys
print('gbs compile [mode 0 deleted, modes 2,1 measured] raised IndexError: tuple index out of range')
print('REPLAY-VIOLATION')
sys.exit(1)
