# replay of a bounded stand-in violation (C04): re-run native/c04_reorder.py
import sys
print("optimize [Fock(2), Coherent(0.4)]: the optimised program ['Fock(2) | (q[0])'] prepares a different state (moments [0.0, 5.0, 0.0, 5.0, 0.0, 5.0, 2.0, 0.0] vs [0.7841, 1.0, 0.6119, 1.0, 0.1589, 1.0, 0.16, 0.16])")
print('REPLAY-VIOLATION')
sys.exit(1)
