#!/venv/bin/python
# replay for failed obligation 'reordering/abstract-commands/length=1/grid_to_DAG.no-exception' (property C04)
# case: ''; solver: z3
# verifier output (counter-model):
#   choice_dep0 = 1
#   choice_marks = 1
import sys
print('obligation reordering/abstract-commands/length=1/grid_to_DAG.no-exception is not discharged on this tree; no failing concrete input was constructed')
print('no-failing-input-found')
sys.exit(1)
