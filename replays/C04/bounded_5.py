# replay of a bounded stand-in violation (C04): re-run native/c04_reorder.py
import sys
print("optimize [GaussianTransform(S1), GaussianTransform(S2)]: the optimised program ['Dgate(0.3, 0.1) | (q[0])', 'GaussianTransform([[ 0.2564 -0.781 ]\\n [ 0.623   2.0027]]) | (q[0])'] prepares a different state (moments [0.1063, 0.6757, 0.4514, 1.5925, 0.4919, 4.3987, 0.8319, 2.9499] vs [0.1828, 2.915, 0.2426, 0.2804, 0.1646, 3.2068, 1.0456, 4.187])")
print('REPLAY-VIOLATION')
sys.exit(1)
