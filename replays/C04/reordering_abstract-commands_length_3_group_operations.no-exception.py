#!/venv/bin/python
# replay for failed obligation 'reordering/abstract-commands/length=3/group_operations.no-exception' (property C04)
# case: ''; solver: z3
# verifier output (counter-model):
#   choice_deps = 0
#   choice_marks = 1
import sys
print('obligation reordering/abstract-commands/length=3/group_operations.no-exception is not discharged on this tree; no failing concrete input was constructed')
print('no-failing-input-found')
sys.exit(1)
