# replay of a bounded stand-in violation (C04): re-run native/c04_reorder.py
import sys
print("optimize [Squeezed(0.7), Coherent(0.6, 0.3), Rgate(0.2)]: the optimised program ['Squeezed(0.7, 0) | (q[0])', 'Rgate(0.2) | (q[0])'] prepares a different state (moments [0.0, 0.3969, 0.0, 1.8272, 0.0, 3.9049, 0.5754, 1.8132] vs [1.0531, 1.0, 1.1053, 1.0, 0.5753, 1.0, 0.36, 0.36])")
print('REPLAY-VIOLATION')
sys.exit(1)
