# replay of a bounded stand-in violation (C04): re-run native/c04_reorder.py
import sys
print('gbs compile [mode 1 deleted, mode 3 created, modes 0,2 measured]: merged MeasureFock acts on modes [0, 3], the program measures modes [0, 2]')
print('REPLAY-VIOLATION')
sys.exit(1)
