# replay of a bounded stand-in violation (C04): re-run native/c04_reorder.py
import sys
print("optimize [Thermal(0.5), Squeezed(0.3)]: the optimised program ['Thermal(0.5) | (q[0])'] prepares a different state (moments [0.0, 2.0, 0.0, 2.0, 0.0, 2.0, 0.5, 0.75] vs [0.0, 0.5991, 0.0, 1.0773, 0.0, 1.7719, 0.0927, 0.2027])")
print('REPLAY-VIOLATION')
sys.exit(1)
