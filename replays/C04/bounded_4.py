# replay of a bounded stand-in violation (C04): re-run native/c04_reorder.py
import sys
print('gbs compile [mode 1 deleted, mode 3 created, modes 3,0 measured] raised IndexError: tuple index out of range')
print('REPLAY-VIOLATION')
sys.exit(1)
