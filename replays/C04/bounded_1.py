# replay of a bounded stand-in violation (C04): re-run native/c04_reorder.py
import sys
print("optimize [Sgate(0.3), Sgate(0.1).H, Rgate(0.2), Rgate(0.5).H]: the optimised program ['Dgate(0.2, 0) | (q[0])', 'Sgate(0.4, 0) | (q[0])', 'Rgate(0.7) | (q[0])'] prepares a different state (moments [0.2051, 1.1865, 0.2628, 0.5194, 0.1727, 1.4884, 0.1867, 0.4024] vs [0.3129, 0.7421, 0.1187, 1.384, -0.0968, 1.4201, 0.0673, 0.1023])")
print('REPLAY-VIOLATION')
sys.exit(1)
