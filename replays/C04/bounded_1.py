# replay of a bounded stand-in violation (C04): re-run native/c04_reorder.py
import sys
print("optimize [Vacuum, Fock(1)]: the optimised program ['Vac | (q[0])'] prepares a different state (moments [0.0, 1.0, 0.0, 1.0, 0.0, 1.0, 0.0, 0.0] vs [0.0, 3.0, 0.0, 3.0, 0.0, 3.0, 1.0, 0.0])")
print('REPLAY-VIOLATION')
sys.exit(1)
