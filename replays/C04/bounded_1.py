# replay of a bounded stand-in violation (C04): re-run native/c04_reorder.py
import sys
print("list_to_DAG(['X0>1', 'R0']): no path from #0 X0>1 to #1 R0 although they share a mode / measured parameter")
print('REPLAY-VIOLATION')
sys.exit(1)
