# replay of a bounded stand-in violation (C04): re-run native/c04_reorder.py
import sys
print('gbs compile [mode 0 deleted, mode 1 measured]: merged MeasureFock acts on modes [2], the program measures modes [1]')
print('REPLAY-VIOLATION')
sys.exit(1)
