# replay of a bounded stand-in violation (C04): re-run native/c04_reorder.py
import sys
print('get_dependencies of X0>1 = [0], expected [0, 1]')
print('REPLAY-VIOLATION')
sys.exit(1)
