# replay of a bounded stand-in violation (C06): re-run native/c06_measure.py
import sys
print('Catstate(1.0, 0.4, p=1.0); BSgate; heterodyne of q[1] post-selected on (0.3+0.4j): bosonic leaves q[0] with (<n>, <x>, <x_0.8>, <p>, <x^2>) = [0.6218, 0.8727, 0.8727, 0.369, 2.9402], the conditional state has [0.9111, 1.0614, 1.1342, 0.5502, 3.5188]')
print('REPLAY-VIOLATION')
sys.exit(1)
