# replay of a bounded stand-in violation (C06): re-run native/c06_measure.py
import sys
print('Catstate(0.9, -0.5, p=0.5); BSgate; heterodyne of q[1] post-selected on (-0-0.2j): bosonic leaves q[0] with (<n>, <x>, <x_0.8>, <p>, <x^2>) = [0.405, -0.0642, -0.2252, -0.2516, 2.2476], the conditional state has [0.3249, -0.1859, -0.4603, -0.4611, 2.0875]')
print('REPLAY-VIOLATION')
sys.exit(1)
