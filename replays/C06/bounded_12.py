# replay of a bounded stand-in violation (C06): re-run native/c06_measure.py
import sys
print('Catstate(1.0, 0.4, p=1.0); BSgate; heterodyne of q[1] post-selected on (-0-0.2j): bosonic leaves q[0] with (<n>, <x>, <x_0.8>, <p>, <x^2>) = [0.6536, -0.2708, -0.2708, -0.1145, 3.0038], the conditional state has [1.0466, -0.2969, -0.4292, -0.31, 3.7899]')
print('REPLAY-VIOLATION')
sys.exit(1)
