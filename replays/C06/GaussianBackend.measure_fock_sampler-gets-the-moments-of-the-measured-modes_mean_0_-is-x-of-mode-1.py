#!/venv/bin/python
# replay for failed obligation 'GaussianBackend.measure_fock/sampler-gets-the-moments-of-the-measured-modes/mean[0]-is-x-of-mode-1' (property C06)
# case: ''; solver: z3
# verifier output (counter-model):
#   choice_modes = 1
#   choice_n = 1
I = {'modes': 1, 'x0': 0.0, 'x1': 0.0, 'x2': 0.0, 'p0': 0.0, 'p1': 0.0, 'p2': 0.0, 'V0_0': 0.0, 'V0_1': 0.0, 'V0_2': 0.0, 'V0_3': 0.0, 'V0_4': 0.0, 'V0_5': 0.0, 'V1_0': 0.0, 'V1_1': 0.0, 'V1_2': 0.0, 'V1_3': 0.0, 'V1_4': 0.0, 'V1_5': 0.0, 'V2_0': 0.0, 'V2_1': 0.0, 'V2_2': 0.0, 'V2_3': 0.0, 'V2_4': 0.0, 'V2_5': 0.0, 'V3_0': 0.0, 'V3_1': 0.0, 'V3_2': 0.0, 'V3_3': 0.0, 'V3_4': 0.0, 'V3_5': 0.0, 'V4_0': 0.0, 'V4_1': 0.0, 'V4_2': 0.0, 'V4_3': 0.0, 'V4_4': 0.0, 'V4_5': 0.0, 'V5_0': 0.0, 'V5_1': 0.0, 'V5_2': 0.0, 'V5_3': 0.0, 'V5_4': 0.0, 'V5_5': 0.0}
OBLIGATION = 'GaussianBackend.measure_fock/sampler-gets-the-moments-of-the-measured-modes/mean[0]-is-x-of-mode-1'

import sys
def violated(msg):
    print("REPLAY-VIOLATION", OBLIGATION, "-", msg)
    sys.exit(1)
from native.c06_replay import replay; replay('measure_fock', OBLIGATION, I)
