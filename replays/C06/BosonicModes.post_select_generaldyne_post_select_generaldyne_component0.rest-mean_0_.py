#!/venv/bin/python
# replay for failed obligation 'BosonicModes.post_select_generaldyne/post_select_generaldyne/component0.rest-mean[0]' (property C06)
# case: ''; solver: z3+cvc5
# verifier output (counter-model):
I = None
OBLIGATION = 'BosonicModes.post_select_generaldyne/post_select_generaldyne/component0.rest-mean[0]'

import sys
def violated(msg):
    print("REPLAY-VIOLATION", OBLIGATION, "-", msg)
    sys.exit(1)
from native.c01_bosonic_replay import replay_dyne; replay_dyne(OBLIGATION, I)
