# replay of a bounded stand-in violation (C06): re-run native/c06_measure.py
import sys
print('Catstate(0.9, -0.5, p=0.5); BSgate; homodyne(phi=0.70) of q[1] post-selected on 0.8: bosonic leaves q[0] with (<n>, <x>, <x_0.8>, <p>, <x^2>) = [0.405, 0.5424, 0.0234, -0.4941, 2.2476], the conditional state has [0.6952, 0.6364, -0.1698, -0.8547, 2.828]')
print('REPLAY-VIOLATION')
sys.exit(1)
