# replay of a bounded stand-in violation (C06): re-run native/c06_measure.py
import sys
print('Catstate(1.0, 0.4, p=1.0); BSgate; homodyne(phi=1.57) of q[1] post-selected on -1.3: bosonic leaves q[0] with (<n>, <x>, <x_0.8>, <p>, <x^2>) = [0.5682, -1.1533, -1.1533, -0.4876, 2.8332], the conditional state has [0.5349, -1.0016, -1.233, -0.7461, 2.7665]')
print('REPLAY-VIOLATION')
sys.exit(1)
