# replay of a bounded stand-in violation (C06): re-run native/c06_measure.py
import sys
print('fock(pure=False) measure_fock([2, 1]) reported [1, 0]: the unmeasured mode(s) [0] are not in the conditional state of that outcome (max diff 0.602)')
print('REPLAY-VIOLATION')
sys.exit(1)
