# replay of a bounded stand-in violation (C06): re-run native/c06_measure.py
import sys
print('Catstate(1.2, 0.0, p=0.0); BSgate; heterodyne of q[1] post-selected on (0.3+0.4j): bosonic leaves q[0] with (<n>, <x>, <x_0.8>, <p>, <x^2>) = [0.6579, 0.9679, 0.6743, 0.0, 3.7558], the conditional state has [0.5138, 0.8667, 0.509, -0.1321, 3.4676]')
print('REPLAY-VIOLATION')
sys.exit(1)
