# replay of a bounded stand-in violation (C06): re-run native/c06_measure.py
import sys
print('Catstate(0.9, -0.5, p=0.5); BSgate; homodyne(phi=1.57) of q[1] post-selected on -1.3: bosonic leaves q[0] with (<n>, <x>, <x_0.8>, <p>, <x^2>) = [0.405, 0.3002, -0.0011, -0.2931, 2.2476], the conditional state has [0.1649, 0.2586, 0.0945, -0.1194, 1.7674]')
print('REPLAY-VIOLATION')
sys.exit(1)
