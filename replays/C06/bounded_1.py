# replay of a bounded stand-in violation (C06): re-run native/c06_measure.py
import sys
print('Catstate(1.2, 0.0, p=0.0); BSgate; homodyne(phi=0.00) of q[1] post-selected on 0.35: bosonic leaves q[0] with (<n>, <x>, <x_0.8>, <p>, <x^2>) = [0.5234, 0.7524, 0.5242, 0.0, 3.4868], the conditional state has [0.4798, 0.7261, 0.5419, 0.0502, 3.3996]')
print('REPLAY-VIOLATION')
sys.exit(1)
