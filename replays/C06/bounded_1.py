# replay of a bounded stand-in violation (C06): re-run native/c06_measure.py
import sys
print('fock sampled homodyne(phi=0.700) on mode 0 of 2: the sampling distribution has mean -0.0249, variance 1.0630; the Born distribution of x_phi has mean -0.0249, variance 1.1430')
print('REPLAY-VIOLATION')
sys.exit(1)
