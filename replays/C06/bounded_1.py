# replay of a bounded stand-in violation (C06): re-run native/c06_measure.py
import sys
print('bosonic MeasureThreshold on mode 0, outcome 1 (probability 0.276): mode 1 has (<n>, <x>, <p>) = [0.4458, 0.8919, 0.3447], the conditional state has [0.3615, 0.5974, 0.469]')
print('REPLAY-VIOLATION')
sys.exit(1)
