# replay of a bounded stand-in violation (C06): re-run native/c06_measure.py
import sys
print('post-selected heterodyne on mode 1 of 3: gaussian and bosonic conditional states differ (max 0.00913)')
print('REPLAY-VIOLATION')
sys.exit(1)
