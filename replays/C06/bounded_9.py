# replay of a bounded stand-in violation (C06): re-run native/c06_measure.py
import sys
print('Catstate(1.0, 0.4, p=1.0); BSgate; homodyne(phi=1.57) of q[1] post-selected on 0.35: bosonic leaves q[0] with (<n>, <x>, <x_0.8>, <p>, <x^2>) = [0.6218, 0.4508, 0.4508, 0.1906, 2.9404], the conditional state has [0.9818, 0.4899, 0.701, 0.5014, 3.6604]')
print('REPLAY-VIOLATION')
sys.exit(1)
