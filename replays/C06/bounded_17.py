# replay of a bounded stand-in violation (C06): re-run native/c06_measure.py
import sys
print('Catstate(0.9, -0.5, p=0.5); BSgate; homodyne(phi=0.70) of q[1] post-selected on 0.0: bosonic leaves q[0] with (<n>, <x>, <x_0.8>, <p>, <x^2>) = [0.405, -0.1005, -0.2019, -0.1839, 2.2476], the conditional state has [0.405, -0.2715, -0.5456, -0.4969, 2.2476]')
print('REPLAY-VIOLATION')
sys.exit(1)
