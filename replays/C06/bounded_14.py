# replay of a bounded stand-in violation (C06): re-run native/c06_measure.py
import sys
print('Catstate(0.9, -0.5, p=0.5); BSgate; homodyne(phi=1.57) of q[1] post-selected on 0.35: bosonic leaves q[0] with (<n>, <x>, <x_0.8>, <p>, <x^2>) = [0.405, -0.1556, -0.1447, -0.0506, 2.2476], the conditional state has [0.5918, -0.4229, -0.643, -0.4857, 2.6212]')
print('REPLAY-VIOLATION')
sys.exit(1)
