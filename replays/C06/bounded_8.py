# replay of a bounded stand-in violation (C06): re-run native/c06_measure.py
import sys
print('Catstate(1.0, 0.4, p=1.0); BSgate; homodyne(phi=0.00) of q[1] post-selected on 0.35: bosonic leaves q[0] with (<n>, <x>, <x_0.8>, <p>, <x^2>) = [0.6759, 0.5536, 0.5536, 0.2341, 3.0484], the conditional state has [0.983, 0.7861, 0.6105, 0.0875, 3.6628]')
print('REPLAY-VIOLATION')
sys.exit(1)
