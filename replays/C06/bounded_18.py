# replay of a bounded stand-in violation (C06): re-run native/c06_measure.py
import sys
print('Catstate(0.9, -0.5, p=0.5); BSgate; heterodyne of q[1] post-selected on (0.3+0.4j): bosonic leaves q[0] with (<n>, <x>, <x_0.8>, <p>, <x^2>) = [0.405, 0.1813, -0.1432, -0.3757, 2.2476], the conditional state has [0.6512, 0.1018, -0.4572, -0.7362, 2.7401]')
print('REPLAY-VIOLATION')
sys.exit(1)
