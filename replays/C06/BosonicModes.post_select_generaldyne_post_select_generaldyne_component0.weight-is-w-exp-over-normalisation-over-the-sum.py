#!/venv/bin/python
# replay for failed obligation 'BosonicModes.post_select_generaldyne/post_select_generaldyne/component0.weight-is-w-exp-over-normalisation-over-the-sum' (property C06)
# case: ''; solver: z3+cvc5
# verifier output (counter-model):
# native replay of the counter-model did not fail (rc=1): ''
import sys
print('obligation BosonicModes.post_select_generaldyne/post_select_generaldyne/component0.weight-is-w-exp-over-normalisation-over-the-sum is not discharged on this tree; no failing concrete input was constructed')
print('no-failing-input-found')
sys.exit(1)
