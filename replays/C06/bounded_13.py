# replay of a bounded stand-in violation (C06): re-run native/c06_measure.py
import sys
print('Catstate(0.9, -0.5, p=0.5); BSgate; homodyne(phi=0.00) of q[1] post-selected on 0.35: bosonic leaves q[0] with (<n>, <x>, <x_0.8>, <p>, <x^2>) = [0.405, 0.2267, -0.3267, -0.6757, 2.2476], the conditional state has [0.4351, 0.2203, -0.3688, -0.728, 2.3079]')
print('REPLAY-VIOLATION')
sys.exit(1)
