#!/venv/bin/python
# replay for failed obligation 'BosonicModes.post_select_generaldyne/post_select_generaldyne/component0.exponent-is-minus-half-the-BILINEAR-form' (property C06)
# case: ''; solver: z3
# verifier output (counter-model):
#   /0 = [(1, 1) -> 1,
#       (-60569990556581218238650129645579643/970221591044688162376533322909188096,
#        250000000000000000000000000000/9869604401089357120529513782849) ->
#       -60569990556581218238650129645579643/24576000000000000000000000000000000,
#       (3,
#        250000000000000000000000000000/986960440108935712052951378
#   D0 = 1
#   D1 = 1
#   E0_im = -1
#   E0_re = -1
#   E1_im = 1
#   E1_re = -1
#   V0_2_2 = 3/8
#   V0_2_3 = 60569990556581218238650129645579643/970221591044688162376533322909188096
#   V0_3_2 = -3
#   V0_3_3 = 3/16
#   V1_2_2 = 1/4
#   V1_2_3 = 1
#   V1_3_2 = 464481121279523069798654506147977/10106474906715501691422222113637376
#   V1_3_3 = 0
#   choice_measured = 1
#   mu0_2_im = 0
#   mu0_2_re = 0
#   mu0_3_im = 1
#   mu0_3_re = 0
#   sig_pp = -2
#   sig_xp = 0
#   sig_xx = -585/2048
#   v_p = -1
#   v_x = 0
#   w0_im = -1
#   w0_re = 1/2
#   w1_im = 1/2
#   w1_re = 1/2
#   weight_sum_im = 1/2
#   weight_sum_re = -5/2
I = {'measured': 1, 'w0': (1-1j), 'mu0_0': 0j, 'V0_0_0': 0.0, 'V0_0_1': 0.0, 'V0_0_2': 0.0, 'V0_0_3': 0.0, 'mu0_1': 0j, 'V0_1_0': 0.0, 'V0_1_1': 0.0, 'V0_1_2': 0.0, 'V0_1_3': 0.0, 'mu0_2': -1j, 'V0_2_0': 0.0, 'V0_2_1': 0.0, 'V0_2_2': 1.001953125, 'V0_2_3': 1.0694834213067017, 'mu0_3': -1j, 'V0_3_0': 0.0, 'V0_3_1': 0.0, 'V0_3_2': 0.5, 'V0_3_3': -0.25, 'w1': -1j, 'mu1_0': 0j, 'V1_0_0': 0.0, 'V1_0_1': 0.0, 'V1_0_2': 0.0, 'V1_0_3': 0.0, 'mu1_1': 0j, 'V1_1_0': 0.0, 'V1_1_1': 0.0, 'V1_1_2': 0.0, 'V1_1_3': 0.0, 'mu1_2': 0j, 'V1_2_0': 0.0, 'V1_2_1': 0.0, 'V1_2_2': 2.0, 'V1_2_3': 3.0, 'mu1_3': 0j, 'V1_3_0': 0.0, 'V1_3_1': 0.0, 'V1_3_2': 0.0, 'V1_3_3': -0.9905388447144156, 'sig_xx': -1.0, 'sig_pp': -0.99951171875, 'sig_xp': -1.015625, 'v_x': -2.0, 'v_p': 1.0, 'E0': (1-1j), 'E1': (-0.25-1j), 'D0': 1.0, 'D1': 1.0, 'weight_sum': (-1-1.75j)}
OBLIGATION = 'BosonicModes.post_select_generaldyne/post_select_generaldyne/component0.exponent-is-minus-half-the-BILINEAR-form'

import sys
def violated(msg):
    print("REPLAY-VIOLATION", OBLIGATION, "-", msg)
    sys.exit(1)
from native.c01_bosonic_replay import replay_dyne; replay_dyne(OBLIGATION, I)
