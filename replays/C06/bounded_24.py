# replay of a bounded stand-in violation (C06): re-run native/c06_measure.py
import sys
print('post-selected homodyne phi=0.00 on mode 2 of 3: gaussian and bosonic conditional states differ (max 0.526)')
print('REPLAY-VIOLATION')
sys.exit(1)
