# replay of a bounded stand-in violation (C06): re-run native/c06_measure.py
import sys
print('Catstate(1.2, 0.0, p=0.0); BSgate; homodyne(phi=1.57) of q[1] post-selected on -1.3: bosonic leaves q[0] with (<n>, <x>, <x_0.8>, <p>, <x^2>) = [0.7001, -0.959, -0.6681, -0.0, 3.8402], the conditional state has [0.8788, -1.0796, -0.5266, 0.3144, 4.1975]')
print('REPLAY-VIOLATION')
sys.exit(1)
