# replay of a bounded stand-in violation (C06): re-run native/c06_measure.py
import sys
print('fock(pure=False) measure_fock([1, 2, 0]): RNG picked photon numbers {0: np.int64(0), 1: np.int64(0), 2: np.int64(1)} but the reported outcome is [1, 0, 0] for modes [1, 2, 0]')
print('REPLAY-VIOLATION')
sys.exit(1)
