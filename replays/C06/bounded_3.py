# replay of a bounded stand-in violation (C06): re-run native/c06_measure.py
import sys
print('fock sampled homodyne(phi=1.571) on mode 1 of 2: the sampling distribution has mean -0.2641, variance 2.0515; the Born distribution of x_phi has mean 0.2641, variance 2.0533')
print('REPLAY-VIOLATION')
sys.exit(1)
