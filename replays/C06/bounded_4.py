# replay of a bounded stand-in violation (C06): re-run native/c06_measure.py
import sys
print('Catstate(1.2, 0.0, p=0.0); BSgate; homodyne(phi=0.70) of q[1] post-selected on 0.8: bosonic leaves q[0] with (<n>, <x>, <x_0.8>, <p>, <x^2>) = [0.6121, 1.3319, 0.9279, 0.0, 3.6641], the conditional state has [0.5793, 1.2991, 0.8356, -0.0969, 3.5986]')
print('REPLAY-VIOLATION')
sys.exit(1)
