# replay of a bounded stand-in violation (C06): re-run native/c06_measure.py
import sys
print('Catstate(1.2, 0.0, p=0.0); BSgate; homodyne(phi=0.70) of q[1] post-selected on 0.0: bosonic leaves q[0] with (<n>, <x>, <x_0.8>, <p>, <x^2>) = [0.5288, 0.0, 0.0, 0.0, 3.4976], the conditional state has [0.4442, 0.0, 0.0, 0.0, 3.3283]')
print('REPLAY-VIOLATION')
sys.exit(1)
