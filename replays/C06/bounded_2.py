# replay of a bounded stand-in violation (C06): re-run native/c06_measure.py
import sys
print('bosonic MeasureThreshold on mode 1, outcome 1 (probability 0.276): mode 0 has (<n>, <x>, <p>) = [0.4458, 0.9426, 0.1606], the conditional state has [0.3615, 0.6787, 0.3409]')
print('REPLAY-VIOLATION')
sys.exit(1)
