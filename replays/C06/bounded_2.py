# replay of a bounded stand-in violation (C06): re-run native/c06_measure.py
import sys
print('fock sampled homodyne(phi=0.700) on mode 1 of 2: the sampling distribution has mean 0.4829, variance 1.5180; the Born distribution of x_phi has mean 0.8233, variance 0.8310')
print('REPLAY-VIOLATION')
sys.exit(1)
