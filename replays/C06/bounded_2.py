# replay of a bounded stand-in violation (C06): re-run native/c06_measure.py
import sys
print('Catstate(1.2, 0.0, p=0.0); BSgate; homodyne(phi=1.57) of q[1] post-selected on 0.35: bosonic leaves q[0] with (<n>, <x>, <x_0.8>, <p>, <x^2>) = [0.6961, 0.29, 0.202, 0.0, 3.8323], the conditional state has [0.4833, 0.2464, 0.0441, -0.1778, 3.4065]')
print('REPLAY-VIOLATION')
sys.exit(1)
