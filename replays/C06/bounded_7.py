# replay of a bounded stand-in violation (C06): re-run native/c06_measure.py
import sys
print('Catstate(1.2, 0.0, p=0.0); BSgate; heterodyne of q[1] post-selected on (-0-0.2j): bosonic leaves q[0] with (<n>, <x>, <x_0.8>, <p>, <x^2>) = [0.6438, -0.1607, -0.1119, -0.0, 3.7277], the conditional state has [0.457, -0.1387, -0.0219, 0.1042, 3.354]')
print('REPLAY-VIOLATION')
sys.exit(1)
