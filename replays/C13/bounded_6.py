# replay of a bounded stand-in violation (C13): re-run native/c13_tdm.py
import sys
print('N=[1] bands measured in order [0] timebins=5 shots=2: samples[0,0,1] identifies pulse 1, expected pulse 2 (band 0)')
print('REPLAY-VIOLATION')
sys.exit(1)
