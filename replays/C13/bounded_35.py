# replay of a bounded stand-in violation (C13): re-run native/c13_tdm.py
import sys
print('N=[2, 1] bands measured in order [1, 0] timebins=2 shots=2: samples[0,1,1] identifies pulse 11, expected pulse 12 (band 1)')
print('REPLAY-VIOLATION')
sys.exit(1)
