# replay of a bounded stand-in violation (C13): re-run native/c13_tdm.py
import sys
print("calls ('lock', 'space1', 'unroll1'): a refused unroll1 changed the locked flag")
print('REPLAY-VIOLATION')
sys.exit(1)
