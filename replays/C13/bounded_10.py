# replay of a bounded stand-in violation (C13): re-run native/c13_tdm.py
import sys
print('TDM N=3 T=5 shift=1: run raised IndexError: list index out of range')
print('REPLAY-VIOLATION')
sys.exit(1)
