# replay of a bounded stand-in violation (C13): re-run native/c13_tdm.py
import sys
print('TDM N=3, 5 time bins, shift=2: the unrolled circuit addresses modes [(2,), (0, 2), (2,), (0,), (0,), (1, 0), (0,), (1,)]..., a left rotation by 2 per bin gives [(2,), (0, 2), (2,), (0,), (1,), (2, 1), (1,), (2,)]...')
print('REPLAY-VIOLATION')
sys.exit(1)
