# replay of a bounded stand-in violation (C13): re-run native/c13_tdm.py
import sys
print('delays=[1, 2], leading identity bins per loop=[3, 1]: get_crop_value() = 2, in the hand-written loop the first 1 detected pulses are vacuum and pulse 1 carries light')
print('REPLAY-VIOLATION')
sys.exit(1)
