# replay of a bounded stand-in violation (C13): re-run native/c13_tdm.py
import sys
print('delays=[2, 3], leading identity bins per loop=[0, 0]: entry k of the cropped samples is not the outcome of detected pulse k + 0: [21.0, 19.5, 5.3, -6.1, -19.4] vs means [20.0, 25.0, 15.9, 3.2, -8.9]')
print('REPLAY-VIOLATION')
sys.exit(1)
