# replay of a bounded stand-in violation (C13): re-run native/c13_tdm.py
import sys
print('N=[1, 1] bands measured in order [1, 0] timebins=2 shots=1: samples[0,0,1] identifies pulse 1, expected pulse 2 (band 0)')
print('REPLAY-VIOLATION')
sys.exit(1)
