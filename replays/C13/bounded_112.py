# replay of a bounded stand-in violation (C13): re-run native/c13_tdm.py
import sys
print('delays=[2, 3], leading identity bins per loop=[2, 3]: cropped samples have shape (1, 1, 13), expected (1, 1, 10)')
print('REPLAY-VIOLATION')
sys.exit(1)
