#!/venv/bin/python
# replay for failed obligation 'TDMProgram._unroll_program/emits-the-explicit-loop/shot1.bin1.MeasureHomodyne.acts-on-the-register-positions-after-3-shifts' (property C13)
# case: ''; solver: z3
# verifier output (counter-model):
#   choice_case = 7
#   choice_shots_idx = 1
#   choice_timebins_idx = 1
# native replay of the counter-model did not fail (rc=0): ' ValueError("could not convert string to float: \'{p0}\'")\nnote: battery input raised in the replay harness: ValueError("could not convert string to float: \'{p0}\'")\nnote: battery input raised in the replay harness: ValueError("could not convert string to float: \'{p0}\'")\nno failing input among 61 tried'
import sys
print('obligation TDMProgram._unroll_program/emits-the-explicit-loop/shot1.bin1.MeasureHomodyne.acts-on-the-register-positions-after-3-shifts is not discharged on this tree; no failing concrete input was constructed')
print('no-failing-input-found')
sys.exit(1)
