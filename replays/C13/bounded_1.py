# replay of a bounded stand-in violation (C13): re-run native/c13_tdm.py
import sys
print('space-unrolled single-band program (N=2, 4 time bins) WITH a measurement cannot be run: IndexError: list index out of range')
print('REPLAY-VIOLATION')
sys.exit(1)
