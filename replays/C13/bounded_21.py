# replay of a bounded stand-in violation (C13): re-run native/c13_tdm.py
import sys
print('delays=[2, 3], leading identity bins per loop=[4, 1]: get_crop_value() = 3, in the hand-written loop the first 2 detected pulses are vacuum and pulse 2 carries light')
print('REPLAY-VIOLATION')
sys.exit(1)
