#!/venv/bin/python
# replay for failed obligation 'reshape_samples/entry-(shot,band,bin)-is-the-outcome-of-that-pulse/band0.entry[0][1]-is-the-outcome-of-that-pulse' (property C13)
# case: ''; solver: z3
# verifier output (counter-model):
#   choice_case = 1
#   choice_shots_idx = 1
#   choice_timebins_idx = 1
I = {'case': 1, 'timebins_idx': 1, 'shots_idx': 1, 'outcome_s0_b0_t0': 0.0, 'outcome_s0_b0_t1': 0.0, 'outcome_s1_b0_t0': 0.0, 'outcome_s1_b0_t1': 0.0}
OBLIGATION = 'reshape_samples/entry-(shot,band,bin)-is-the-outcome-of-that-pulse/band0.entry[0][1]-is-the-outcome-of-that-pulse'

import sys
def violated(msg):
    print("REPLAY-VIOLATION", OBLIGATION, "-", msg)
    sys.exit(1)
from native.c13_replay import replay_reshape; replay_reshape(OBLIGATION, I)
