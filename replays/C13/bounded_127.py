# replay of a bounded stand-in violation (C13): re-run native/c13_tdm.py
import sys
print('delays=[2, 3], leading identity bins per loop=[4, 3]: entry k of the cropped samples is not the outcome of detected pulse k + 3: [12.2, 8.9, 25.6, -10.1, -19.1] vs means [-35.4, 10.0, 38.3, 25.5, -8.6]')
print('REPLAY-VIOLATION')
sys.exit(1)
