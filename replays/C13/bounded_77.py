# replay of a bounded stand-in violation (C13): re-run native/c13_tdm.py
import sys
print('delays=[1, 2], leading identity bins per loop=[0, 0]: entry k of the cropped samples is not the outcome of detected pulse k + 0: [21.0, 5.3, -18.9, -13.1, -24.4] vs means [20.0, 10.9, -11.8, -13.5, -25.2]')
print('REPLAY-VIOLATION')
sys.exit(1)
