# replay of a bounded stand-in violation (C13): re-run native/c13_tdm.py
import sys
print('delays=[2], leading identity bins per loop=[0]: entry k of the cropped samples is not the outcome of detected pulse k + 0: [-27.3, -28.8, -8.9, -6.1, 4.7] vs means [-28.3, -35.4, -22.4, -24.5, -12.4]')
print('REPLAY-VIOLATION')
sys.exit(1)
