# replay of a bounded stand-in violation (C13): re-run native/c13_tdm.py
import sys
print('delays=[2, 3], leading identity bins per loop=[4, 4]: entry k of the cropped samples is not the outcome of detected pulse k + 4: [8.9, 36.0, -10.1, -19.1, 11.3] vs means [10.0, 38.3, 35.9, -8.6, 2.6]')
print('REPLAY-VIOLATION')
sys.exit(1)
