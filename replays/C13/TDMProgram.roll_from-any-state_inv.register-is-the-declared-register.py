#!/venv/bin/python
# replay for failed obligation 'TDMProgram.roll/from-any-state/inv.register-is-the-declared-register' (property C13)
# case: ''; solver: z3
# verifier output (counter-model):
#   R0 = 1
#   added = 0
#   cached_shots = 1
#   choice_form = 2
#   choice_locked = 1
#   timebins = 1
I = {'form': 2, 'R0': 1, 'timebins': 1, 'locked': 1, 'cached_shots': 1, 'added': 0}
OBLIGATION = 'TDMProgram.roll/from-any-state/inv.register-is-the-declared-register'

import sys
def violated(msg):
    print("REPLAY-VIOLATION", OBLIGATION, "-", msg)
    sys.exit(1)
from native.c13_replay import replay; replay('roll', OBLIGATION, I)
