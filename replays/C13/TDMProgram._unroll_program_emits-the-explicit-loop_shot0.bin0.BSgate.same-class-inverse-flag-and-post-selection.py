#!/venv/bin/python
# replay for failed obligation 'TDMProgram._unroll_program/emits-the-explicit-loop/shot0.bin0.BSgate.same-class-inverse-flag-and-post-selection' (property C13)
# case: ''; solver: z3
# verifier output (counter-model):
#   choice_case = 1
#   choice_shots_idx = 1
#   choice_timebins_idx = 1
I = {'case': 1, 'timebins': 2, 'shots': 2, 'p0_0': 0.0, 'p0_1': 0.0, 'p1_0': 0.0, 'p1_1': 0.0}
OBLIGATION = 'TDMProgram._unroll_program/emits-the-explicit-loop/shot0.bin0.BSgate.same-class-inverse-flag-and-post-selection'

import sys
def violated(msg):
    print("REPLAY-VIOLATION", OBLIGATION, "-", msg)
    sys.exit(1)
from native.c13_replay import replay_unroll; replay_unroll(OBLIGATION, I)
