# replay of a bounded stand-in violation (C13): re-run native/c13_tdm.py
import sys
print('TDM N=4 T=3 shift=1: run raised KeyError: 1')
print('REPLAY-VIOLATION')
sys.exit(1)
