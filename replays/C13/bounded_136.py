# replay of a bounded stand-in violation (C13): re-run native/c13_tdm.py
import sys
print('delays=[2, 3], leading identity bins per loop=[4, 5]: run(crop=True) raised ValueError: setting an array element with a sequence. The requested array has an inhomogeneous shape after 1 dimensions. The detected shape was (13,) + inhomogeneous part.')
print('REPLAY-VIOLATION')
sys.exit(1)
