# replay of a bounded stand-in violation (C13): re-run native/c13_tdm.py
import sys
print('delays=[3], leading identity bins per loop=[0]: entry k of the cropped samples is not the outcome of detected pulse k + 0: [-27.3, -28.8, -28.9, -6.1, -9.4] vs means [-28.3, -35.4, -42.4, -29.5, -31.6]')
print('REPLAY-VIOLATION')
sys.exit(1)
