# replay of a bounded stand-in violation (C13): re-run native/c13_tdm.py
import sys
print('delays=[2, 3], leading identity bins per loop=[4, 5]: entry k of the cropped samples is not the outcome of detected pulse k + 5: [36.0, -13.0, -19.1, 11.3, -29.4] vs means [38.3, 35.9, -11.6, 2.6, 10.8]')
print('REPLAY-VIOLATION')
sys.exit(1)
