# replay of a bounded stand-in violation (C13): re-run native/c13_tdm.py
import sys
print('space_unroll N=3 T=4: 4 modes, expected timebins + concurrent - 1 = 6')
print('REPLAY-VIOLATION')
sys.exit(1)
