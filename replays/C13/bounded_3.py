# replay of a bounded stand-in violation (C13): re-run native/c13_tdm.py
import sys
print('space_unroll N=2 T=3: 3 modes, expected timebins + concurrent - 1 = 4')
print('REPLAY-VIOLATION')
sys.exit(1)
