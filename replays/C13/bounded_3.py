# replay of a bounded stand-in violation (C13): re-run native/c13_tdm.py
import sys
print("calls ('space1', 'roll', 'space1'): the program no longer runs: IndexError: list index out of range")
print('REPLAY-VIOLATION')
sys.exit(1)
