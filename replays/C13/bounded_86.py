# replay of a bounded stand-in violation (C13): re-run native/c13_tdm.py
import sys
print('delays=[1, 2], leading identity bins per loop=[1, 4]: cropped samples have shape (1, 1, 11), expected (1, 1, 8)')
print('REPLAY-VIOLATION')
sys.exit(1)
