#!/venv/bin/python
# replay for failed obligation 'reshape_samples/entry-(shot,band,bin)-is-the-outcome-of-that-pulse/no-exception' (property C13)
# case: ''; solver: z3
# verifier output (counter-model):
#   choice_case = 7
#   choice_shots_idx = 1
#   choice_timebins_idx = 1
I = {'case': 7, 'timebins': 2, 'shots': 2, 'outcome_s0_b0_t0': 0.0, 'outcome_s0_b0_t1': 0.0, 'outcome_s0_b1_t0': 0.0, 'outcome_s0_b1_t1': 0.0, 'outcome_s1_b0_t0': 0.0, 'outcome_s1_b0_t1': 0.0, 'outcome_s1_b1_t0': 0.0, 'outcome_s1_b1_t1': 0.0}
OBLIGATION = 'reshape_samples/entry-(shot,band,bin)-is-the-outcome-of-that-pulse/no-exception'

import sys
def violated(msg):
    print("REPLAY-VIOLATION", OBLIGATION, "-", msg)
    sys.exit(1)
from native.c13_replay import replay_reshape; replay_reshape(OBLIGATION, I)
