# replay of a bounded stand-in violation (C13): re-run native/c13_tdm.py
import sys
print('N=[8, 2] bands measured in order [1, 0] timebins=3 shots=2: samples[0,1,2] identifies pulse 11, expected pulse 12 (band 1)')
print('REPLAY-VIOLATION')
sys.exit(1)
