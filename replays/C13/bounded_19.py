# replay of a bounded stand-in violation (C13): re-run native/c13_tdm.py
import sys
print('delays=[2, 3], leading identity bins per loop=[3, 3]: get_crop_value() = 5, in the hand-written loop the first 3 detected pulses are vacuum and pulse 3 carries light')
print('REPLAY-VIOLATION')
sys.exit(1)
