# replay of a bounded stand-in violation (C13): re-run native/c13_tdm.py
import sys
print('TDM N=3, 5 time bins, shift=2: running raises IndexError (the sample arrangement assumes a shift of one)')
print('REPLAY-VIOLATION')
sys.exit(1)
