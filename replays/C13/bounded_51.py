# replay of a bounded stand-in violation (C13): re-run native/c13_tdm.py
import sys
print('single band N=2, 2 time bins, dagger=False: the register-shifting unrolled program and the hand-written fresh-mode loop leave the in-flight modes in different states (max mean diff 0.0147, cov diff 0.113)')
print('REPLAY-VIOLATION')
sys.exit(1)
