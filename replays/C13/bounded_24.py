# replay of a bounded stand-in violation (C13): re-run native/c13_tdm.py
import sys
print('delays=[2, 3], leading identity bins per loop=[4, 4]: get_crop_value() = 5, in the hand-written loop the first 4 detected pulses are vacuum and pulse 4 carries light')
print('REPLAY-VIOLATION')
sys.exit(1)
