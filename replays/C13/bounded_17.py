# replay of a bounded stand-in violation (C13): re-run native/c13_tdm.py
import sys
print("calls ('space1', 'lock', 'unroll2'): a refused unroll2 changed the locked flag")
print('REPLAY-VIOLATION')
sys.exit(1)
