# replay of a bounded stand-in violation (C13): re-run native/c13_tdm.py
import sys
print('TDM N=3, 3 time bins, shift=-1: the unrolled circuit addresses modes [(2,), (0, 2), (2,), (0,), (0,), (1, 0), (0,), (1,)]..., a left rotation by -1 per bin gives [(2,), (0, 2), (2,), (0,), (1,), (2, 1), (1,), (2,)]...')
print('REPLAY-VIOLATION')
sys.exit(1)
