# replay of a bounded stand-in violation (C13): re-run native/c13_tdm.py
import sys
print('space_unroll(shots=2) then run: IndexError: list index out of range')
print('REPLAY-VIOLATION')
sys.exit(1)
