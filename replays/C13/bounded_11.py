# replay of a bounded stand-in violation (C13): re-run native/c13_tdm.py
import sys
print('TDM N=4, 3 time bins, shift=1: the unrolled circuit addresses modes [(3,), (0, 3), (3,), (0,), (2,), (3, 2), (2,), (3,)]..., a left rotation by 1 per bin gives [(3,), (0, 3), (3,), (0,), (0,), (1, 0), (0,), (1,)]...')
print('REPLAY-VIOLATION')
sys.exit(1)
