# replay of a bounded stand-in violation (C19)
import sys
print('subgraph.resize([2], edges=[(0, 1)], 1, 3, node_select=uniform) can return [((1, (2,)), (2, (np.int64(0), 2)), (3, (np.int64(0), np.int64(1), 2))), ((1, (2,)), (2, (np.int64(0), 2)), (3, (np.int64(0), 2, np.int64(3)))), ((1, (2,)), (2, (np.int64(1), 2)), (3, (np.int64(0), np.int64(1), 2)))], documented rule allows [((1, (2,)), (2, (0, 2)), (3, (0, 1, 2))), ((1, (2,)), (2, (1, 2)), (3, (0, 1, 2))), ((1, (2,)), (2, (2, 3)), (3, (0, 2, 3)))]')
print('REPLAY-VIOLATION (re-run native/c19_apps.py to reproduce)')
sys.exit(1)
