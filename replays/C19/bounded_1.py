# replay of a bounded stand-in violation (C19)
import sys
print('clique.search([], edges=[], iterations=2, node_select=[np.float64(0.5), np.float64(2.5), np.float64(1.5)]) can return [(0,), (1,)], the documented phases allow [(1,)]')
print('REPLAY-VIOLATION (re-run native/c19_apps.py to reproduce)')
sys.exit(1)
