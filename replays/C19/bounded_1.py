# replay of a bounded stand-in violation (C19)
import sys
print('clique.shrink([0, 1, 2], edges=[(0, 1)], node_select=[np.float64(2.5), np.float64(1.5), np.float64(0.5)]) can return [(1,)], documented rule allows [(0, 1)]')
print('REPLAY-VIOLATION (re-run native/c19_apps.py to reproduce)')
sys.exit(1)
