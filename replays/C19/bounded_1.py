# replay of a bounded stand-in violation (C19)
import sys
print('clique.search([], edges=[], iterations=1, node_select=[np.float64(0.5), np.float64(2.5), np.float64(1.5)]) can return [(0,), (2,)], the documented phases allow [(2,)]')
print('REPLAY-VIOLATION (re-run native/c19_apps.py to reproduce)')
sys.exit(1)
