# replay of a bounded stand-in violation (C19)
import sys
print('event_to_sample(4, 2, 2) raised ValueError: Number of modes cannot be smaller than length of orbit')
print('REPLAY-VIOLATION (re-run native/c19_apps.py to reproduce)')
sys.exit(1)
