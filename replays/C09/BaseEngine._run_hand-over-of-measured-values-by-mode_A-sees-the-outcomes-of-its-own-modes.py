#!/venv/bin/python
# replay for failed obligation 'BaseEngine._run/hand-over-of-measured-values-by-mode/A-sees-the-outcomes-of-its-own-modes' (property C09)
# case: ''; solver: z3
# verifier output (counter-model):
import sys
print('obligation BaseEngine._run/hand-over-of-measured-values-by-mode/A-sees-the-outcomes-of-its-own-modes is not discharged on this tree; no failing concrete input was constructed')
print('no-failing-input-found')
sys.exit(1)
