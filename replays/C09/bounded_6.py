# replay of a bounded stand-in violation (C09/C10): re-run native/c09_engine.py
import sys
print('C10: sqrt(q*q) of a measured parameter with outcome (0.3+0.4j) evaluates to (0.5+0j), the function of the outcome is (0.3+0.4j)')
print('REPLAY-VIOLATION')
sys.exit(1)
