#!/venv/bin/python
# replay for failed obligation 'Program.__init__/successor-shares-nothing-mutable-with-its-parent/successor-owns-its-register-references' (property C09)
# case: ''; solver: z3
# verifier output (counter-model):
#   choice_history = 1
#   choice_modes = 1
import sys
print('obligation Program.__init__/successor-shares-nothing-mutable-with-its-parent/successor-owns-its-register-references is not discharged on this tree; no failing concrete input was constructed')
print('no-failing-input-found')
sys.exit(1)
