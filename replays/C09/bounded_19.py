# replay of a bounded stand-in violation (C09/C10): re-run native/c09_engine.py
import sys
print('C10: heterodyne outcome 0.3+0.4j fed forward through Zgate(1.5*im(q0)): (<x>,<p>) of mode 1 = [0.0, 0.0], the substituted circuit gives [0.0, 0.6000000000000001]')
print('REPLAY-VIOLATION')
sys.exit(1)
