# replay of a bounded stand-in violation (C09/C10): re-run native/c09_engine.py
import sys
print("gaussian [measure q2 and q1, Del q0, feed q1's outcome to q2]: run(p1); run(p2) gives <x> = -0.4000 on the fed-forward mode, the selected outcome is 0.7")
print('REPLAY-VIOLATION')
sys.exit(1)
