# replay of a bounded stand-in violation (C09/C10): re-run native/c09_engine.py
import sys
print('C10: q*conjugate(q) of a measured parameter with outcome (0.3+0.4j) evaluates to (-0.07000000000000003+0.24j), the function of the outcome is (0.25+0j)')
print('REPLAY-VIOLATION')
sys.exit(1)
