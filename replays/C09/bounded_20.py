# replay of a bounded stand-in violation (C09/C10): re-run native/c09_engine.py
import sys
print('C10: heterodyne outcome 0.3+0.4j fed forward through Xgate(2*re(q0)) raised ValueError: The arguments of Dgate(r, phi) cannot be complex.')
print('REPLAY-VIOLATION')
sys.exit(1)
