# replay of a bounded stand-in violation: re-run native/c09_engine.py
# Traceback (most recent call last):
#   File "/verif/native/c09_engine.py", line 479, in <module>
#     f()
#   File "/verif/native/c09_engine.py", line 193, in check_reset_clears_every_outcome
#     ops.Xgate(p2.reg_refs[0].par) | p2.reg_refs[1]
#               ^^^^^^^^^^^^^^^^^^
#   File "/tmp/pyvc_seed_v2bl52qs/strawberryfields/program_utils.py", line 193, in par
#     return MeasuredParameter(self)
#            ^^^^^^^^^^^^^^^^^^^^^^^
#   File "/tmp/pyvc_seed_v2bl52qs/strawberryfields/parameters.py", line 342, in __init__
#     raise ValueError("Trying to use an inactive RegRef.")
# ValueError: Trying to use an inactive RegRef.
# 
# NATIVE-VIOLATION finding=F9 replay=/verif/replays/C09/bounded_1.py bosonic gates: run([p1,p2]) gives [-0.0984, 1.0, -0.0673, 1.0, 0.5851, 1.0, 0.0587, 1.0] but the concatenated program gives [-0.0984, 1.0482, -0.0673, 1.2526, 0.5851, 0.915, 0.0587, 1.1551]
# bounded stand-in crashed in check_reset_clears_every_outcome
import sys
print('the library raised ValueError: Trying to use an inactive RegRef. at strawberryfields/parameters.py:342 (__init__) while the stand-in ran')
print('REPLAY-VIOLATION')
sys.exit(1)
