# replay of a bounded stand-in violation (C09/C10): re-run native/c09_engine.py
import sys
print('gaussian [measure q1 then Del q0, feed q2]: raised ParameterError: q1: trying to use a nonexistent measurement result (e.g., before it has been measured). (after [])')
print('REPLAY-VIOLATION')
sys.exit(1)
