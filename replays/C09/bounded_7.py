# replay of a bounded stand-in violation (C09/C10): re-run native/c09_engine.py
import sys
print('C10: re(q) of a measured parameter with outcome (-0.25-1.5j) evaluates to (-0.25-1.5j), the function of the outcome is (-0.25+0j)')
print('REPLAY-VIOLATION')
sys.exit(1)
