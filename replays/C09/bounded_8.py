# replay of a bounded stand-in violation (C09/C10): re-run native/c09_engine.py
import sys
print("fock [measure q2 and q1, Del q0, feed q1's outcome to q2; successor deletes the measured mode afterwards]: raised RuntimeError: Register mismatch: program 1, 'None'. (after [])")
print('REPLAY-VIOLATION')
sys.exit(1)
