# replay of a bounded stand-in violation (C09/C10): re-run native/c09_engine.py
import sys
print('C10: Abs(q)**2 of a measured parameter with outcome 2j evaluates to (-4+0j), the function of the outcome is (4+0j)')
print('REPLAY-VIOLATION')
sys.exit(1)
