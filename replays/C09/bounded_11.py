# replay of a bounded stand-in violation (C09/C10): re-run native/c09_engine.py
import sys
print('C10: q*conjugate(q) of a measured parameter with outcome (-0.25-1.5j) evaluates to (-2.1875+0.75j), the function of the outcome is (2.3124999999999996+0j)')
print('REPLAY-VIOLATION')
sys.exit(1)
