# replay of a bounded stand-in violation (C09/C10): re-run native/c09_engine.py
import sys
print('fock [Del q1, measure q2, feed q0]: raised ParameterError: q2: trying to use a nonexistent measurement result (e.g., before it has been measured). (after [])')
print('REPLAY-VIOLATION')
sys.exit(1)
