#!/venv/bin/python
# replay for failed obligation 'Program.__init__/successor-shares-nothing-mutable-with-its-parent/successor-still-follows-its-parent' (property C09)
# case: ''; solver: z3
# verifier output (counter-model):
#   choice_history = 2
#   choice_modes = 1
import sys
print('obligation Program.__init__/successor-shares-nothing-mutable-with-its-parent/successor-still-follows-its-parent is not discharged on this tree; no failing concrete input was constructed')
print('no-failing-input-found')
sys.exit(1)
