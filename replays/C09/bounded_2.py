# replay of a bounded stand-in violation (C09/C10): re-run native/c09_engine.py
import sys
print('gaussian [Del q0 then measure q1, feed q2]: raised ParameterError: q1: trying to use a nonexistent measurement result (e.g., before it has been measured). (after [])')
print('REPLAY-VIOLATION')
sys.exit(1)
