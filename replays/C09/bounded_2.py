# replay of a bounded stand-in violation (C09/C10): re-run native/c09_engine.py
import sys
print("C10 gaussian homodyne-angle {'optimize': True}: the same program re-run with a = -0.52, b = 0.44 gives [0.0, 1.0, 0.0, 1.0, 0.1903, 0.7992, -0.0589, 1.2859], the substituted program [0.0, 1.0, 0.0, 1.0, 0.0181, 1.3326, 0.1984, 0.7525]")
print('REPLAY-VIOLATION')
sys.exit(1)
