#!/venv/bin/python
# replay for failed obligation 'Program._clear_regrefs/every-register-ever-created-is-cleared/no-register-keeps-a-measured-value' (property C09)
# case: ''; solver: z3
# verifier output (counter-model):
#   choice_history = 1
#   choice_modes = 1
import sys
print('obligation Program._clear_regrefs/every-register-ever-created-is-cleared/no-register-keeps-a-measured-value is not discharged on this tree; no failing concrete input was constructed')
print('no-failing-input-found')
sys.exit(1)
