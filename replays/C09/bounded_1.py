# replay of a bounded stand-in violation (C09/C10): re-run native/c09_engine.py
import sys
print("C10: creating the free parameter 'a' in a second program reset/aliased the bound parameter 'a' of the first program")
print('REPLAY-VIOLATION')
sys.exit(1)
