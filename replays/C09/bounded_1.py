# replay of a bounded stand-in violation (C09/C10): re-run native/c09_engine.py
import sys
print('bosonic gates: run([p1,p2]) gives [-0.0984, 1.0, -0.0673, 1.0, 0.5851, 1.0, 0.0587, 1.0] but the concatenated program gives [-0.0984, 1.0482, -0.0673, 1.2526, 0.5851, 0.915, 0.0587, 1.1551]')
print('REPLAY-VIOLATION')
sys.exit(1)
