#!/venv/bin/python
# replay for failed obligation 'Program.__init__/successor-shares-nothing-mutable-with-its-parent/editing-the-successor-leaves-the-parent-untouched' (property C09)
# case: ''; solver: z3
# verifier output (counter-model):
#   choice_history = 1
#   choice_modes = 1
import sys
print('obligation Program.__init__/successor-shares-nothing-mutable-with-its-parent/editing-the-successor-leaves-the-parent-untouched is not discharged on this tree; no failing concrete input was constructed')
print('no-failing-input-found')
sys.exit(1)
