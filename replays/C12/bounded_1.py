# replay of a bounded stand-in violation (C12): re-run native/c12_hw.py
import sys
print('Xcov n=4: S2gate on modes (0,1) was accepted')
print('REPLAY-VIOLATION')
sys.exit(1)
