# replay of a bounded stand-in violation (C12): re-run native/c12_device.py
import sys
print("a source with squeezing value 0.4 not offered by the device raised ValueError instead of CircuitError: 'squeezing_amplitude_0' has invalid value 0.4. Only x=0, x=0.7 allowed.")
print('REPLAY-VIOLATION')
sys.exit(1)
