# replay of a bounded stand-in violation (C12): re-run native/c12_device.py
import sys
print('Device.validate_parameters(s=[0.3, 1.0, 0]) accepted the array; allowed values are [0, 0.5643, 1.0]')
print('REPLAY-VIOLATION')
sys.exit(1)
