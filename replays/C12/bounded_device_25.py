# replay of a bounded stand-in violation (C12): re-run native/c12_device.py
import sys
print('Device.validate_parameters(bs=[0.1, 0.8, 1.2]) accepted the array; allowed values are [[0, 0.6], [1.0, 1.6]]')
print('REPLAY-VIOLATION')
sys.exit(1)
