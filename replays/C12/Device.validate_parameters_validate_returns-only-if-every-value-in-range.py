#!/venv/bin/python
# replay for failed obligation 'Device.validate_parameters/validate/returns-only-if-every-value-in-range' (property C12)
# case: ''; solver: z3
# verifier output (counter-model):
#   a_hi0 = 0
#   a_hi1 = 0
#   a_lo0 = 0
#   a_lo1 = 0
#   a_val = 0
#   b00 = 0
#   b01 = -1
#   b10 = -2
#   b2 = -3
#   b_hi0 = -300001/100000
#   b_hi1 = 1/100000
#   b_lo0 = -300001/100000
#   b_lo1 = 1/100000
import sys
print('obligation Device.validate_parameters/validate/returns-only-if-every-value-in-range is not discharged on this tree; no failing concrete input was constructed')
print('no-failing-input-found')
sys.exit(1)
