# replay of a bounded stand-in violation (C12): re-run native/c12_hw.py
import sys
print('Xunitary n=4 squeezers=repeated-on-two-pairs unitary=swap interleaved=False: compiled program prepares a different Gaussian state (max moment difference 1.23)')
print('REPLAY-VIOLATION')
sys.exit(1)
