# replay of a bounded stand-in violation (C12): re-run native/c12_hw.py
import sys
print('Xunitary n=4 squeezers=repeated-on-all-pairs unitary=swap interleaved=False: raised IndexError: pop index out of range')
print('REPLAY-VIOLATION')
sys.exit(1)
