#!/venv/bin/python
# replay for failed obligation 'Borealis.update_params/timebins=3/loop2/bin2/requested-phase-plus-accumulated-offset-mod-pi' (property C12)
# case: ''; solver: z3
# verifier output (counter-model):
#   modq = 0
#   modq!1 = 0
#   modq!2 = 0
#   modq!3 = 0
#   modq!4 = 0
#   modq!5 = 0
#   modq!6 = 0
#   modq!7 = 0
#   modq!8 = 0
#   modr = 0
#   modr!1 = 0
#   modr!2 = 0
#   modr!3 = 8567477042468103/2500000000000000
#   modr!4 = 0
#   modr!5 = 0
#   modr!6 = 11067477042468103/2500000000000000
#   modr!7 = 0
#   modr!8 = 0
#   offset0 = -8567477042468103/5000000000000000
#   offset1 = 8567477042468103/2500000000000000
#   phi0_0 = 0
#   phi0_1 = 8567477042468103/5000000000000000
#   phi0_2 = 8567477042468103/2500000000000000
#   phi1_0 = 8567477042468103/2500000000000000
#   phi1_1 = -8567477042468103/5000000000000000
#   phi1_2 = -8567477042468103/1250000000000000
#   phi2_0 = 11067477042468103/2500000000000000
#   phi2_1 = -8567477042468103/5000000000000000
#   phi2_2 = 0
import sys
print('obligation Borealis.update_params/timebins=3/loop2/bin2/requested-phase-plus-accumulated-offset-mod-pi is not discharged on this tree; no failing concrete input was constructed')
print('no-failing-input-found')
sys.exit(1)
