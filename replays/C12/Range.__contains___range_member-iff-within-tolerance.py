#!/venv/bin/python
# replay for failed obligation 'Range.__contains__/range/member-iff-within-tolerance' (property C12)
# case: ''; solver: z3
# verifier output (counter-model):
#   atol = 0
#   item = 0
#   x = 0
#   y = 0
import sys
print('obligation Range.__contains__/range/member-iff-within-tolerance is not discharged on this tree; no failing concrete input was constructed')
print('no-failing-input-found')
sys.exit(1)
