#!/venv/bin/python
# replay for failed obligation 'Borealis.update_params/timebins=2/loop1/bin1/within-modulator-range' (property C12)
# case: ''; solver: z3
# verifier output (counter-model):
#   modq = 0
#   modq!1 = 0
#   modq!2 = 0
#   modq!3 = 0
#   modq!4 = 0
#   modq!5 = 0
#   modr = 0
#   modr!1 = 0
#   modr!2 = 35342917352885171/10000000000000000
#   modr!3 = 43196898986859653/10000000000000000
#   modr!4 = 35342917352885171/10000000000000000
#   modr!5 = 0
#   offset0 = -43196898986859653/10000000000000000
#   phi0_0 = 0
#   phi0_1 = 43196898986859653/10000000000000000
#   phi1_0 = 35342917352885171/10000000000000000
#   phi1_1 = 0
#   phi2_0 = 35342917352885171/10000000000000000
#   phi2_1 = 0
import sys
print('obligation Borealis.update_params/timebins=2/loop1/bin1/within-modulator-range is not discharged on this tree; no failing concrete input was constructed')
print('no-failing-input-found')
sys.exit(1)
