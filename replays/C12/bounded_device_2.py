# replay of a bounded stand-in violation (C12): re-run native/c12_device.py
import sys
print("a source with squeezing phase 0.3 not offered by the device was accepted for the device: [('S2gate', [0.7, 0.3]), ('S2gate', [0.7, 0.0])]")
print('REPLAY-VIOLATION')
sys.exit(1)
