# replay of a bounded stand-in violation (C12): re-run native/c12_hw.py
import sys
print('Xunitary n=4 squeezers=repeated-on-all-pairs unitary=haar interleaved=True: compiled program prepares a different Gaussian state (max moment difference 0.526)')
print('REPLAY-VIOLATION')
sys.exit(1)
