#!/venv/bin/python
# replay for failed obligation 'Borealis.update_params/timebins=2/loop2/bin1/requested-phase-plus-accumulated-offset-mod-pi' (property C12)
# case: ''; solver: z3
# verifier output (counter-model):
#   modq = 0
#   modq!1 = 0
#   modq!2 = 0
#   modq!3 = 0
#   modq!4 = 0
#   modq!5 = 0
#   modr = 0
#   modr!1 = 0
#   modr!2 = 9817477042468103/2500000000000000
#   modr!3 = 9817477042468103/2500000000000000
#   modr!4 = 9817477042468103/2500000000000000
#   modr!5 = 7853981633974483/5000000000000000
#   offset0 = -9817477042468103/2500000000000000
#   phi0_0 = 0
#   phi0_1 = 9817477042468103/2500000000000000
#   phi1_0 = 9817477042468103/2500000000000000
#   phi1_1 = 0
#   phi2_0 = 9817477042468103/2500000000000000
#   phi2_1 = -11780972450961723/5000000000000000
import sys
print('obligation Borealis.update_params/timebins=2/loop2/bin1/requested-phase-plus-accumulated-offset-mod-pi is not discharged on this tree; no failing concrete input was constructed')
print('no-failing-input-found')
sys.exit(1)
