#!/venv/bin/python
# replay for failed obligation 'Ranges.__contains__/ranges/member-iff-in-some-range' (property C12)
# case: ''; solver: z3
# verifier output (counter-model):
#   item = 0
#   p_hi0 = -100001/100000
#   p_hi1 = -100001/100000
#   p_hi2 = 1/100000
#   p_lo0 = -100001/100000
#   p_lo1 = -100001/100000
#   p_lo2 = 1/100000
import sys
print('obligation Ranges.__contains__/ranges/member-iff-in-some-range is not discharged on this tree; no failing concrete input was constructed')
print('no-failing-input-found')
sys.exit(1)
