# replay of a bounded stand-in violation (C17/C02): re-run native/c17_decomp.py
import sys
print('Interferometer(mesh=rectangular_compact) decomposed with the option mesh=rectangular_symmetric on haar0 (n=4): the circuit implements a unitary that differs from the input by 1.24')
print('REPLAY-VIOLATION')
sys.exit(1)
