# replay of a bounded stand-in violation (C17/C02): re-run native/c17_decomp.py
import sys
print('bloch_messiah on one-squeezed (n=3, 2 unsqueezed modes): reconstruction 8.9e-16, orthogonal-symplectic structure error 0.83, diagonal error 5.4e-16')
print('REPLAY-VIOLATION')
sys.exit(1)
