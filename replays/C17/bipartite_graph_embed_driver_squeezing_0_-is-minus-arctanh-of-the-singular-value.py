#!/venv/bin/python
# replay for failed obligation 'bipartite_graph_embed/driver/squeezing[0]-is-minus-arctanh-of-the-singular-value' (property C17)
# case: ''; solver: z3
# verifier output (counter-model):
#   /0 = [else ->
#       If(Or(And(Var(0) == 0, Var(1) == 1),
#             Not(And(Var(0) == 1/2, Var(1) == 0.8660254037?))),
#          0,
#          0.5773502691?)]
#   A00_im = 0
#   A00_re = 0
#   A01_im = 0
#   A01_re = 0
#   A10_im = 0
#   A10_re = 0
#   A11_im = 0
#   A11_re = 0
#   atanh = 1
#   atanh!1 = 0
#   atanh!2 = 1/2
#   mean_photon = 1
#   s0 = 1/2
#   s1 = 0
#   scale = 1
#   sqrt = 0
#   sqrt!1 = 0
#   sqrt!10 = 0
#   sqrt!11 = 0
#   sqrt!2 = 0
#   sqrt!3 = 0
#   sqrt!4 = 0
#   sqrt!5 = 0
#   sqrt!6 = 0.8660254037?
#   sqrt!7 = 1
#   sqrt!8 = 0
#   sqrt!9 = 0
import sys
print('obligation bipartite_graph_embed/driver/squeezing[0]-is-minus-arctanh-of-the-singular-value is not discharged on this tree; no failing concrete input was constructed')
print('no-failing-input-found')
sys.exit(1)
