#!/venv/bin/python
# replay for failed obligation 'bipartite_graph_embed/driver/hermitian-input/callee-precondition.takagi.argument-symmetric[0,1]' (property C17)
# case: ''; solver: z3
# verifier output (counter-model):
#   /0 = [else -> 0]
#   a = 0
#   atanh = 0
#   atanh!1 = 0
#   b = 0
#   c = 2
#   d = 0
#   mean_photon = 1
#   s0 = 0
#   s1 = 0
#   scale = 1
#   sqrt = 0
#   sqrt!1 = 2
#   sqrt!2 = 0
#   sqrt!3 = 1
#   sqrt!4 = 1
#   sqrt!5 = 4
#   sqrt!6 = 2
#   sqrt!7 = 4
I = {'A00': 0j, 'A01': 0j, 'A10': 0j, 'A11': 0j, 'a': 0.0, 'b': 0.0, 'c': 2.0, 'd': 0.0, 'mean_photon': 1.0, 'scale': 1.0, 's0': 0.0, 's1': 0.0, 'U00': 0j, 'U01': 0j, 'U10': 0j, 'U11': 0j, 'Vh00': 0j, 'Vh01': 0j, 'Vh10': 0j, 'Vh11': 0j}
OBLIGATION = 'bipartite_graph_embed/driver/hermitian-input/callee-precondition.takagi.argument-symmetric[0,1]'

import sys
def violated(msg):
    print("REPLAY-VIOLATION", OBLIGATION, "-", msg)
    sys.exit(1)
from native.c17_decomp import replay_bipartite; replay_bipartite(OBLIGATION, I)
