# replay of a bounded stand-in violation (C17/C02): re-run native/c17_decomp.py
import sys
print('graph_embed on disconnected make_traceless (n=2, mean photon 1.3): U tanh(r) U^T proportional to the embedded matrix: True; mean photon per mode 0.22034')
print('REPLAY-VIOLATION')
sys.exit(1)
