# replay of a bounded stand-in violation (C17/C02): re-run native/c17_decomp.py
import sys
print('bloch_messiah on one-squeezed (n=3, 2 unsqueezed modes): reconstruction 2.4e-15, orthogonal-symplectic structure error 0.88, diagonal error 5.8e-16')
print('REPLAY-VIOLATION')
sys.exit(1)
