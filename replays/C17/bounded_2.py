# replay of a bounded stand-in violation (C17/C02): re-run native/c17_decomp.py
import sys
print('bipartite_graph_embed on complex Hermitian (n=2) rejected a valid input: ValueError: The input matrix is not symmetric')
print('REPLAY-VIOLATION')
sys.exit(1)
