# replay of a bounded stand-in violation (C17/C02): re-run native/c17_decomp.py
import sys
print('bloch_messiah on partially-degenerate (n=2, 0 unsqueezed modes): reconstruction 2.7e-15, orthogonal-symplectic structure error 2, diagonal error 1.1e-15')
print('REPLAY-VIOLATION')
sys.exit(1)
