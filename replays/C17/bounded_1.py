# replay of a bounded stand-in violation (C17/C02): re-run native/c17_decomp.py
import sys
print('Interferometer(mesh=sun_compact) on block2+id (n=4, det=1.000000+0.000000j) raised ValueError: Input matrix must have determinant 1 to be decomposed into SU(2) parameters.')
print('REPLAY-VIOLATION')
sys.exit(1)
