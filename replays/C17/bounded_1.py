# replay of a bounded stand-in violation (C17/C02): re-run native/c17_decomp.py
import sys
print('Interferometer(mesh=sun_compact) on perm(1, 0, 2, 3) (n=4): decomposed circuit implements a unitary that differs from the input by 1.41')
print('REPLAY-VIOLATION')
sys.exit(1)
