# replay of a bounded stand-in violation (C17/C02): re-run native/c17_decomp.py
import sys
print('bloch_messiah on equal (n=3, 0 unsqueezed modes): reconstruction 3.1e-15, orthogonal-symplectic structure error 1.3, diagonal error 5.3e-16')
print('REPLAY-VIOLATION')
sys.exit(1)
