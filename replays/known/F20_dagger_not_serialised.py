"""F20 (C14): neither to_blackbird nor to_xir writes the dagger flag (and neither IR reader could restore it): a daggered
gate is saved as the plain gate, so the loaded program applies the opposite transformation."""
import os, sys
sys.path.insert(0, os.path.dirname(__file__))
from _util import done
import strawberryfields as sf
from strawberryfields import ops

prog = sf.Program(1)
with prog.context as q:
    ops.Rgate(0.4).H | q[0]
bad = []
for ir in ("blackbird", "xir"):
    text = (sf.io.to_blackbird(prog) if ir == "blackbird" else sf.io.to_xir(prog)).serialize()
    loaded = sf.io.loads(text, ir=ir)
    op = loaded.circuit[0].op
    if not (op.dagger or float(op.p[0]) == -0.4):
        bad.append(f"{ir}: Rgate(0.4).H loaded as {op}")
done(bool(bad), "; ".join(bad) or "daggered gate survives both IRs")
