"""F36 (C02): MZgate(phi_in, phi_ex).H applied natively (Fock backend: Gate.apply negates p[0]) is not
the inverse of MZgate; the Gaussian backend (which decomposes) applies the true inverse."""
import os, sys
sys.path.insert(0, os.path.dirname(__file__))
from _util import done
import numpy as np, strawberryfields as sf
from strawberryfields import ops

def run(backend, **kw):
    prog = sf.Program(2)
    with prog.context as q:
        ops.Dgate(0.4, 0.3) | q[0]
        ops.Sgate(0.3) | q[1]
        ops.MZgate(0.7, 0.4) | (q[0], q[1])
        ops.MZgate(0.7, 0.4).H | (q[0], q[1])
    s = sf.Engine(backend, backend_options=kw).run(prog).state
    return np.array([s.quad_expectation(m, a)[0] for m in (0, 1) for a in (0, np.pi / 2)])

def ref(backend, **kw):
    prog = sf.Program(2)
    with prog.context as q:
        ops.Dgate(0.4, 0.3) | q[0]
        ops.Sgate(0.3) | q[1]
    s = sf.Engine(backend, backend_options=kw).run(prog).state
    return np.array([s.quad_expectation(m, a)[0] for m in (0, 1) for a in (0, np.pi / 2)])

f = run("fock", cutoff_dim=20)
r = ref("fock", cutoff_dim=20)
g = run("gaussian")
err_f = abs(f - r).max()
err_g = abs(g - ref("gaussian")).max()
done(err_f > 1e-3 and err_g < 1e-9,
     f"MZgate(0.7,0.4) followed by MZgate(0.7,0.4).H is not the identity on the fock backend (quadrature means off by {err_f:.3f}; gaussian backend: {err_g:.1e})")
