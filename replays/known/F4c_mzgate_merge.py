"""F4c (C03): Gate.merge adds the first parameters of two MZgates, but MZ(a,p) followed by MZ(b,p) is not MZ(a+b,p)
(the existing test-suite pins this merge behaviour, so it is recorded rather than repaired)."""
import os, sys
sys.path.insert(0, os.path.dirname(__file__))
from _util import done
import numpy as np
from strawberryfields import ops

def U(pin, pex):
    v, u = np.exp(1j * pin), np.exp(1j * pex)
    return 0.5 * np.array([[u * (v - 1), 1j * (1 + v)], [1j * u * (1 + v), 1 - v]])   # documented MZgate unitary

a, b, p = 0.4, 0.9, 0.3
m = ops.MZgate(a, p).merge(ops.MZgate(b, p))
err = abs(U(*[float(x) for x in m.p]) - U(b, p) @ U(a, p)).max()
done(err > 1e-3, f"MZgate({a},{p}).merge(MZgate({b},{p})) = MZgate({float(m.p[0]):.2f},{float(m.p[1]):.2f}) whose documented unitary differs from the composition by {err:.3f}")
