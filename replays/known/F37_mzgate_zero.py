"""F37 (C02): MZgate(0, phi_ex) is skipped by Gate.apply (p[0]==0 'is the identity') on backends that
apply it natively, although its documented unitary U(0, phi_ex) is a swap with phases."""
import os, sys
sys.path.insert(0, os.path.dirname(__file__))
from _util import done
import numpy as np, strawberryfields as sf
from strawberryfields import ops

def run(backend, **kw):
    prog = sf.Program(2)
    with prog.context as q:
        ops.Dgate(0.4, 0.3) | q[0]
        ops.MZgate(0.0, 0.4) | (q[0], q[1])
    s = sf.Engine(backend, backend_options=kw).run(prog).state
    return np.array([s.mean_photon(0)[0], s.mean_photon(1)[0]])

f = run("fock", cutoff_dim=15)
g = run("gaussian")
done(abs(f - g).max() > 1e-3 and g[1] > 0.1,
     f"MZgate(0, 0.4) on a coherent state: mean photons fock={f.round(4).tolist()} gaussian={g.round(4).tolist()} (documented: the photons move to mode 1)")
