import sys, warnings
warnings.filterwarnings("ignore")
def done(violated, msg):
    if violated:
        print("REPLAY-VIOLATION", msg)
        sys.exit(1)
    print("not reproduced:", msg)
    sys.exit(0)
