"""F42 (C16): BaseBosonicState.fock_prob / reduced_dm feed the complex-valued means of a multi-component state
(default 'complex' representation of Catstate) to thewalrus routines that conjugate the means as if they were real:
the interference terms vanish and the photon statistics of the incoherent mixture are returned, contradicting
parity_expectation / mean_photon of the same state, the 'real' representation and the Fock backend."""
import os, sys
sys.path.insert(0, os.path.dirname(__file__))
from _util import done
import numpy as np
import strawberryfields as sf
from strawberryfields import ops
from math import factorial

a = 0.9
prog = sf.Program(1)
with prog.context as q:
    ops.Catstate(a, 0.0, 0) | q[0]                   # even cat: only even photon numbers
st = sf.Engine("bosonic").run(prog).state
p1 = float(st.fock_prob([1]))
par = float(np.real(st.parity_expectation([0])))
rho = st.reduced_dm([0], cutoff=12)
par_dm = float(sum((-1) ** n * rho[n, n].real for n in range(12)))
done(abs(p1) > 1e-3 or abs(par - par_dm) > 1e-3,
     f"even cat state (a={a}) on the bosonic backend: fock_prob([1]) = {p1:.4f} (exact 0), parity_expectation = {par:.4f} but "
     f"sum (-1)^n reduced_dm[n,n] = {par_dm:.4f}")
