"""F14 (C11): the gaussian_unitary and passive compilers ignore the dagger flag of the gates they merge."""
import os, sys
sys.path.insert(0, os.path.dirname(__file__))
from _util import done
import numpy as np, strawberryfields as sf
from strawberryfields import ops

prog = sf.Program(1)
with prog.context as q:
    ops.Sgate(0.5).H | q[0]
c = prog.compile(compiler="gaussian_unitary")
S = c.circuit[0].op.p[0]
# documented: S(r).H = S(-r): x -> e^{+r} x
done(abs(S[0, 0] - np.exp(0.5)) > 1e-6 and abs(S[0, 0] - np.exp(-0.5)) < 1e-9,
     f"Sgate(0.5).H compiled by gaussian_unitary to a transform with S[0,0]={S[0,0]:.4f} (that of Sgate(0.5)); the inverse has {np.exp(0.5):.4f}")
