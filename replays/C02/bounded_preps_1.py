# replay of a bounded stand-in violation (C02): re-run native/c02_preps.py
import sys
print('Gaussian(pure diagonal V_xx=2.226) on modes [0]: decomposed and natively applied operation give different states (max difference 1.78)')
print('REPLAY-VIOLATION')
sys.exit(1)
