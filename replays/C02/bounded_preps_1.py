# replay of a bounded stand-in violation (C02): re-run native/c02_preps.py
import sys
print('sMZgate._decompose puts one operation object into several commands (inverting the decomposition flips its flag twice)')
print('REPLAY-VIOLATION')
sys.exit(1)
