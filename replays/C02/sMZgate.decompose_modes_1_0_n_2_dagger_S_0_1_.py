#!/venv/bin/python
# replay for failed obligation 'sMZgate.decompose/modes=1,0/n=2/dagger/S[0,1]' (property C02)
# case: ''; solver: z3
# verifier output (counter-model):
#   cs_c = 0
#   cs_c!1 = -1
#   cs_s = 1
#   cs_s!1 = 0
#   p0 = 7853981633974483/5000000000000000
#   p1 = 12853981633974483/5000000000000000
#   sqrt2h = 0.7071067811?
I = {'p0': 1.5707963267948966, 'p1': 2.5707963267948966, 'cls': 'sMZgate', 'modes': [1, 0], 'n': 2, 'dagger': True, 'nparams': 2}
OBLIGATION = 'sMZgate.decompose/modes=1,0/n=2/dagger/S[0,1]'

import sys
def violated(msg):
    print("REPLAY-VIOLATION", OBLIGATION, "-", msg)
    sys.exit(1)
from native.c01_backends import replay_decomposition; replay_decomposition(OBLIGATION, I)
