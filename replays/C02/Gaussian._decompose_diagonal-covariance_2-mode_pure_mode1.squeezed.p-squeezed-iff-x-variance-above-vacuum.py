#!/venv/bin/python
# replay for failed obligation 'Gaussian._decompose/diagonal-covariance/2-mode/pure/mode1.squeezed.p-squeezed-iff-x-variance-above-vacuum' (property C02)
# case: ''; solver: z3
# verifier output (counter-model):
#   /0 = [(1, 1/2) -> 2, (1, 2) -> 1/2, else -> 0]
#   D0 = 2
#   D1 = 1/2
#   D2 = 1/2
#   D3 = 2
#   log = 1
#   log!1 = -1
#   r0 = 1
#   r1 = 1
#   r2 = 1
#   r3 = 1
import sys
print('obligation Gaussian._decompose/diagonal-covariance/2-mode/pure/mode1.squeezed.p-squeezed-iff-x-variance-above-vacuum is not discharged on this tree; no failing concrete input was constructed')
print('no-failing-input-found')
sys.exit(1)
