# replay of a bounded stand-in violation (C02): re-run native/c02_preps.py
import sys
print('Gaussian(diagonal V_xx=1.0, V_pp=2.5) on modes [2]: decomposed and natively applied operation give different states (max difference 1.5)')
print('REPLAY-VIOLATION')
sys.exit(1)
