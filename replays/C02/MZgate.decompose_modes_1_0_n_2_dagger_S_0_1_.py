#!/venv/bin/python
# replay for failed obligation 'MZgate.decompose/modes=1,0/n=2/dagger/S[0,1]' (property C02)
# case: ''; solver: z3
# verifier output (counter-model):
#   cs_c = 0
#   cs_c!1 = 1
#   cs_s = -1
#   cs_s!1 = 0
#   p0 = 1
#   p1 = 0
#   sqrt2h = 0.7071067811?
I = {'p0': 1.0, 'p1': 0.0, 'cls': 'MZgate', 'modes': [1, 0], 'n': 2, 'dagger': True, 'nparams': 2}
OBLIGATION = 'MZgate.decompose/modes=1,0/n=2/dagger/S[0,1]'

import sys
def violated(msg):
    print("REPLAY-VIOLATION", OBLIGATION, "-", msg)
    sys.exit(1)
from native.c01_backends import replay_decomposition; replay_decomposition(OBLIGATION, I)
