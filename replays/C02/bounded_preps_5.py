# replay of a bounded stand-in violation (C02): re-run native/c02_preps.py
import sys
print('BipartiteGraphEmbed(mean_photon_per_mode=1.7, edges=True) on modes (0, 1, 2, 3): total mean photon number 4.00000, requested 6.8')
print('REPLAY-VIOLATION')
sys.exit(1)
