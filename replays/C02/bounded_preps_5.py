# replay of a bounded stand-in violation (C02): re-run native/c02_preps.py
import sys
print('Gaussian(rotated squeezed r=0.4, phi=3.142) on modes [0]: decomposed and natively applied operation give different states (max difference 1.78)')
print('REPLAY-VIOLATION')
sys.exit(1)
