# replay of a bounded stand-in violation (C02): re-run native/c02_preps.py
import sys
print('Gaussian(diagonal V_xx=0.9, V_pp=3.6) on modes [2]: decomposed and natively applied operation give different states (max difference 2.6)')
print('REPLAY-VIOLATION')
sys.exit(1)
