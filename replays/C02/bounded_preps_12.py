# replay of a bounded stand-in violation (C02): re-run native/c02_preps.py
import sys
print('Gaussian(diagonal product (2.4,2.4) x (2.7,0.8)) on modes [0, 1]: decomposed and natively applied operation give different states (max difference 1.9)')
print('REPLAY-VIOLATION')
sys.exit(1)
