# replay of a bounded stand-in violation (C02): re-run native/c02_preps.py
import sys
print('Gaussian(rotated squeezed r=1.0, phi=2.356) on modes [0]: decomposed and natively applied operation give different states (max difference 5.13)')
print('REPLAY-VIOLATION')
sys.exit(1)
