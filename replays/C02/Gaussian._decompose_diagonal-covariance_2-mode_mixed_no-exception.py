#!/venv/bin/python
# replay for failed obligation 'Gaussian._decompose/diagonal-covariance/2-mode/mixed/no-exception' (property C02)
# case: ''; solver: z3
# verifier output (counter-model):
#   D0 = 1
#   D1 = 1
#   D2 = 2
#   D3 = 2
#   williamson_nbar0 = -1
#   williamson_nbar1 = -1
import sys
print('obligation Gaussian._decompose/diagonal-covariance/2-mode/mixed/no-exception is not discharged on this tree; no failing concrete input was constructed')
print('no-failing-input-found')
sys.exit(1)
