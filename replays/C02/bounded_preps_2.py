# replay of a bounded stand-in violation (C02): re-run native/c02_preps.py
import sys
print('BipartiteGraphEmbed(mean_photon_per_mode=0.25, edges=True) on modes (1, 3, 0, 2): total mean photon number 4.00000, requested 1.0')
print('REPLAY-VIOLATION')
sys.exit(1)
