# replay of a bounded stand-in violation (C02): re-run native/c02_preps.py
import sys
print('sMZgate(0.4, 1.3) followed by its .H form on modes (0, 1) (gaussian backend) is not the identity (max moment change 0.677)')
print('REPLAY-VIOLATION')
sys.exit(1)
