#!/venv/bin/python
# replay for failed obligation 'sMZgate.decompose/modes=0,1/n=2/dagger/S[3,0]' (property C02)
# case: ''; solver: z3
# verifier output (counter-model):
#   cs_c = 0
#   cs_c!1 = 0
#   cs_s = 1
#   cs_s!1 = 1
#   p0 = 7853981633974483/5000000000000000
#   p1 = 7853981633974483/5000000000000000
#   sqrt2h = 0.7071067811?
import sys
print('obligation sMZgate.decompose/modes=0,1/n=2/dagger/S[3,0] is not discharged on this tree; no failing concrete input was constructed')
print('no-failing-input-found')
sys.exit(1)
