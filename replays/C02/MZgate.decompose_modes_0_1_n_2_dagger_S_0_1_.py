#!/venv/bin/python
# replay for failed obligation 'MZgate.decompose/modes=0,1/n=2/dagger/S[0,1]' (property C02)
# case: ''; solver: z3
# verifier output (counter-model):
#   cs_c = 1
#   cs_c!1 = 0
#   cs_s = 0
#   cs_s!1 = -1
#   p0 = 0
#   p1 = 1
#   sqrt2h = 0.7071067811?
I = {'p0': 0.0, 'p1': 1.0, 'cls': 'MZgate', 'modes': [0, 1], 'n': 2, 'dagger': True, 'nparams': 2}
OBLIGATION = 'MZgate.decompose/modes=0,1/n=2/dagger/S[0,1]'

import sys
def violated(msg):
    print("REPLAY-VIOLATION", OBLIGATION, "-", msg)
    sys.exit(1)
from native.c01_backends import replay_decomposition; replay_decomposition(OBLIGATION, I)
