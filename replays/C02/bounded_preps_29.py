# replay of a bounded stand-in violation (C02): re-run native/c02_preps.py
import sys
print('Gaussian(two rotated blocks, phi=3.142) on modes [2, 0]: decomposed and natively applied operation give different states (max difference 2.35)')
print('REPLAY-VIOLATION')
sys.exit(1)
