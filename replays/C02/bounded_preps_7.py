# replay of a bounded stand-in violation (C02): re-run native/c02_preps.py
import sys
print('Gaussian(diagonal V_xx=3.6, V_pp=0.9) on modes [2]: decomposed and natively applied operation give different states (max difference 2.7)')
print('REPLAY-VIOLATION')
sys.exit(1)
