#!/venv/bin/python
# replay for failed obligation 'MZgate.decompose/modes=0,1/n=2/dagger/S[3,0]' (property C02)
# case: ''; solver: z3
# verifier output (counter-model):
#   cs_c = 1
#   cs_c!1 = 1
#   cs_s = 0
#   cs_s!1 = 0
#   p0 = 0
#   p1 = 0
#   sqrt2h = 0.7071067811?
import sys
print('obligation MZgate.decompose/modes=0,1/n=2/dagger/S[3,0] is not discharged on this tree; no failing concrete input was constructed')
print('no-failing-input-found')
sys.exit(1)
