# replay of a bounded stand-in violation (C02): re-run native/c02_preps.py
import sys
print('Gaussian(two rotated blocks, phi=1.571) on modes [0, 1]: decomposed and natively applied operation give different states (max difference 1.13)')
print('REPLAY-VIOLATION')
sys.exit(1)
