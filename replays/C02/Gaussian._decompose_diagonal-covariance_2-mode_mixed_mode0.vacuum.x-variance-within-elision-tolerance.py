#!/venv/bin/python
# replay for failed obligation 'Gaussian._decompose/diagonal-covariance/2-mode/mixed/mode0.vacuum.x-variance-within-elision-tolerance' (property C02)
# case: ''; solver: z3
# verifier output (counter-model):
#   D0 = 1/2
#   D1 = 3
#   D2 = 3
#   D3 = 2
#   r0 = 1
#   r1 = 1
#   r2 = 1
#   r3 = 1
import sys
print('obligation Gaussian._decompose/diagonal-covariance/2-mode/mixed/mode0.vacuum.x-variance-within-elision-tolerance is not discharged on this tree; no failing concrete input was constructed')
print('no-failing-input-found')
sys.exit(1)
