#!/venv/bin/python
# replay for failed obligation 'Gate.apply-convention/MZgate/neg-is-inverse/S[3,2]' (property C02)
# case: ''; solver: z3
# verifier output (counter-model):
#   cs_c = 0
#   cs_c!1 = 1
#   cs_s = -1
#   cs_s!1 = 0
#   p0 = 1
#   p1 = 0
import sys
print('obligation Gate.apply-convention/MZgate/neg-is-inverse/S[3,2] is not discharged on this tree; no failing concrete input was constructed')
print('no-failing-input-found')
sys.exit(1)
