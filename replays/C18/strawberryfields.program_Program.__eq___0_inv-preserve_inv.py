#!/venv/bin/python
# replay for failed obligation 'strawberryfields.program:Program.__eq__#0/inv-preserve/inv' (property C18)
# case: ''; solver: z3
# verifier output (counter-model):
#   cls_a = [else -> If(0 <= Var(0), 3, 16)]
#   cls_b = [else -> If(0 <= Var(0), 3, 23)]
#   comp = [else -> True]
#   comp!1 = [else -> False]
#   comp_len = 0
#   comp_len!1 = 0
#   dag_a = [else -> False]
#   dag_b = [else -> False]
#   inv_i!sk3 = 0
#   inv_j!sk4 = -1
#   it = 0
#   len_a = 1
#   len_b = 1
#   loopfork = True
#   np_a = [else -> If(0 <= Var(0), 0, 22)]
#   np_b = [else -> If(0 <= Var(0), 0, 19)]
#   nr_a = [else -> If(0 <= Var(0), 0, 18)]
#   nr_b = [else -> If(0 <= Var(0), 0, 25)]
#   p_a = [else -> 3]
#   p_b = [else -> 2]
#   r_a = [else -> 21]
#   r_b = [else -> 20]
#   selnone_a = [else -> False]
#   selnone_b = [else -> False]
#   selval_a = [else -> If(0 <= Var(0), 5, 24)]
#   selval_b = [else -> If(0 <= Var(0), 6, 17)]
#   target_a = 0
#   target_b = 0
I = {'len_a': 1, 'len_b': 1, 'target_a': 0, 'target_b': 0}
OBLIGATION = 'strawberryfields.program:Program.__eq__#0/inv-preserve/inv'

import sys
def violated(msg):
    print("REPLAY-VIOLATION", OBLIGATION, "-", msg)
    sys.exit(1)
from native.c18_eq import replay; replay('eq', OBLIGATION, I)
