#!/venv/bin/python
# replay for failed obligation 'program_equivalence/labelled-graph/circuit0-vs-circuit0/b.Sgate.node-carries-its-own-inverse-flag' (property C18)
# case: ''; solver: z3
# verifier output (counter-model):
#   b0_dagger = False
#   b1_dagger = True
import sys
print('obligation program_equivalence/labelled-graph/circuit0-vs-circuit0/b.Sgate.node-carries-its-own-inverse-flag is not discharged on this tree; no failing concrete input was constructed')
print('no-failing-input-found')
sys.exit(1)
