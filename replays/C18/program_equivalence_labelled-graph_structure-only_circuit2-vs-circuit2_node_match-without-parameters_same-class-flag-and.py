#!/venv/bin/python
# replay for failed obligation 'program_equivalence/labelled-graph/structure-only/circuit2-vs-circuit2/node_match-without-parameters<=>same-class-flag-and-modes' (property C18)
# case: ''; solver: z3
# verifier output (counter-model):
#   a2_p0 = 7853981633974483/10000000000000000
#   a2_p1 = 7853981633974483/5000000000000000
#   b2_p0 = 196347574853953581379/250000000000000000000
#   b2_p1 = 7853981633974483/5000000000000000
#   m1_dagger = False
#   m2_dagger = False
#   modq = 0
#   modq!1 = 0
#   modq!2 = 0
#   modq!3 = 0
#   modr = 7853981633974483/10000000000000000
#   modr!1 = 7853981633974483/5000000000000000
#   modr!2 = 196347574853953581379/250000000000000000000
#   modr!3 = 7853981633974483/5000000000000000
# native replay of the counter-model did not fail (rc=0): 'no failing input among 6516 tried'
import sys
print('obligation program_equivalence/labelled-graph/structure-only/circuit2-vs-circuit2/node_match-without-parameters<=>same-class-flag-and-modes is not discharged on this tree; no failing concrete input was constructed')
print('no-failing-input-found')
sys.exit(1)
