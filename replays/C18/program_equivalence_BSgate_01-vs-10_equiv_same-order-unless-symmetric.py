#!/venv/bin/python
# replay for failed obligation 'program_equivalence/BSgate/01-vs-10/equiv=>same-order-unless-symmetric' (property C18)
# case: ''; solver: z3
# verifier output (counter-model):
#   a_dagger = False
#   a_p0 = 3141593653589793/1000000000000000
#   a_p1 = -36041921708308900191/40000000000000000
#   b_dagger = False
#   b_p0 = 3141592653589793/1000000000000000
#   b_p1 = -36041921708308900191/40000000000000000
#   modq = 1
#   modq!1 = -287
#   modq!2 = 1
#   modq!3 = -287
#   modr = 1/1000000
#   modr!1 = 23561954901923449/40000000000000000
#   modr!2 = 0
#   modr!3 = 23561954901923449/40000000000000000
I = {'a_p0': 3.141593653589793, 'a_p1': -901.0480427077225, 'a_dagger': False, 'b_p0': 3.141592653589793, 'b_p1': -901.0480427077225, 'b_dagger': False}
OBLIGATION = 'program_equivalence/BSgate/01-vs-10/equiv=>same-order-unless-symmetric'

import sys
def violated(msg):
    print("REPLAY-VIOLATION", OBLIGATION, "-", msg)
    sys.exit(1)
from native.c18_eq import replay; replay('equiv', OBLIGATION, I)
