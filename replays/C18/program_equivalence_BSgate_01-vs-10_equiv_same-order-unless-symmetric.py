#!/venv/bin/python
# replay for failed obligation 'program_equivalence/BSgate/01-vs-10/equiv=>same-order-unless-symmetric' (property C18)
# case: ''; solver: z3
# verifier output (counter-model):
#   a_dagger = False
#   a_p0 = -746128265227575837/10000000000000000
#   a_p1 = -9039932880704629357/10000000000000000
#   b_dagger = False
#   b_p0 = -746128255227575837/10000000000000000
#   b_p1 = -9039932870704629357/10000000000000000
#   modq = -24
#   modq!1 = -288
#   modq!2 = -24
#   modq!3 = -288
#   modr = 7853971633974483/10000000000000000
#   modr!1 = 7853961633974483/10000000000000000
#   modr!2 = 7853981633974483/10000000000000000
#   modr!3 = 7853971633974483/10000000000000000
# native replay of the counter-model did not fail (rc=0): 'no failing input among 2321 tried'
import sys
print('obligation program_equivalence/BSgate/01-vs-10/equiv=>same-order-unless-symmetric is not discharged on this tree; no failing concrete input was constructed')
print('no-failing-input-found')
sys.exit(1)
