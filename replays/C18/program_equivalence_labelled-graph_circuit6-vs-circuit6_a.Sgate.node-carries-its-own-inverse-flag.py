#!/venv/bin/python
# replay for failed obligation 'program_equivalence/labelled-graph/circuit6-vs-circuit6/a.Sgate.node-carries-its-own-inverse-flag' (property C18)
# case: ''; solver: z3
# verifier output (counter-model):
#   a0_dagger = False
#   a2_dagger = True
I = {'a0_p0': 0.0, 'a0_p1': 0.0, 'a0_dagger': False, 'a2_p0': 0.0, 'a2_dagger': True, 'b0_p0': 0.0, 'b0_p1': 0.0, 'b0_dagger': False, 'b2_p0': 0.0, 'b2_dagger': False}
OBLIGATION = 'program_equivalence/labelled-graph/circuit6-vs-circuit6/a.Sgate.node-carries-its-own-inverse-flag'

import sys
def violated(msg):
    print("REPLAY-VIOLATION", OBLIGATION, "-", msg)
    sys.exit(1)
from native.c18_eq import replay; replay('multi', OBLIGATION, I)
