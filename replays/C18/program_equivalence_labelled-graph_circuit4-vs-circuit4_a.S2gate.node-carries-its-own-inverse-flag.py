#!/venv/bin/python
# replay for failed obligation 'program_equivalence/labelled-graph/circuit4-vs-circuit4/a.S2gate.node-carries-its-own-inverse-flag' (property C18)
# case: ''; solver: z3
# verifier output (counter-model):
#   a0_dagger = False
#   a1_dagger = True
#   a2_p0 = 1/200000000
#   b2_p0 = -1/100000000
I = {'a0_p0': 0.0, 'a0_p1': 0.0, 'a0_dagger': False, 'a1_p0': 0.0, 'a1_dagger': True, 'a2_p0': -1e-08, 'a2_dagger': False, 'b0_p0': 0.0, 'b0_p1': 0.0, 'b0_dagger': False, 'b1_p0': 0.0, 'b1_dagger': False, 'b2_p0': -1e-08, 'b2_dagger': False}
OBLIGATION = 'program_equivalence/labelled-graph/circuit4-vs-circuit4/a.S2gate.node-carries-its-own-inverse-flag'

import sys
def violated(msg):
    print("REPLAY-VIOLATION", OBLIGATION, "-", msg)
    sys.exit(1)
from native.c18_eq import replay; replay('multi', OBLIGATION, I)
