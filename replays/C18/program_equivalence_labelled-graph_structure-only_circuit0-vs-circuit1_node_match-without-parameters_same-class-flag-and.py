#!/venv/bin/python
# replay for failed obligation 'program_equivalence/labelled-graph/structure-only/circuit0-vs-circuit1/node_match-without-parameters<=>same-class-flag-and-modes' (property C18)
# case: ''; solver: z3
# verifier output (counter-model):
#   m1_dagger = False
#   m2_dagger = False
# native replay of the counter-model did not fail (rc=0): 'no failing input among 6516 tried'
import sys
print('obligation program_equivalence/labelled-graph/structure-only/circuit0-vs-circuit1/node_match-without-parameters<=>same-class-flag-and-modes is not discharged on this tree; no failing concrete input was constructed')
print('no-failing-input-found')
sys.exit(1)
