#!/venv/bin/python
# replay for failed obligation 'program_equivalence/labelled-graph/circuit4-vs-circuit5/b.CXgate.node-carries-its-own-inverse-flag' (property C18)
# case: ''; solver: z3
# verifier output (counter-model):
#   a2_p0 = 0
#   b0_dagger = False
#   b0_p0 = 0
#   b1_dagger = True
#   b1_p0 = 7853981633974483/10000000000000000
#   b1_p1 = 157078060883162865103/100000000000000000000
#   modq = 0
#   modq!1 = 0
#   modr = 7853981633974483/10000000000000000
#   modr!1 = 157078060883162865103/100000000000000000000
import sys
print('obligation program_equivalence/labelled-graph/circuit4-vs-circuit5/b.CXgate.node-carries-its-own-inverse-flag is not discharged on this tree; no failing concrete input was constructed')
print('no-failing-input-found')
sys.exit(1)
