#!/venv/bin/python
# replay for failed obligation 'program_equivalence/BSgate/10-vs-01/equiv=>same-order-unless-symmetric' (property C18)
# case: ''; solver: z3
# verifier output (counter-model):
#   a_dagger = False
#   a_p0 = -3141592653589793/1000000000000000
#   a_p1 = -7406304693337936997/10000000000000000
#   b_dagger = False
#   b_p0 = -3141592403589793/1000000000000000
#   b_p1 = -7406304683337936997/10000000000000000
#   modq = -1
#   modq!1 = -236
#   modq!2 = -1
#   modq!3 = -236
#   modr = 0
#   modr!1 = 7853969133974483/10000000000000000
#   modr!2 = 1/4000000
#   modr!3 = 7853979133974483/10000000000000000
I = {'a_p0': -3.141592653589793, 'a_p1': -740.6304693337937, 'a_dagger': False, 'b_p0': -3.141592403589793, 'b_p1': -740.6304683337937, 'b_dagger': False}
OBLIGATION = 'program_equivalence/BSgate/10-vs-01/equiv=>same-order-unless-symmetric'

import sys
def violated(msg):
    print("REPLAY-VIOLATION", OBLIGATION, "-", msg)
    sys.exit(1)
from native.c18_eq import replay; replay('equiv', OBLIGATION, I)
