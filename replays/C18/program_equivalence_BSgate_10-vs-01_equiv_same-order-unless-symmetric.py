#!/venv/bin/python
# replay for failed obligation 'program_equivalence/BSgate/10-vs-01/equiv=>same-order-unless-symmetric' (property C18)
# case: ''; solver: z3
# verifier output (counter-model):
#   a_dagger = False
#   a_p0 = 39269898169872413/10000000000000000
#   a_p1 = -6558074684368692887/10000000000000000
#   b_dagger = False
#   b_p0 = 39269908169872413/10000000000000000
#   b_p1 = -6558074674368692887/10000000000000000
#   modq = 1
#   modq!1 = -209
#   modq!2 = 1
#   modq!3 = -209
#   modr = 7853971633974483/10000000000000000
#   modr!1 = 7853961633974483/10000000000000000
#   modr!2 = 7853981633974483/10000000000000000
#   modr!3 = 7853971633974483/10000000000000000
I = {'a_p0': -3.141592653589793, 'a_p1': -674.657023608408, 'a_dagger': False, 'b_p0': -3.141591653589793, 'b_p1': -674.657022608408, 'b_dagger': False}
OBLIGATION = 'program_equivalence/BSgate/10-vs-01/equiv=>same-order-unless-symmetric'

import sys
def violated(msg):
    print("REPLAY-VIOLATION", OBLIGATION, "-", msg)
    sys.exit(1)
from native.c18_eq import replay; replay('equiv', OBLIGATION, I)
