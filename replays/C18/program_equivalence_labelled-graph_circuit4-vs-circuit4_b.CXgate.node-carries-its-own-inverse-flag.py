#!/venv/bin/python
# replay for failed obligation 'program_equivalence/labelled-graph/circuit4-vs-circuit4/b.CXgate.node-carries-its-own-inverse-flag' (property C18)
# case: ''; solver: z3
# verifier output (counter-model):
#   a2_p0 = -1/100000000
#   b1_dagger = True
#   b2_dagger = False
#   b2_p0 = -1/100000000
import sys
print('obligation program_equivalence/labelled-graph/circuit4-vs-circuit4/b.CXgate.node-carries-its-own-inverse-flag is not discharged on this tree; no failing concrete input was constructed')
print('no-failing-input-found')
sys.exit(1)
