#!/venv/bin/python
# replay for failed obligation 'program_equivalence/labelled-graph/circuit2-vs-circuit2/a.Rgate.node-carries-its-own-inverse-flag' (property C18)
# case: ''; solver: z3
# verifier output (counter-model):
#   a0_dagger = False
#   a1_dagger = True
#   a2_p0 = 7853981633974483/10000000000000000
#   a2_p1 = 7853981633974483/5000000000000000
#   b2_p0 = 7853981633974483/10000000000000000
#   b2_p1 = 157078060883162865103/100000000000000000000
#   modq = 0
#   modq!1 = 0
#   modq!2 = 0
#   modq!3 = 0
#   modr = 7853981633974483/10000000000000000
#   modr!1 = 7853981633974483/5000000000000000
#   modr!2 = 7853981633974483/10000000000000000
#   modr!3 = 157078060883162865103/100000000000000000000
I = {'a0_p0': 0.0, 'a0_dagger': False, 'a1_p0': 0.0, 'a1_p1': 0.0, 'a1_dagger': True, 'a2_p0': 0.7853981633974483, 'a2_p1': 1.5707963267948966, 'a2_dagger': False, 'b0_p0': 0.0, 'b0_dagger': False, 'b1_p0': 0.0, 'b1_p1': 0.0, 'b1_dagger': False, 'b2_p0': 0.7853981633974483, 'b2_p1': 1.5707806088316287, 'b2_dagger': False}
OBLIGATION = 'program_equivalence/labelled-graph/circuit2-vs-circuit2/a.Rgate.node-carries-its-own-inverse-flag'

import sys
def violated(msg):
    print("REPLAY-VIOLATION", OBLIGATION, "-", msg)
    sys.exit(1)
from native.c18_eq import replay; replay('multi', OBLIGATION, I)
