#!/venv/bin/python
# replay for failed obligation 'program_equivalence/labelled-graph/circuit4-vs-circuit4/a.CXgate.node-carries-its-own-inverse-flag' (property C18)
# case: ''; solver: z3
# verifier output (counter-model):
#   a1_dagger = True
#   a2_dagger = False
#   a2_p0 = 1/200000000
#   b2_p0 = -1/100000000
import sys
print('obligation program_equivalence/labelled-graph/circuit4-vs-circuit4/a.CXgate.node-carries-its-own-inverse-flag is not discharged on this tree; no failing concrete input was constructed')
print('no-failing-input-found')
sys.exit(1)
