#!/venv/bin/python
# replay for failed obligation 'program_equivalence/CXgate/01-vs-10/equiv=>same-order-unless-trivial' (property C18)
# case: ''; solver: z3
# verifier output (counter-model):
#   a_dagger = False
#   a_p0 = 199/100000000
#   b_dagger = False
#   b_p0 = 1/1000000
# native replay of the counter-model did not fail (rc=0): "note: battery input raised in the replay harness: ValueError('operands could not be broadcast together with shapes (2,) (0,) ')\nnote: battery input raised in the replay harness: ValueError('operands could not be broadcast together with shapes (2,) (0,) ')\nno failing input among 2321 tried"
import sys
print('obligation program_equivalence/CXgate/01-vs-10/equiv=>same-order-unless-trivial is not discharged on this tree; no failing concrete input was constructed')
print('no-failing-input-found')
sys.exit(1)
