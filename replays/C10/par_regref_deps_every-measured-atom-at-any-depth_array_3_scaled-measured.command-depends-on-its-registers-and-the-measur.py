#!/venv/bin/python
# replay for failed obligation 'par_regref_deps/every-measured-atom-at-any-depth/array[3]/scaled-measured.command-depends-on-its-registers-and-the-measured-registers' (property C10)
# case: ''; solver: z3
# verifier output (counter-model):
import sys
print('obligation par_regref_deps/every-measured-atom-at-any-depth/array[3]/scaled-measured.command-depends-on-its-registers-and-the-measured-registers is not discharged on this tree; no failing concrete input was constructed')
print('no-failing-input-found')
sys.exit(1)
