#!/venv/bin/python
# replay for failed obligation 'Operation.apply/symbolic-parameters-used-by-value-and-left-symbolic/every-natively-applied-class-has-an-argument-pattern' (property C10)
# case: ''; solver: z3
# verifier output (counter-model):
import sys
print('obligation Operation.apply/symbolic-parameters-used-by-value-and-left-symbolic/every-natively-applied-class-has-an-argument-pattern is not discharged on this tree; no failing concrete input was constructed')
print('no-failing-input-found')
sys.exit(1)
