#!/venv/bin/python
# replay for failed obligation 'Operation.apply/symbolic-parameters-used-by-value-and-left-symbolic/MeasureHomodyne.operation-object-untouched' (property C10)
# case: ''; solver: z3
# verifier output (counter-model):
#   choice_class = 13
import sys
print('obligation Operation.apply/symbolic-parameters-used-by-value-and-left-symbolic/MeasureHomodyne.operation-object-untouched is not discharged on this tree; no failing concrete input was constructed')
print('no-failing-input-found')
sys.exit(1)
