#!/venv/bin/python
# replay for failed obligation 'par_evaluate/par_eval/mixed-atoms.list-of-parameters' (property C10)
# case: ''; solver: z3
# verifier output (counter-model):
import sys
print('obligation par_evaluate/par_eval/mixed-atoms.list-of-parameters is not discharged on this tree; no failing concrete input was constructed')
print('no-failing-input-found')
sys.exit(1)
