#!/venv/bin/python
# replay for failed obligation 'par_evaluate/par_eval/mixed-atoms.(q0-g)/(q1+2*g).every-atom-gets-its-own-value' (property C10)
# case: ''; solver: z3
# verifier output (counter-model):
import sys
print('obligation par_evaluate/par_eval/mixed-atoms.(q0-g)/(q1+2*g).every-atom-gets-its-own-value is not discharged on this tree; no failing concrete input was constructed')
print('no-failing-input-found')
sys.exit(1)
