# replay of a bounded stand-in violation (C16): re-run native/c16_states.py
import sys
print('n=2 pure=False cat: quad_expectation(0,0.0) = [-0.02052, 0.67649] on bosonic, [-0.02052, 1.74967] on fock')
print('REPLAY-VIOLATION')
sys.exit(1)
