# replay of a bounded stand-in violation (C16): re-run native/c16_states.py
import sys
print('n=2 pure=False cat: quad_expectation(1,0.0) = [0.52073, 0.74787] on bosonic, [0.52073, 1.89214] on fock')
print('REPLAY-VIOLATION')
sys.exit(1)
