# replay of a bounded stand-in violation (C16): re-run native/c16_states.py
import sys
print('n=2 pure=True gaussian: photon statistics of mode 1 differ between fock [0.966, 0.0008, 0.0315, 0.0001] and gaussian [0.8317, 0.1518, 0.0046, 0.011]')
print('REPLAY-VIOLATION')
sys.exit(1)
