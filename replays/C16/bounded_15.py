# replay of a bounded stand-in violation (C16): re-run native/c16_states.py
import sys
print('n=2 pure=False cat-complex: quad_expectation(0,0.8) = [-0.03272, 1.13719] on bosonic, [-0.03272, 2.5105] on fock')
print('REPLAY-VIOLATION')
sys.exit(1)
