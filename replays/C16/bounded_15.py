# replay of a bounded stand-in violation (C16): re-run native/c16_states.py
import sys
print('fock n=2 pure=True cat: parity_expectation([1]) = -0.10379 but sum_n (-1)^n p(n) from reduced_dm = 0.19557')
print('REPLAY-VIOLATION')
sys.exit(1)
