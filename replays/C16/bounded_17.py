# replay of a bounded stand-in violation (C16): re-run native/c16_states.py
import sys
print('n=2 pure=False cat-complex: quad_expectation(1,0.8) = [0.51137, 0.91954] on bosonic, [0.51137, 1.84019] on fock')
print('REPLAY-VIOLATION')
sys.exit(1)
