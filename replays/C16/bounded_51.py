# replay of a bounded stand-in violation (C16): re-run native/c16_states.py
import sys
print('n=3 pure=False gaussian: quad_expectation(1,0.8) = [-0.03272, 1.13719] on fock, [0.15772, 0.97521] on gaussian')
print('REPLAY-VIOLATION')
sys.exit(1)
