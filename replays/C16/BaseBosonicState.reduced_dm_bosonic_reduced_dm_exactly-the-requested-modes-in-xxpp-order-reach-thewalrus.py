#!/venv/bin/python
# replay for failed obligation 'BaseBosonicState.reduced_dm/bosonic_reduced_dm/exactly-the-requested-modes-in-xxpp-order-reach-thewalrus' (property C16)
# case: ''; solver: z3
# verifier output (counter-model):
#   choice_modes = 1
#   choice_shape = 1
#   w0 = 1
#   w1 = 0
#   w2 = 0
import sys
print('obligation BaseBosonicState.reduced_dm/bosonic_reduced_dm/exactly-the-requested-modes-in-xxpp-order-reach-thewalrus is not discharged on this tree; no failing concrete input was constructed')
print('no-failing-input-found')
sys.exit(1)
