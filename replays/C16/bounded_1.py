# replay of a bounded stand-in violation (C16): re-run native/c16_states.py
import sys
print('bosonic n=2 pure=True cat-complex: parity_expectation([0]) = 0.19557 but sum_n (-1)^n p(n) from reduced_dm = 0.18871')
print('REPLAY-VIOLATION')
sys.exit(1)
