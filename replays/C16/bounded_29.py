# replay of a bounded stand-in violation (C16): re-run native/c16_states.py
import sys
print('n=2 pure=False: fock_prob([0, 1]) = 0.34493 on fock, 0.13075 on gaussian')
print('REPLAY-VIOLATION')
sys.exit(1)
