#!/venv/bin/python
# replay for failed obligation 'BaseGaussianState.parity_expectation/parity/no-exception' (property C16)
# case: ''; solver: z3
# verifier output (counter-model):
#   DET = 1
#   N = 2
#   modes = [else ->
#       If(And(0 <= Var(0), Not(1 <= Var(0))),
#          0,
#          If(And(0 <= Var(0), 1 <= Var(0)), 1, 7))]
#   modes_len = 2
import sys
print('obligation BaseGaussianState.parity_expectation/parity/no-exception is not discharged on this tree; no failing concrete input was constructed')
print('no-failing-input-found')
sys.exit(1)
