# replay of a bounded stand-in violation (C16): re-run native/c16_states.py
import sys
print('n=2 pure=True cat-complex: quad_expectation(0,0.8) = [-0.03659, 1.17149] on bosonic, [-0.03659, 2.88812] on fock')
print('REPLAY-VIOLATION')
sys.exit(1)
