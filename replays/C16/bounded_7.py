# replay of a bounded stand-in violation (C16): re-run native/c16_states.py
import sys
print('fock pure=False: run(prog, modes=[2, 0]).state: index i of the returned state is not the i-th requested mode (quadratures [0.632, 0.929, 0.632, 0.929] vs [-0.021, -0.033, -0.021, -0.033] from the full state)')
print('REPLAY-VIOLATION')
sys.exit(1)
