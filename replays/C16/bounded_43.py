# replay of a bounded stand-in violation (C16): re-run native/c16_states.py
import sys
print('n=3 pure=True gaussian: quad_expectation(2,0.8) = [-0.03659, 1.17149] on fock, [1.10996, 0.61424] on gaussian')
print('REPLAY-VIOLATION')
sys.exit(1)
