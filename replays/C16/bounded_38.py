# replay of a bounded stand-in violation (C16): re-run native/c16_states.py
import sys
print('fock n=3 pure=True gaussian: parity_expectation([0, 2]) = 0.32542 but sum_n (-1)^n p(n) from reduced_dm = 0.96685')
print('REPLAY-VIOLATION')
sys.exit(1)
