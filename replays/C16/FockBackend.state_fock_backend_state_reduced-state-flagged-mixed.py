#!/venv/bin/python
# replay for failed obligation 'FockBackend.state/fock_backend_state/reduced-state-flagged-mixed' (property C16)
# case: ''; solver: z3
# verifier output (counter-model):
#   choice_case = 0
#   choice_pure = 1
import sys
print('obligation FockBackend.state/fock_backend_state/reduced-state-flagged-mixed is not discharged on this tree; no failing concrete input was constructed')
print('no-failing-input-found')
sys.exit(1)
