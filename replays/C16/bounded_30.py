# replay of a bounded stand-in violation (C16): re-run native/c16_states.py
import sys
print('n=2 pure=False: fock_prob([1, 1]) = 0.07587 on fock, 0.08116 on gaussian')
print('REPLAY-VIOLATION')
sys.exit(1)
