# replay of a bounded stand-in violation (C16): re-run native/c16_states.py
import sys
print('fock n=2 pure=True gaussian: parity_expectation([1]) = 0.67294 but sum_n (-1)^n p(n) from reduced_dm = 0.99815')
print('REPLAY-VIOLATION')
sys.exit(1)
