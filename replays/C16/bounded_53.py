# replay of a bounded stand-in violation (C16): re-run native/c16_states.py
import sys
print('n=3 pure=False gaussian: quad_expectation(2,0.8) = [-0.03272, 1.13719] on fock, [0.92866, 0.72997] on gaussian')
print('REPLAY-VIOLATION')
sys.exit(1)
