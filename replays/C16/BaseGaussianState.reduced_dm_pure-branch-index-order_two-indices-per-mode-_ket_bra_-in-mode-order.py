#!/venv/bin/python
# replay for failed obligation 'BaseGaussianState.reduced_dm/pure-branch-index-order/two-indices-per-mode-(ket,bra)-in-mode-order' (property C16)
# case: ''; solver: z3
# verifier output (counter-model):
#   choice_kept = 2
import sys
print('obligation BaseGaussianState.reduced_dm/pure-branch-index-order/two-indices-per-mode-(ket,bra)-in-mode-order is not discharged on this tree; no failing concrete input was constructed')
print('no-failing-input-found')
sys.exit(1)
