# replay of a bounded stand-in violation (C16): re-run native/c16_states.py
import sys
print('n=2 pure=True cat: photon statistics of mode 1 differ between bosonic [0.2428, 0.4759, 0.1982, 0.0691] and fock [0.5858, 0.3418, 0.0081, 0.0512]')
print('REPLAY-VIOLATION')
sys.exit(1)
