# replay of a bounded stand-in violation (C16): re-run native/c16_states.py
import sys
print('n=2 pure=True cat-complex: quad_expectation(0,0.0) = [-0.02294, 0.594] on bosonic, [-0.02294, 1.93709] on fock')
print('REPLAY-VIOLATION')
sys.exit(1)
