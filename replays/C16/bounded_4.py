# replay of a bounded stand-in violation (C16): re-run native/c16_states.py
import sys
print('bosonic n=2 pure=True cat: reduced_dm([1]) has shape (8, 8, 8, 8), expected two indices per mode')
print('REPLAY-VIOLATION')
sys.exit(1)
