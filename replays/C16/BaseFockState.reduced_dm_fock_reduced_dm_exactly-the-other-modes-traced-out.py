#!/venv/bin/python
# replay for failed obligation 'BaseFockState.reduced_dm/fock_reduced_dm/exactly-the-other-modes-traced-out' (property C16)
# case: ''; solver: z3
# verifier output (counter-model):
#   choice_case = 2
#   choice_pure = 1
import sys
print('obligation BaseFockState.reduced_dm/fock_reduced_dm/exactly-the-other-modes-traced-out is not discharged on this tree; no failing concrete input was constructed')
print('no-failing-input-found')
sys.exit(1)
