# replay of a bounded stand-in violation (C16): re-run native/c16_states.py
import sys
print('n=2 pure=False cat: photon statistics of mode 1 differ between bosonic [0.4053, 0.4301, 0.13, 0.0283] and fock [0.6549, 0.2811, 0.0258, 0.0293]')
print('REPLAY-VIOLATION')
sys.exit(1)
