# replay of a bounded stand-in violation (C16): re-run native/c16_states.py
import sys
print('n=2 pure=False: fock_prob([1, 0]) = 0.13650 on fock, 0.22689 on gaussian')
print('REPLAY-VIOLATION')
sys.exit(1)
