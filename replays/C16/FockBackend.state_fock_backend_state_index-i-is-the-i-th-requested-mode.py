#!/venv/bin/python
# replay for failed obligation 'FockBackend.state/fock_backend_state/index-i-is-the-i-th-requested-mode' (property C16)
# case: ''; solver: z3
# verifier output (counter-model):
#   choice_case = 17
#   choice_pure = 1
I = {'case': 17, 'pure': 1}
OBLIGATION = 'FockBackend.state/fock_backend_state/index-i-is-the-i-th-requested-mode'

import sys
def violated(msg):
    print("REPLAY-VIOLATION", OBLIGATION, "-", msg)
    sys.exit(1)
from native.c16_fock_replay import replay; replay('backend_state', OBLIGATION, I)
