# replay of a bounded stand-in violation (C16): re-run native/c16_states.py
import sys
print('n=3 pure=False gaussian: quad_expectation(2,0.0) = [-0.02052, 0.6752] on fock, [0.63188, 0.93929] on gaussian')
print('REPLAY-VIOLATION')
sys.exit(1)
