# replay of a bounded stand-in violation (C16): re-run native/c16_states.py
import sys
print('n=3 pure=False gaussian: photon statistics of mode 2 differ between fock [0.9674, 0.0108, 0.0204, 0.0007] and gaussian [0.738, 0.237, 0.0163, 0.0068]')
print('REPLAY-VIOLATION')
sys.exit(1)
