# replay of a bounded stand-in violation (C16): re-run native/c16_states.py
import sys
print('n=3 pure=True gaussian: photon statistics of mode 2 differ between fock [0.966, 0.0008, 0.0315, 0.0001] and gaussian [0.6389, 0.3233, 0.0187, 0.013]')
print('REPLAY-VIOLATION')
sys.exit(1)
