# replay of a bounded stand-in violation (C16): re-run native/c16_states.py
import sys
print('fock n=2 pure=False gaussian: parity_expectation([1]) = 0.77103 but sum_n (-1)^n p(n) from reduced_dm = 0.97698')
print('REPLAY-VIOLATION')
sys.exit(1)
