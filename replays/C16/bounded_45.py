# replay of a bounded stand-in violation (C16): re-run native/c16_states.py
import sys
print('n=3 pure=False gaussian: photon statistics of mode 1 differ between fock [0.9674, 0.0108, 0.0204, 0.0007] and gaussian [0.9452, 0.0146, 0.0361, 0.0017]')
print('REPLAY-VIOLATION')
sys.exit(1)
