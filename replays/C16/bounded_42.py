# replay of a bounded stand-in violation (C16): re-run native/c16_states.py
import sys
print('n=3 pure=True gaussian: quad_expectation(2,0.0) = [-0.02294, 0.594] on fock, [0.75524, 0.91327] on gaussian')
print('REPLAY-VIOLATION')
sys.exit(1)
