# replay of a bounded stand-in violation (C16): re-run native/c16_states.py
import sys
print('n=3 pure=True gaussian: photon statistics of mode 1 differ between fock [0.966, 0.0008, 0.0315, 0.0001] and gaussian [0.9452, 0.0146, 0.0361, 0.0017]')
print('REPLAY-VIOLATION')
sys.exit(1)
