# replay of a bounded stand-in violation (C16): re-run native/c16_states.py
import sys
print('n=3 pure=True: reduced_dm([0,1,2]) differs between the gaussian and the fock representation (max 0.424)')
print('REPLAY-VIOLATION')
sys.exit(1)
