# replay of a bounded stand-in violation (C16): re-run native/c16_states.py
import sys
print('fock pure=True: run(prog, modes=[2, 0]).state: index i of the returned state is not the i-th requested mode (quadratures [0.755, 1.11, 0.755, 1.11] vs [-0.023, -0.037, -0.023, -0.037] from the full state)')
print('REPLAY-VIOLATION')
sys.exit(1)
