# replay of a bounded stand-in violation (C16): re-run native/c16_states.py
import sys
print('n=2 pure=True cat-complex: quad_expectation(1,0.8) = [0.6112, 0.88505] on bosonic, [0.6112, 2.20028] on fock')
print('REPLAY-VIOLATION')
sys.exit(1)
