# replay of a bounded stand-in violation (C16): re-run native/c16_states.py
import sys
print('n=2 pure=True cat: quad_expectation(1,0.0) = [0.62239, 0.63981] on bosonic, [0.62239, 2.27449] on fock')
print('REPLAY-VIOLATION')
sys.exit(1)
