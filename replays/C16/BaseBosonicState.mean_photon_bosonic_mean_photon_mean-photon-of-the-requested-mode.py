#!/venv/bin/python
# replay for failed obligation 'BaseBosonicState.mean_photon/bosonic_mean_photon/mean-photon-of-the-requested-mode' (property C16)
# case: ''; solver: z3
# verifier output (counter-model):
#   choice_mode = 1
#   choice_shape = 1
#   w0 = 0
#   w1 = 0
#   w2 = 0
import sys
print('obligation BaseBosonicState.mean_photon/bosonic_mean_photon/mean-photon-of-the-requested-mode is not discharged on this tree; no failing concrete input was constructed')
print('no-failing-input-found')
sys.exit(1)
