#!/venv/bin/python
# replay for failed obligation 'BaseFockState.fidelity/fock_fidelity/overlap-taken-with-the-reduced-state-of-the-requested-mode' (property C16)
# case: ''; solver: z3
# verifier output (counter-model):
#   choice_case = 1
#   choice_pure = 1
I = {'n': 2, 'mode': 0, 'pure': 1}
OBLIGATION = 'BaseFockState.fidelity/fock_fidelity/overlap-taken-with-the-reduced-state-of-the-requested-mode'

import sys
def violated(msg):
    print("REPLAY-VIOLATION", OBLIGATION, "-", msg)
    sys.exit(1)
from native.c16_fock_replay import replay_fidelity; replay_fidelity(OBLIGATION, I)
