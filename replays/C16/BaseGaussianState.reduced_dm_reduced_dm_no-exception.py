#!/venv/bin/python
# replay for failed obligation 'BaseGaussianState.reduced_dm/reduced_dm/no-exception' (property C16)
# case: ''; solver: z3
# verifier output (counter-model):
#   DET = 19999999999/20000000000
#   N = 3
#   choice_modes = 1
import sys
print('obligation BaseGaussianState.reduced_dm/reduced_dm/no-exception is not discharged on this tree; no failing concrete input was constructed')
print('no-failing-input-found')
sys.exit(1)
