#!/venv/bin/python
# replay for failed obligation 'BaseBosonicState.mean_photon/bosonic_mean_photon/photon-variance-of-the-requested-mode' (property C16)
# case: ''; solver: z3
# verifier output (counter-model):
#   c0_2_2 = 0
#   c0_3_3 = 0
#   c1_2_2 = 0
#   c1_3_3 = 0
#   c2_2_2 = 0
#   c2_3_3 = 0
#   choice_mode = 1
#   choice_shape = 1
#   m0_2 = 0
#   m0_3 = 0
#   m1_2 = 0
#   m1_3 = 0
#   m2_2 = 0
#   m2_3 = 0
#   w0 = 0
#   w1 = 0
#   w2 = 0
import sys
print('obligation BaseBosonicState.mean_photon/bosonic_mean_photon/photon-variance-of-the-requested-mode is not discharged on this tree; no failing concrete input was constructed')
print('no-failing-input-found')
sys.exit(1)
