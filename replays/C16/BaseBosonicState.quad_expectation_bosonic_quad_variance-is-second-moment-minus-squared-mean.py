#!/venv/bin/python
# replay for failed obligation 'BaseBosonicState.quad_expectation/bosonic_quad/variance-is-second-moment-minus-squared-mean' (property C16)
# case: ''; solver: z3
# verifier output (counter-model):
#   choice_mode = 2
#   choice_shape = 1
#   cs_c = 0.8660254037?
#   cs_s = -1/2
#   m0_4 = 1
#   m0_5 = 1
#   m1_4 = -1
#   m1_5 = 1
#   m2_4 = 1
#   m2_5 = 1
#   phi = 1
#   w0 = 1
#   w1 = -1
#   w2 = 1
I = {'w0': -0.140625, 'w1': 1.140625, 'm0_0': 0.0, 'm0_1': 0.0, 'm0_2': -2.984375, 'm0_3': -0.000244140625, 'm1_0': 0.0, 'm1_1': 0.0, 'm1_2': 0.4990234375, 'm1_3': 0.50048828125, 'c0_0_0': 0.0, 'c0_0_1': 0.0, 'c0_0_2': 0.0, 'c0_0_3': 0.0, 'c0_1_0': 0.0, 'c0_1_1': 0.0, 'c0_1_2': 0.0, 'c0_1_3': 0.0, 'c0_2_0': 0.0, 'c0_2_1': 0.0, 'c0_2_2': 0.0, 'c0_2_3': 0.0, 'c0_3_0': 0.0, 'c0_3_1': 0.0, 'c0_3_2': 0.0, 'c0_3_3': 0.0, 'c1_0_0': 0.0, 'c1_0_1': 0.0, 'c1_0_2': 0.0, 'c1_0_3': 0.0, 'c1_1_0': 0.0, 'c1_1_1': 0.0, 'c1_1_2': 0.0, 'c1_1_3': 0.0, 'c1_2_0': 0.0, 'c1_2_1': 0.0, 'c1_2_2': 0.0, 'c1_2_3': 0.0, 'c1_3_0': 0.0, 'c1_3_1': 0.0, 'c1_3_2': 0.0, 'c1_3_3': 0.0, 'K': 2, 'M': 2, 'mode': 1, 'phi': 1.0}
OBLIGATION = 'BaseBosonicState.quad_expectation/bosonic_quad/variance-is-second-moment-minus-squared-mean'

import sys
def violated(msg):
    print("REPLAY-VIOLATION", OBLIGATION, "-", msg)
    sys.exit(1)
from native.c16_bosonic import replay; replay('quad', OBLIGATION, I)
