#!/venv/bin/python
# replay for failed obligation 'BaseBosonicState.fock_prob/bosonic_fock_prob/every-component-handed-to-thewalrus-in-xxpp-order' (property C16)
# case: ''; solver: z3
# verifier output (counter-model):
#   choice_shape = 1
#   w0 = 1
#   w1 = 0
#   w2 = 0
import sys
print('obligation BaseBosonicState.fock_prob/bosonic_fock_prob/every-component-handed-to-thewalrus-in-xxpp-order is not discharged on this tree; no failing concrete input was constructed')
print('no-failing-input-found')
sys.exit(1)
