# replay of a bounded stand-in violation (C16): re-run native/c16_states.py
import sys
print('n=2 pure=False gaussian: photon statistics of mode 1 differ between fock [0.9674, 0.0108, 0.0204, 0.0007] and gaussian [0.878, 0.1103, 0.0072, 0.004]')
print('REPLAY-VIOLATION')
sys.exit(1)
