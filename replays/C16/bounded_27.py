# replay of a bounded stand-in violation (C16): re-run native/c16_states.py
import sys
print('n=2 pure=False: fock_prob([0, 0]) = 0.21912 on fock, 0.40772 on gaussian')
print('REPLAY-VIOLATION')
sys.exit(1)
