# replay of a bounded stand-in violation (C16): re-run native/c16_states.py
import sys
print('fock n=3 pure=True: wigner(0) on a 9 x 6 grid has shape (9, 6), the other representations return (6, 9)')
print('REPLAY-VIOLATION')
sys.exit(1)
