#!/venv/bin/python
# replay for failed obligation 'Gate.merge/MZgate/merged=composition.S[1,2]' (property C03)
# case: ''; solver: z3
# verifier output (counter-model):
#   a0 = 0
#   b0 = -1
#   chsh_c = 1
#   chsh_c!1 = 1.4142135623?
#   chsh_s = 0
#   chsh_s!1 = -1
#   cs_c = 1
#   cs_c!1 = -1
#   cs_c!2 = 1
#   cs_s = 0
#   cs_s!1 = 0
#   cs_s!2 = 0
#   dagger_a = True
#   dagger_b = True
#   s1 = 0
import sys
print('obligation Gate.merge/MZgate/merged=composition.S[1,2] is not discharged on this tree; no failing concrete input was constructed')
print('no-failing-input-found')
sys.exit(1)
