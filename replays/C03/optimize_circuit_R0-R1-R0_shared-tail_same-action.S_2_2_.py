#!/venv/bin/python
# replay for failed obligation 'optimize_circuit/R0-R1-R0/shared-tail/same-action.S[2,2]' (property C03)
# case: ''; solver: z3
# verifier output (counter-model):
#   c0p0 = 0
#   c2p0 = 0
#   cs_c = 0
#   cs_c!1 = 0
#   cs_c!2 = 0
#   cs_s = -1
#   cs_s!1 = -1
#   cs_s!2 = -1
import sys
print('obligation optimize_circuit/R0-R1-R0/shared-tail/same-action.S[2,2] is not discharged on this tree; no failing concrete input was constructed')
print('no-failing-input-found')
sys.exit(1)
