#!/venv/bin/python
# replay for failed obligation 'Gate.merge/S2gate/None=>identity.S[2,3]' (property C03)
# case: ''; solver: z3
# verifier output (counter-model):
#   a0 = -1
#   b0 = 1
#   chsh_c = 1.4142135623?
#   chsh_c!1 = 1.1180339887?
#   chsh_s = -1
#   chsh_s!1 = 1/2
#   cs_c = -1
#   cs_s = 0
#   dagger_a = True
#   dagger_b = True
import sys
print('obligation Gate.merge/S2gate/None=>identity.S[2,3] is not discharged on this tree; no failing concrete input was constructed')
print('no-failing-input-found')
sys.exit(1)
