#!/venv/bin/python
# replay for failed obligation 'optimize_circuit/R-R/shared-tail/same-action.S[1,0]' (property C03)
# case: ''; solver: z3
# verifier output (counter-model):
#   c0p0 = 0
#   c1p0 = 0
#   cs_c = -1
#   cs_c!1 = 0
#   cs_s = 0
#   cs_s!1 = -1
import sys
print('obligation optimize_circuit/R-R/shared-tail/same-action.S[1,0] is not discharged on this tree; no failing concrete input was constructed')
print('no-failing-input-found')
sys.exit(1)
