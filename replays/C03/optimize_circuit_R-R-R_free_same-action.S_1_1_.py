#!/venv/bin/python
# replay for failed obligation 'optimize_circuit/R-R-R/free/same-action.S[1,1]' (property C03)
# case: ''; solver: z3
# verifier output (counter-model):
#   c0p0 = -2
#   c1p0 = -3
#   c2p0 = -1
#   chsh_c = 1.4142135623?
#   chsh_c!1 = 1.4142135623?
#   chsh_c!2 = 1.4142135623?
#   chsh_s = -1
#   chsh_s!1 = -1
#   chsh_s!2 = -1
#   cs_c = -1
#   cs_c!1 = 0
#   cs_c!2 = 0
#   cs_s = 0
#   cs_s!1 = -1
#   cs_s!2 = -1
import sys
print('obligation optimize_circuit/R-R-R/free/same-action.S[1,1] is not discharged on this tree; no failing concrete input was constructed')
print('no-failing-input-found')
sys.exit(1)
