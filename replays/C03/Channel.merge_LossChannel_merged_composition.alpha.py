#!/venv/bin/python
# replay for failed obligation 'Channel.merge/LossChannel/merged=composition.alpha' (property C03)
# case: ''; solver: z3
# verifier output (counter-model):
#   T1 = 1
#   T2 = 68718952449/68719476736
#   alpha_im = -1
#   alpha_re = 0
#   sqrt = 1
#   sqrt!1 = 262143/262144
import sys
print('obligation Channel.merge/LossChannel/merged=composition.alpha is not discharged on this tree; no failing concrete input was constructed')
print('no-failing-input-found')
sys.exit(1)
