#!/venv/bin/python
# replay for failed obligation 'Gate.merge/MZgate/None=>identity.S[0,3]' (property C03)
# case: ''; solver: z3
# verifier output (counter-model):
#   /0 = [(2, 1.4142135623?) -> 1.4142135623?, else -> 0]
#   a0 = 1
#   b0 = -1
#   chsh_c = 1.4142135623?
#   chsh_c!1 = 1.4142135623?
#   chsh_s = 1
#   chsh_s!1 = -1
#   cs_c = 0
#   cs_c!1 = 0
#   cs_c!2 = 0
#   cs_s = -1
#   cs_s!1 = 1
#   cs_s!2 = -1
#   dagger_a = True
#   dagger_b = True
#   s1 = 1
import sys
print('obligation Gate.merge/MZgate/None=>identity.S[0,3] is not discharged on this tree; no failing concrete input was constructed')
print('no-failing-input-found')
sys.exit(1)
