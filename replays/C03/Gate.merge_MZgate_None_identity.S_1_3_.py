#!/venv/bin/python
# replay for failed obligation 'Gate.merge/MZgate/None=>identity.S[1,3]' (property C03)
# case: ''; solver: z3
# verifier output (counter-model):
#   /0 = [(1, 1) -> 1, else -> 0]
#   a0 = 0
#   b0 = 0
#   chsh_c = 1
#   chsh_c!1 = 1
#   chsh_s = 0
#   chsh_s!1 = 0
#   cs_c = 1
#   cs_c!1 = 1
#   cs_c!2 = 0
#   cs_s = 0
#   cs_s!1 = 0
#   cs_s!2 = -1
#   dagger_a = True
#   dagger_b = True
#   s1 = 1
import sys
print('obligation Gate.merge/MZgate/None=>identity.S[1,3] is not discharged on this tree; no failing concrete input was constructed')
print('no-failing-input-found')
sys.exit(1)
