#!/venv/bin/python
# replay for failed obligation 'Gate.merge/BSgate/None=>identity.S[0,0]' (property C03)
# case: ''; solver: z3
# verifier output (counter-model):
#   /0 = [(2, 1.4142135623?) -> 1.4142135623?, else -> 0]
#   a0 = -1
#   b0 = -1
#   chsh_c = 1.4142135623?
#   chsh_c!1 = 1.4142135623?
#   chsh_s = -1
#   chsh_s!1 = -1
#   cs_c = 0
#   cs_c!1 = 0
#   cs_c!2 = 1
#   cs_s = -1
#   cs_s!1 = -1
#   cs_s!2 = 0
#   dagger_a = True
#   dagger_b = True
#   s1 = 0
I = {'cls': 'BSgate', 'npar': 2, 'ns': 2, 's1': 0.0, 'a0': -1.0, 'b0': -1.0, 'dagger_a': True, 'dagger_b': True}
OBLIGATION = 'Gate.merge/BSgate/None=>identity.S[0,0]'

import sys
def violated(msg):
    print("REPLAY-VIOLATION", OBLIGATION, "-", msg)
    sys.exit(1)
from native.c01_backends import replay_merge; replay_merge(OBLIGATION, I)
