#!/venv/bin/python
# replay for failed obligation 'optimize_circuit/abstract-noncommutative-merge/wire0.same-word-in-order' (property C03)
# case: ''; solver: z3
# verifier output (counter-model):
#   choice_case = 1
import sys
print('obligation optimize_circuit/abstract-noncommutative-merge/wire0.same-word-in-order is not discharged on this tree; no failing concrete input was constructed')
print('no-failing-input-found')
sys.exit(1)
