#!/venv/bin/python
# replay for failed obligation 'optimize_circuit/S-S.H/free/same-action.S[0,0]' (property C03)
# case: ''; solver: z3
# verifier output (counter-model):
#   /0 = [(2, 1.4142135623?) -> 1.4142135623?, else -> 0]
#   c0p0 = -1
#   c0p1 = 1
#   c1p0 = -1
#   c1p1 = 1
#   chsh_c = 1.4142135623?
#   chsh_c!1 = 1.4142135623?
#   chsh_s = -1
#   chsh_s!1 = -1
#   cs_c = -1
#   cs_c!1 = -1
#   cs_c!2 = 0
#   cs_c!3 = -1
#   cs_s = 0
#   cs_s!1 = 0
#   cs_s!2 = -1
#   cs_s!3 = 0
import sys
print('obligation optimize_circuit/S-S.H/free/same-action.S[0,0] is not discharged on this tree; no failing concrete input was constructed')
print('no-failing-input-found')
sys.exit(1)
