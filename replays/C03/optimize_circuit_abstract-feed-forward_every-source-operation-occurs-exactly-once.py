#!/venv/bin/python
# replay for failed obligation 'optimize_circuit/abstract-feed-forward/every-source-operation-occurs-exactly-once' (property C03)
# case: ''; solver: z3
# verifier output (counter-model):
#   choice_case = 1
I = {'case': 1}
OBLIGATION = 'optimize_circuit/abstract-feed-forward/every-source-operation-occurs-exactly-once'

import sys
def violated(msg):
    print("REPLAY-VIOLATION", OBLIGATION, "-", msg)
    sys.exit(1)
from native.c03_replay import replay; replay(OBLIGATION, I)
