#!/venv/bin/python
# replay for failed obligation 'Channel.merge/ThermalLossChannel/result-p-is-fresh-list' (property C03)
# case: ''; solver: z3
# verifier output (counter-model):
#   T1 = 0
#   T2 = 0
#   nbar = 0
#   sqrt = 0
#   sqrt!1 = 0
#   sqrt!2 = 0
import sys
print('obligation Channel.merge/ThermalLossChannel/result-p-is-fresh-list is not discharged on this tree; no failing concrete input was constructed')
print('no-failing-input-found')
sys.exit(1)
