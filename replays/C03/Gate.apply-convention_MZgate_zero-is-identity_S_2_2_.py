#!/venv/bin/python
# replay for failed obligation 'Gate.apply-convention/MZgate/zero-is-identity/S[2,2]' (property C03)
# case: ''; solver: z3
# verifier output (counter-model):
#   cs_c = 1
#   cs_s = 0
#   p1 = 0
import sys
print('obligation Gate.apply-convention/MZgate/zero-is-identity/S[2,2] is not discharged on this tree; no failing concrete input was constructed')
print('no-failing-input-found')
sys.exit(1)
