#!/venv/bin/python
# replay for failed obligation 'Gate.merge/Fouriergate/merged=composition.S[0,1]' (property C03)
# case: ''; solver: z3
# verifier output (counter-model):
#   dagger_a = True
#   dagger_b = True
import sys
print('obligation Gate.merge/Fouriergate/merged=composition.S[0,1] is not discharged on this tree; no failing concrete input was constructed')
print('no-failing-input-found')
sys.exit(1)
