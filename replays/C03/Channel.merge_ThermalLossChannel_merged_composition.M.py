#!/venv/bin/python
# replay for failed obligation 'Channel.merge/ThermalLossChannel/merged=composition.M' (property C03)
# case: ''; solver: z3
# verifier output (counter-model):
#   M_im = -1
#   M_re = 0
#   T1 = 1
#   T2 = 68718952449/68719476736
#   nbar = 0
#   sqrt = 1
#   sqrt!1 = 262143/262144
import sys
print('obligation Channel.merge/ThermalLossChannel/merged=composition.M is not discharged on this tree; no failing concrete input was constructed')
print('no-failing-input-found')
sys.exit(1)
