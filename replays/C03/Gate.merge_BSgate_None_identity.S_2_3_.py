#!/venv/bin/python
# replay for failed obligation 'Gate.merge/BSgate/None=>identity.S[2,3]' (property C03)
# case: ''; solver: z3
# verifier output (counter-model):
#   a0 = 0
#   b0 = 0
#   cs_c = 0
#   cs_c!1 = -1
#   cs_c!2 = -1
#   cs_s = -1
#   cs_s!1 = 0
#   cs_s!2 = 0
#   dagger_a = True
#   dagger_b = True
import sys
print('obligation Gate.merge/BSgate/None=>identity.S[2,3] is not discharged on this tree; no failing concrete input was constructed')
print('no-failing-input-found')
sys.exit(1)
