#!/venv/bin/python
# replay for failed obligation 'Channel.merge/LossChannel/merged=composition.N' (property C03)
# case: ''; solver: z3
# verifier output (counter-model):
#   N = -1
#   T1 = 68718952449/68719476736
#   T2 = 1
#   sqrt = 262143/262144
#   sqrt!1 = 1
import sys
print('obligation Channel.merge/LossChannel/merged=composition.N is not discharged on this tree; no failing concrete input was constructed')
print('no-failing-input-found')
sys.exit(1)
