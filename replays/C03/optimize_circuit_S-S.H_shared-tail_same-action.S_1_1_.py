#!/venv/bin/python
# replay for failed obligation 'optimize_circuit/S-S.H/shared-tail/same-action.S[1,1]' (property C03)
# case: ''; solver: z3
# verifier output (counter-model):
#   c0p0 = -1
#   c1p0 = -1
#   chsh_c = 1.4142135623?
#   chsh_c!1 = 1.1180339887?
#   chsh_s = -1
#   chsh_s!1 = -1/2
#   cs_c = -1
#   cs_s = 0
import sys
print('obligation optimize_circuit/S-S.H/shared-tail/same-action.S[1,1] is not discharged on this tree; no failing concrete input was constructed')
print('no-failing-input-found')
sys.exit(1)
