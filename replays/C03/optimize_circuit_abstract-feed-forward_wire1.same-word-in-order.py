#!/venv/bin/python
# replay for failed obligation 'optimize_circuit/abstract-feed-forward/wire1.same-word-in-order' (property C03)
# case: ''; solver: z3
# verifier output (counter-model):
#   choice_case = 1
# native replay of the counter-model did not fail (rc=0): "note: counter-model input not executable natively: KeyError('cls')\nnote: battery input raised in the replay harness: KeyError('cls')\nnote: battery input raised in the replay harness: KeyError('cls')\nno failing input among 17 tried"
import sys
print('obligation optimize_circuit/abstract-feed-forward/wire1.same-word-in-order is not discharged on this tree; no failing concrete input was constructed')
print('no-failing-input-found')
sys.exit(1)
