#!/venv/bin/python
# replay for failed obligation 'Channel.merge/MSgate/None=>target-squeezings-cancel' (property C03)
# case: ''; solver: z3
# verifier output (counter-model):
#   r1 = -1
#   r2 = -131073/131072
import sys
print('obligation Channel.merge/MSgate/None=>target-squeezings-cancel is not discharged on this tree; no failing concrete input was constructed')
print('no-failing-input-found')
sys.exit(1)
