#!/venv/bin/python
# replay for failed obligation 'Channel.merge/MSgate/merged-target-squeezing-adds' (property C03)
# case: ''; solver: z3
# verifier output (counter-model):
#   r1 = 0
#   r2 = -1
import sys
print('obligation Channel.merge/MSgate/merged-target-squeezing-adds is not discharged on this tree; no failing concrete input was constructed')
print('no-failing-input-found')
sys.exit(1)
