#!/venv/bin/python
# replay for failed obligation 'Gate.merge/CXgate/None=>identity.S[1,0]' (property C03)
# case: ''; solver: z3
# verifier output (counter-model):
#   /0 = [(2, 1.4142135623?) -> 1.4142135623?, else -> 0]
#   a0 = -1
#   b0 = -1
#   chsh_c = 1.4142135623?
#   chsh_c!1 = 1.4142135623?
#   chsh_s = -1
#   chsh_s!1 = -1
#   cs_c = -1
#   cs_c!1 = -1
#   cs_s = 0
#   cs_s!1 = 0
#   dagger_a = True
#   dagger_b = True
I = {'cls': 'CXgate', 'npar': 1, 'ns': 2, 'a0': -1.0, 'b0': -1.0, 'dagger_a': True, 'dagger_b': True}
OBLIGATION = 'Gate.merge/CXgate/None=>identity.S[1,0]'

import sys
def violated(msg):
    print("REPLAY-VIOLATION", OBLIGATION, "-", msg)
    sys.exit(1)
from native.c01_backends import replay_merge; replay_merge(OBLIGATION, I)
