# replay of a bounded stand-in violation: re-run native/c06_measure.py
# Traceback (most recent call last):
#   File "/verif/native/c06_measure.py", line 344, in <module>
#     f()
#   File "/verif/native/c06_measure.py", line 175, in check_fock_homodyne_rng
#     res = sf.Engine("fock", backend_options={"cutoff_dim": cut}).run(prog)
#           ^^^^^^^^^^^^^^^^^^^^^^^^^^^^^^^^^^^^^^^^^^^^^^^^^^^^^^^^^^^^^^^^
#   File "/tmp/pyvc_mut_q4tt4fhe/strawberryfields/engine.py", line 572, in run
#     return super()._run(
#            ^^^^^^^^^^^^^
#   File "/tmp/pyvc_mut_q4tt4fhe/strawberryfields/engine.py", line 308, in _run
#     _, self.samples, self.samples_dict = self._run_program(p, **kwargs)
#                                          ^^^^^^^^^^^^^^^^^^^^^^^^^^^^^^
#   File "/tmp/pyvc_mut_q4tt4fhe/strawberryfields/engine.py", line 432, in _run_program
#     val = cmd.op.apply(cmd.reg, self.backend, **kwargs)
#           ^^^^^^^^^^^^^^^^^^^^^^^^^^^^^^^^^^^^^^^^^^^^^
#   File "/tmp/pyvc_mut_q4tt4fhe/strawberryfields/ops.py", line 325, in apply
#     values = super().apply(reg, backend, **kwargs)
#              ^^^^^^^^^^^^^^^^^^^^^^^^^^^^^^^^^^^^^
#   File "/tmp/pyvc_mut_q4tt4fhe/strawberryfields/ops.py", line 228, in apply
#     return self._apply(temp, backend, **kwargs)
#            ^^^^^^^^^^^^^^^^^^^^^^^^^^^^^^^^^^^^
#   File "/tmp/pyvc_mut_q4tt4fhe/strawberryfields/ops.py", line 1282, in _apply
#     return s * backend.measure_homodyne(p[0], *reg, shots=shots, select=select, **kwargs)
#                ^^^^^^^^^^^^^^^^^^^^^^^^^^^^^^^^^^^^^^^^^^^^^^^^^^^^^^^^^^^^^^^^^^^^^^^^^^
#   File "/tmp/pyvc_mut_q4tt4fhe/strawberryfields/backends/fockbackend/backend.py", line 198, in measure_homodyne
#     return self.circuit.measure_homodyne(phi, self._remap_modes(mode), select=select, **kwargs)
#            ^^^^^^^^^^^^^^^^^^^^^^^^^^^^^^^^^^^^^^^^^^^^^^^^^^^^^^^^^^^^^^^^^^^^^^^^^^^^^^^^^^^^
#   File "/tmp/pyvc_mut_q4tt4fhe/strawberryfields/backends/fockbackend/circuit.py", line 739, in measure_homodyne
#     reduced = ops.partial_trace(state, self._num_modes, unmeasured)
#               ^^^^^^^^^^^^^^^^^^^^^^^^^^^^^^^^^^^^^^^^^^^^^^^^^^^^^
#   File "/tmp/pyvc_mut_q4tt4fhe/strawberryfields/backends/fockbackend/ops.py", line 157, in partial_trace
#     return np.einsum(einstr, state)
#            ^^^^^^^^^^^^^^^^^^^^^^^^
#   File "/venv/lib/python3.12/site-packages/numpy/_core/einsumfunc.py", line 1608, in einsum
#     return c_einsum(*operands, **kwargs)
#            ^^^^^^^^^^^^^^^^^^^^^^^^^^^^^
# ValueError: einstein sum subscripts string included output subscript 'b' which never appeared in an input
# 
# bounded stand-in crashed in check_fock_homodyne_rng
import sys
print("the library raised ValueError: einstein sum subscripts string included output subscript 'b' which never appeared in an input at strawberryfields/backends/fockbackend/ops.py:157 (partial_trace) while the stand-in ran")
print('REPLAY-VIOLATION')
sys.exit(1)
