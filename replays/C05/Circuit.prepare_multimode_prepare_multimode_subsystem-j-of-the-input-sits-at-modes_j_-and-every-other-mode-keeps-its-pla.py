#!/venv/bin/python
# replay for failed obligation 'Circuit.prepare_multimode/prepare_multimode/subsystem-j-of-the-input-sits-at-modes[j]-and-every-other-mode-keeps-its-place' (property C05)
# case: ''; solver: z3
# verifier output (counter-model):
#   choice_case = 9
import sys
print('obligation Circuit.prepare_multimode/prepare_multimode/subsystem-j-of-the-input-sits-at-modes[j]-and-every-other-mode-keeps-its-place is not discharged on this tree; no failing concrete input was constructed')
print('no-failing-input-found')
sys.exit(1)
