# replay of a bounded stand-in violation: re-run native/c01_backends.py
import sys
print("Thermal() | q[2] of 3 on fock: raised ValueError: einstein sum subscripts string included output subscript 'b' which never appeared in an input")
print('REPLAY-VIOLATION')
sys.exit(1)
