#!/venv/bin/python
# replay for failed obligation 'Circuit.prepare_multimode/prepare_multimode/exactly-the-target-modes-were-traced-out' (property C05)
# case: ''; solver: z3
# verifier output (counter-model):
#   choice_case = 9
import sys
print('obligation Circuit.prepare_multimode/prepare_multimode/exactly-the-target-modes-were-traced-out is not discharged on this tree; no failing concrete input was constructed')
print('no-failing-input-found')
sys.exit(1)
