# replay of a bounded stand-in violation: re-run native/c01_backends.py
import sys
print("Coherent() | q[1] of 2 (mixed) on fock: raised ValueError: einstein sum subscripts string included output subscript 'b' which never appeared in an input")
print('REPLAY-VIOLATION')
sys.exit(1)
