#!/venv/bin/python
# replay for failed obligation 'strawberryfields.backends.gaussianbackend.gaussiancircuit:GaussianModes.add_mode#1/inv-preserve/N' (property C08)
# case: ''; solver: z3+cvc5
# verifier output (counter-model):
I = None
OBLIGATION = 'strawberryfields.backends.gaussianbackend.gaussiancircuit:GaussianModes.add_mode#1/inv-preserve/N'

import sys
def violated(msg):
    print("REPLAY-VIOLATION", OBLIGATION, "-", msg)
    sys.exit(1)
from native.c01_gaussian import replay; replay('add_mode', OBLIGATION, I)
