# replay of a bounded stand-in violation (C08): re-run native/c08_history.py
import sys
print("bosonic [['N1'], ['N1']]: running segment 1 of a valid history raised UnboundLocalError: cannot access local variable 'weights' where it is not associated with a value")
print('REPLAY-VIOLATION')
sys.exit(1)
