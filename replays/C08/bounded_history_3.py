# replay of a bounded stand-in violation (C08): re-run native/c08_history.py
import sys
print("gaussian [['N1'], ['Dlast']]: building segment 1 changed the register of an earlier program from [0, 1] to [0]")
print('REPLAY-VIOLATION')
sys.exit(1)
