# replay of a bounded stand-in violation (C08): re-run native/c08_history.py
import sys
print("fock [['D0', 'N2', 'G1']]: running segment 0 of a valid history raised ValueError: axes don't match array")
print('REPLAY-VIOLATION')
sys.exit(1)
