#!/venv/bin/python
# replay for failed obligation 'BosonicModes.del_mode/del_mode/component0.cov[1,2]' (property C08)
# case: ''; solver: z3
# verifier output (counter-model):
#   V0_1_2 = 1
#   choice_mode = 1
#   choice_shape = 1
import sys
print('obligation BosonicModes.del_mode/del_mode/component0.cov[1,2] is not discharged on this tree; no failing concrete input was constructed')
print('no-failing-input-found')
sys.exit(1)
