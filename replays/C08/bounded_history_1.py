# replay of a bounded stand-in violation (C08): re-run native/c08_history.py
import sys
print("bosonic [['N2']]: running segment 0 of a valid history raised ValueError: matmul: Input operand 1 has a mismatch in its core dimension 0, with gufunc signature (n?,k),(k,m?)->(n?,m?) (size 6 is different from 10)")
print('REPLAY-VIOLATION')
sys.exit(1)
