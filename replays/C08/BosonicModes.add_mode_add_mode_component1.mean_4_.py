#!/venv/bin/python
# replay for failed obligation 'BosonicModes.add_mode/add_mode/component1.mean[4]' (property C08)
# case: ''; solver: z3
# verifier output (counter-model):
#   choice_shape = 0
#   mu1_2_im = 0
#   mu1_2_re = 1
import sys
print('obligation BosonicModes.add_mode/add_mode/component1.mean[4] is not discharged on this tree; no failing concrete input was constructed')
print('no-failing-input-found')
sys.exit(1)
