#!/venv/bin/python
# replay for failed obligation 'BosonicModes.del_mode/del_mode/component0.mean[5]' (property C08)
# case: ''; solver: z3
# verifier output (counter-model):
#   choice_mode = 2
#   choice_shape = 1
#   mu0_5_im = 0
#   mu0_5_re = 1
import sys
print('obligation BosonicModes.del_mode/del_mode/component0.mean[5] is not discharged on this tree; no failing concrete input was constructed')
print('no-failing-input-found')
sys.exit(1)
