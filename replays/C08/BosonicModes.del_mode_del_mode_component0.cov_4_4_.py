#!/venv/bin/python
# replay for failed obligation 'BosonicModes.del_mode/del_mode/component0.cov[4,4]' (property C08)
# case: ''; solver: z3
# verifier output (counter-model):
#   V0_4_4 = 2
#   choice_mode = 2
#   choice_shape = 1
import sys
print('obligation BosonicModes.del_mode/del_mode/component0.cov[4,4] is not discharged on this tree; no failing concrete input was constructed')
print('no-failing-input-found')
sys.exit(1)
