# replay of a bounded stand-in violation (C08): re-run native/c08_history.py
import sys
print("gaussian [['N2'], ['D1']]: building segment 1 changed the register of an earlier program from [0, 1, 2] to [0, 2]")
print('REPLAY-VIOLATION')
sys.exit(1)
