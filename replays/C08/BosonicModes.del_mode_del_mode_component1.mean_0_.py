#!/venv/bin/python
# replay for failed obligation 'BosonicModes.del_mode/del_mode/component1.mean[0]' (property C08)
# case: ''; solver: z3
# verifier output (counter-model):
#   choice_mode = 0
#   choice_shape = 0
#   mu1_0_im = 0
#   mu1_0_re = 1
import sys
print('obligation BosonicModes.del_mode/del_mode/component1.mean[0] is not discharged on this tree; no failing concrete input was constructed')
print('no-failing-input-found')
sys.exit(1)
