#!/venv/bin/python
# replay for failed obligation 'BosonicModes.del_mode/del_mode/component0.cov[1,5]' (property C08)
# case: ''; solver: z3
# verifier output (counter-model):
#   V0_1_5 = 1
#   choice_mode = 2
#   choice_shape = 1
import sys
print('obligation BosonicModes.del_mode/del_mode/component0.cov[1,5] is not discharged on this tree; no failing concrete input was constructed')
print('no-failing-input-found')
sys.exit(1)
