#!/venv/bin/python
# replay for failed obligation 'FockBackend/every-method-addresses-the-simulator-through-the-mode-map/measure_threshold.no-exception' (property C08)
# case: ''; solver: z3
# verifier output (counter-model):
#   choice_method = 8
import sys
print('obligation FockBackend/every-method-addresses-the-simulator-through-the-mode-map/measure_threshold.no-exception is not discharged on this tree; no failing concrete input was constructed')
print('no-failing-input-found')
sys.exit(1)
