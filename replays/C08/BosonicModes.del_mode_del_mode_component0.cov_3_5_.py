#!/venv/bin/python
# replay for failed obligation 'BosonicModes.del_mode/del_mode/component0.cov[3,5]' (property C08)
# case: ''; solver: z3
# verifier output (counter-model):
#   V0_3_5 = 1
#   choice_mode = 1
#   choice_shape = 1
import sys
print('obligation BosonicModes.del_mode/del_mode/component0.cov[3,5] is not discharged on this tree; no failing concrete input was constructed')
print('no-failing-input-found')
sys.exit(1)
