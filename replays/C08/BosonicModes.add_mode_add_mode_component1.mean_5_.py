#!/venv/bin/python
# replay for failed obligation 'BosonicModes.add_mode/add_mode/component1.mean[5]' (property C08)
# case: ''; solver: z3
# verifier output (counter-model):
#   choice_shape = 0
#   mu1_3_im = 0
#   mu1_3_re = 1
import sys
print('obligation BosonicModes.add_mode/add_mode/component1.mean[5] is not discharged on this tree; no failing concrete input was constructed')
print('no-failing-input-found')
sys.exit(1)
