#!/venv/bin/python
# replay for failed obligation 'Circuit.dealloc/dealloc/exactly-the-listed-modes-were-traced-out' (property C08)
# case: ''; solver: z3
# verifier output (counter-model):
#   choice_case = 66
I = {'case': 66}
OBLIGATION = 'Circuit.dealloc/dealloc/exactly-the-listed-modes-were-traced-out'

import sys
def violated(msg):
    print("REPLAY-VIOLATION", OBLIGATION, "-", msg)
    sys.exit(1)
from native.c08_fock_replay import replay; replay('dealloc', OBLIGATION, I)
