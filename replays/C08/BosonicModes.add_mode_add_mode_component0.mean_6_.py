#!/venv/bin/python
# replay for failed obligation 'BosonicModes.add_mode/add_mode/component0.mean[6]' (property C08)
# case: ''; solver: z3
# verifier output (counter-model):
#   choice_shape = 1
#   mu0_4_im = 0
#   mu0_4_re = 1
import sys
print('obligation BosonicModes.add_mode/add_mode/component0.mean[6] is not discharged on this tree; no failing concrete input was constructed')
print('no-failing-input-found')
sys.exit(1)
