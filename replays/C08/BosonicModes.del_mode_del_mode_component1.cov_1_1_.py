#!/venv/bin/python
# replay for failed obligation 'BosonicModes.del_mode/del_mode/component1.cov[1,1]' (property C08)
# case: ''; solver: z3
# verifier output (counter-model):
#   V1_1_1 = 2
#   choice_mode = 0
#   choice_shape = 0
import sys
print('obligation BosonicModes.del_mode/del_mode/component1.cov[1,1] is not discharged on this tree; no failing concrete input was constructed')
print('no-failing-input-found')
sys.exit(1)
