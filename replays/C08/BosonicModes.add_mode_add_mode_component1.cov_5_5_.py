#!/venv/bin/python
# replay for failed obligation 'BosonicModes.add_mode/add_mode/component1.cov[5,5]' (property C08)
# case: ''; solver: z3
# verifier output (counter-model):
#   choice_shape = 0
import sys
print('obligation BosonicModes.add_mode/add_mode/component1.cov[5,5] is not discharged on this tree; no failing concrete input was constructed')
print('no-failing-input-found')
sys.exit(1)
