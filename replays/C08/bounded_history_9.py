# replay of a bounded stand-in violation (C08): re-run native/c08_history.py
import sys
print("gaussian [['G0'], ['D0']]: building segment 1 changed the register of an earlier program from [0] to []")
print('REPLAY-VIOLATION')
sys.exit(1)
