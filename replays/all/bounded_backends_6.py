# replay of a bounded stand-in violation: re-run native/c01_backends.py
import sys
print("CZgate(-0.25,) | (q[1], q[0]) of 2 on fock: ('quad', 0, 1.57) = [0.1702, 1.4178], the documented action gives [-0.145, 1.4339]")
print('REPLAY-VIOLATION')
sys.exit(1)
