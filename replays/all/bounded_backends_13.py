# replay of a bounded stand-in violation: re-run native/c01_backends.py
import sys
print("MZgate(0.6, 0.9) | (q[2], q[0]) of 3 on fock: ('quad', 0, 0.0) = [0.0621, 0.7265], the documented action gives [-0.8669, 0.7054]")
print('REPLAY-VIOLATION')
sys.exit(1)
