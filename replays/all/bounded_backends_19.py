# replay of a bounded stand-in violation: re-run native/c01_backends.py
import sys
print("CXgate(0.3,).H | (q[2], q[0]) of 3 on fock: ('quad', 0, 0.0) = [0.0721, 0.9796], the documented action gives [-0.1404, 0.7883]")
print('REPLAY-VIOLATION')
sys.exit(1)
