# replay of a bounded stand-in violation: re-run native/c01_backends.py
import sys
print("Vacuum() | q[0] of 2 (mixed) on bosonic: ('quad', 1, 0.0) = [0.2938, 0.7237], the documented action gives [0.6304, 0.7237]")
print('REPLAY-VIOLATION')
sys.exit(1)
