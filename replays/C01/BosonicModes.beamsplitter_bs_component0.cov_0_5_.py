#!/venv/bin/python
# replay for failed obligation 'BosonicModes.beamsplitter/bs/component0.cov[0,5]' (property C01)
# case: ''; solver: z3
# verifier output (counter-model):
#   V0_0_1 = 0
#   V0_4_0 = -3
#   V0_4_5 = -1
#   V0_5_1 = 1/2
#   choice_pair = 1
#   choice_shape = 1
#   cs_c = -7/8
#   cs_c!1 = -0.6614378277?
#   cs_s = -0.4841229182?
#   cs_s!1 = -3/4
#   phi = 1
#   theta = 1
import sys
print('obligation BosonicModes.beamsplitter/bs/component0.cov[0,5] is not discharged on this tree; no failing concrete input was constructed')
print('no-failing-input-found')
sys.exit(1)
