# replay of a bounded stand-in violation: re-run native/c01_backends.py
import sys
print("BSgate(0.45, 0.7) | (q[0], q[1]) of 3 on bosonic: ('quad', 0, 0.0) = [0.8425, 0.7557], the documented action gives [-0.0591, 0.7557]")
print('REPLAY-VIOLATION')
sys.exit(1)
