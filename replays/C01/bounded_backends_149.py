# replay of a bounded stand-in violation: re-run native/c01_backends.py
import sys
print("CXgate(0.3,).H | (q[1], q[0]) of 3 on bosonic: ('quad', 0, 0.0) = [0.8132, 0.7709], the documented action gives [0.0061, 0.7709]")
print('REPLAY-VIOLATION')
sys.exit(1)
