# replay of a bounded stand-in violation: re-run native/c01_backends.py
import sys
print('Catstate(0.7, 1.1, p=1.75); Rgate; BSgate on bosonic/complex: quadrature moments / photon numbers [-0.1611, -0.0, 0.1565, 0.1763, 0.0737, -0.0685, 0.1664, 0.1181] differ from the fock simulator [-0.2213, -0.1268, 0.0382, -0.1842, -0.1592, -0.043, 0.1664, 0.1181]')
print('REPLAY-VIOLATION')
sys.exit(1)
