#!/venv/bin/python
# replay for failed obligation 'BosonicModes.beamsplitter/bs/component0.cov[3,2]' (property C01)
# case: ''; solver: z3
# verifier output (counter-model):
#   V0_0_0 = 0
#   V0_1_1 = 1
#   V0_1_2 = 1
#   V0_3_0 = -1
#   choice_pair = 2
#   choice_shape = 1
#   cs_c = -0.8660254037?
#   cs_c!1 = -0.8660254037?
#   cs_s = -1/2
#   cs_s!1 = -1/2
#   phi = 1
#   theta = 1
import sys
print('obligation BosonicModes.beamsplitter/bs/component0.cov[3,2] is not discharged on this tree; no failing concrete input was constructed')
print('no-failing-input-found')
sys.exit(1)
