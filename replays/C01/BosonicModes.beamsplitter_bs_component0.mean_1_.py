#!/venv/bin/python
# replay for failed obligation 'BosonicModes.beamsplitter/bs/component0.mean[1]' (property C01)
# case: ''; solver: z3
# verifier output (counter-model):
#   choice_pair = 1
#   choice_shape = 1
#   cs_c = 1/2
#   cs_c!1 = -0.8660254037?
#   cs_s = -0.8660254037?
#   cs_s!1 = -1/2
#   mu0_4_im = 1
#   mu0_4_re = 0
#   mu0_5_im = 1
#   mu0_5_re = 1
#   phi = 1
#   theta = 1
import sys
print('obligation BosonicModes.beamsplitter/bs/component0.mean[1] is not discharged on this tree; no failing concrete input was constructed')
print('no-failing-input-found')
sys.exit(1)
