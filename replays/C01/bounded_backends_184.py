# replay of a bounded stand-in violation: re-run native/c01_backends.py
import sys
print("ThermalLossChannel(0.6, 0.4) | q[0] of 3 on bosonic: ('quad', 0, 0.0) = [0.4849, 1.1559], the documented action gives [0.0481, 1.1559]")
print('REPLAY-VIOLATION')
sys.exit(1)
