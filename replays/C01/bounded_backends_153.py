# replay of a bounded stand-in violation: re-run native/c01_backends.py
import sys
print("CXgate(0.3,) | (q[2], q[0]) of 3 on bosonic: ('quad', 0, 0.0) = [0.5052, 0.813], the documented action gives [0.2647, 0.813]")
print('REPLAY-VIOLATION')
sys.exit(1)
