# replay of a bounded stand-in violation: re-run native/c01_backends.py
import sys
print("MZgate(0.6, 0.9) | (q[0], q[2]) of 3 on bosonic: ('quad', 0, 0.0) = [0.064, 1.1122], the documented action gives [-0.9332, 1.1122]")
print('REPLAY-VIOLATION')
sys.exit(1)
