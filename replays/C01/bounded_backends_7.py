# replay of a bounded stand-in violation: re-run native/c01_backends.py
import sys
print("S2gate(0.25, 0.5) | (q[2], q[0]) of 3 on fock: ('quad', 0, 0.0) = [0.0544, 0.6895], the documented action gives [0.3098, 0.8226]")
print('REPLAY-VIOLATION')
sys.exit(1)
