#!/venv/bin/python
# replay for failed obligation 'BosonicModes.beamsplitter/bs/component1.mean[3]' (property C01)
# case: ''; solver: z3
# verifier output (counter-model):
#   choice_pair = 1
#   choice_shape = 0
#   cs_c = 0
#   cs_c!1 = -0.8660254037?
#   cs_s = -1
#   cs_s!1 = -1/2
#   mu1_0_re = -1
#   mu1_1_re = 1
#   phi = 1
#   theta = 1
import sys
print('obligation BosonicModes.beamsplitter/bs/component1.mean[3] is not discharged on this tree; no failing concrete input was constructed')
print('no-failing-input-found')
sys.exit(1)
