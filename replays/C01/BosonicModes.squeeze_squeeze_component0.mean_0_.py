#!/venv/bin/python
# replay for failed obligation 'BosonicModes.squeeze/squeeze/component0.mean[0]' (property C01)
# case: ''; solver: z3
# verifier output (counter-model):
#   choice_mode = 0
#   choice_shape = 1
#   chsh_c = 3.1622776601?
#   chsh_s = -3
#   cs_c = 0
#   cs_s = -1
#   mu0_1_im = 0
#   mu0_1_re = -1
#   mu0_4_im = 1
#   mu0_4_re = 0
#   phi = 1
#   r = -1
import sys
print('obligation BosonicModes.squeeze/squeeze/component0.mean[0] is not discharged on this tree; no failing concrete input was constructed')
print('no-failing-input-found')
sys.exit(1)
