#!/venv/bin/python
# replay for failed obligation 'BosonicModes.beamsplitter/bs/component0.cov[0,3]' (property C01)
# case: ''; solver: z3
# verifier output (counter-model):
#   V0_4_3 = 1
#   choice_pair = 1
#   choice_shape = 1
#   cs_c = 0.8660254037?
#   cs_c!1 = -0.4841229182?
#   cs_s = -1/2
#   cs_s!1 = -7/8
#   phi = 1
#   theta = 1
import sys
print('obligation BosonicModes.beamsplitter/bs/component0.cov[0,3] is not discharged on this tree; no failing concrete input was constructed')
print('no-failing-input-found')
sys.exit(1)
