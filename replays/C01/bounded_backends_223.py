# replay of a bounded stand-in violation: re-run native/c01_backends.py
import sys
print("LossChannel(0.7,) | q[0] of 2 after Del | q[0] (indices shifted by one) on bosonic: ('quad', 0, 0.0) = [0.5237, 0.8085], the documented action gives [0.052, 0.8085]")
print('REPLAY-VIOLATION')
sys.exit(1)
