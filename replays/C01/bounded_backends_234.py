# replay of a bounded stand-in violation: re-run native/c01_backends.py
import sys
print("BSgate(0.45, 0.7) | (q[1], q[0]) of 3 on bosonic: ('quad', 0, 0.0) = [0.4272, 0.8305], the documented action gives [0.0652, 0.8305]")
print('REPLAY-VIOLATION')
sys.exit(1)
