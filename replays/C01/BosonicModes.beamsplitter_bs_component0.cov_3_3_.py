#!/venv/bin/python
# replay for failed obligation 'BosonicModes.beamsplitter/bs/component0.cov[3,3]' (property C01)
# case: ''; solver: z3
# verifier output (counter-model):
#   V0_0_1 = -1
#   V0_1_0 = -1
#   V0_1_3 = 1
#   V0_3_1 = -2
#   choice_pair = 2
#   choice_shape = 1
#   cs_c = 0.6614378277?
#   cs_c!1 = -0.6614378277?
#   cs_s = -3/4
#   cs_s!1 = -3/4
#   phi = 1
#   theta = 1
import sys
print('obligation BosonicModes.beamsplitter/bs/component0.cov[3,3] is not discharged on this tree; no failing concrete input was constructed')
print('no-failing-input-found')
sys.exit(1)
