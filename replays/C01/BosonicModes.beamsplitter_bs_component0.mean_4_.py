#!/venv/bin/python
# replay for failed obligation 'BosonicModes.beamsplitter/bs/component0.mean[4]' (property C01)
# case: ''; solver: z3
# verifier output (counter-model):
#   choice_pair = 1
#   choice_shape = 1
#   cs_c = 0.8660254037?
#   cs_c!1 = 1/2
#   cs_s = -1/2
#   cs_s!1 = -0.8660254037?
#   mu0_0_im = 1/8
#   mu0_1_im = 0
#   mu0_1_re = 1
#   phi = 1
#   theta = 1
import sys
print('obligation BosonicModes.beamsplitter/bs/component0.mean[4] is not discharged on this tree; no failing concrete input was constructed')
print('no-failing-input-found')
sys.exit(1)
