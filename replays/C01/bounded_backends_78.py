# replay of a bounded stand-in violation: re-run native/c01_backends.py
import sys
print("Fouriergate().H | q[0] of 2 (mixed) on bosonic: ('quad', 0, 0.0) = [-0.1269, 1.3806], the documented action gives [0.0126, 1.3806]")
print('REPLAY-VIOLATION')
sys.exit(1)
