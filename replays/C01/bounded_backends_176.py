# replay of a bounded stand-in violation: re-run native/c01_backends.py
import sys
print("MeasureHeterodyne(0.2, -0.3) | q[1] of 3 on bosonic: ('quad', 0, 0.0) = [0.629, 0.7258], the documented action gives [0.0723, 0.7258]")
print('REPLAY-VIOLATION')
sys.exit(1)
