# replay of a bounded stand-in violation: re-run native/c01_backends.py
import sys
print("S2gate(0.25, 0.5) | (q[1], q[0]) of 2 on fock: ('quad', 0, 0.0) = [0.0553, 0.6923], the documented action gives [0.2455, 0.8304]")
print('REPLAY-VIOLATION')
sys.exit(1)
