# replay of a bounded stand-in violation: re-run native/c01_backends.py
import sys
print('Catstate(0.8, 0.4, p=0.0); Rgate; BSgate on bosonic/complex: quadrature moments / photon numbers [0.0, 0.0, 0.0, 0.0, 0.0, 0.0, 0.2115, 0.15] differ from the fock simulator [0.0, 0.0, 0.0, 0.0, 0.0, 0.0, 0.2115, 0.15]')
print('REPLAY-VIOLATION')
sys.exit(1)
