# replay of a bounded stand-in violation: re-run native/c01_backends.py
import sys
print("CZgate(-0.25,) | (q[1], q[0]) of 3 on fock: ('quad', 0, 1.57) = [0.0593, 1.4172], the documented action gives [-0.0341, 1.4314]")
print('REPLAY-VIOLATION')
sys.exit(1)
