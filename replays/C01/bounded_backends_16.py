# replay of a bounded stand-in violation: re-run native/c01_backends.py
import sys
print("BSgate(0.45, 0.7).H | (q[1], q[0]) of 2 on bosonic: ('quad', 0, 0.0) = [0.6164, 0.7774], the documented action gives [-0.0573, 0.7774]")
print('REPLAY-VIOLATION')
sys.exit(1)
