# replay of a bounded stand-in violation: re-run native/c01_backends.py
import sys
print("MeasureHeterodyne(0.2, -0.3) | q[2] of 3 on bosonic: ('quad', 0, 0.0) = [0.6252, 0.7263], the documented action gives [0.0579, 0.7263]")
print('REPLAY-VIOLATION')
sys.exit(1)
