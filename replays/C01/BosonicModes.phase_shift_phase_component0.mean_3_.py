#!/venv/bin/python
# replay for failed obligation 'BosonicModes.phase_shift/phase/component0.mean[3]' (property C01)
# case: ''; solver: z3
# verifier output (counter-model):
#   choice_mode = 1
#   choice_shape = 1
#   cs_c = 0
#   cs_s = -1
#   mu0_2_im = 1
#   mu0_2_re = 1
#   phi = 1
import sys
print('obligation BosonicModes.phase_shift/phase/component0.mean[3] is not discharged on this tree; no failing concrete input was constructed')
print('no-failing-input-found')
sys.exit(1)
