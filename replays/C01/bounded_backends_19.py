# replay of a bounded stand-in violation: re-run native/c01_backends.py
import sys
print("CXgate(0.3,) | (q[0], q[1]) of 2 after Del | q[0] (indices shifted by one) on fock: raised ValueError: axes don't match array")
print('REPLAY-VIOLATION')
sys.exit(1)
