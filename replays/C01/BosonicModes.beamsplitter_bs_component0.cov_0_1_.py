#!/venv/bin/python
# replay for failed obligation 'BosonicModes.beamsplitter/bs/component0.cov[0,1]' (property C01)
# case: ''; solver: z3
# verifier output (counter-model):
#   V0_0_5 = -1/2048
#   V0_4_1 = -1/128
#   V0_4_4 = 25/64
#   V0_5_5 = 431/1024
#   choice_pair = 1
#   choice_shape = 1
#   cs_c = -15/16
#   cs_c!1 = -0.6614378277?
#   cs_s = -0.3479852726?
#   cs_s!1 = -3/4
#   phi = 1
#   theta = 1
import sys
print('obligation BosonicModes.beamsplitter/bs/component0.cov[0,1] is not discharged on this tree; no failing concrete input was constructed')
print('no-failing-input-found')
sys.exit(1)
