#!/venv/bin/python
# replay for failed obligation 'BosonicModes.squeeze/squeeze/component0.frame.mean[4]' (property C01)
# case: ''; solver: z3
# verifier output (counter-model):
#   choice_mode = 0
#   choice_shape = 1
#   chsh_c = 1.0680004681?
#   chsh_s = -3/8
#   cs_c = 0.9999923705?
#   cs_s = -1/256
#   mu0_0_im = 7/32
#   mu0_4_im = -1/1024
#   phi = 1
#   r = -1
import sys
print('obligation BosonicModes.squeeze/squeeze/component0.frame.mean[4] is not discharged on this tree; no failing concrete input was constructed')
print('no-failing-input-found')
sys.exit(1)
