# replay of a bounded stand-in violation: re-run native/c01_backends.py
import sys
print("Rgate(0.7,).H | q[0] of 2 on bosonic: ('quad', 0, 0.0) = [0.397, 1.0164], the documented action gives [0.0556, 1.0164]")
print('REPLAY-VIOLATION')
sys.exit(1)
