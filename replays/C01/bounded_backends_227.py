# replay of a bounded stand-in violation: re-run native/c01_backends.py
import sys
print("MeasureHomodyne(0.4, 0.35) | q[1] of 2 after Del | q[0] (indices shifted by one) on bosonic: ('quad', 0, 0.0) = [0.6305, 0.7258], the documented action gives [0.0505, 0.7258]")
print('REPLAY-VIOLATION')
sys.exit(1)
