#!/venv/bin/python
# replay for failed obligation 'GaussianModes.thermal_loss/thermal_loss/post.alpha' (property C01)
# case: 'i=k'; solver: z3
# verifier output (counter-model):
#   M_im = [else -> 4]
#   M_re = [else -> 3]
#   N_im = [else -> 0]
#   N_re = [else -> 2]
#   T = 0
#   active_isnone = [else -> False]
#   active_val = [0 -> 0, else -> Var(0)]
#   alpha_im = [else -> 7]
#   i = 0
#   j = 0
#   n = 1
#   nbar = 0
#   sqrt = 0
import sys
print('obligation GaussianModes.thermal_loss/thermal_loss/post.alpha is not discharged on this tree; no failing concrete input was constructed')
print('no-failing-input-found')
sys.exit(1)
