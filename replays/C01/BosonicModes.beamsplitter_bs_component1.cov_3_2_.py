#!/venv/bin/python
# replay for failed obligation 'BosonicModes.beamsplitter/bs/component1.cov[3,2]' (property C01)
# case: ''; solver: z3
# verifier output (counter-model):
#   V1_0_0 = 193/512
#   V1_1_1 = -513/2048
#   V1_1_2 = 9/16
#   V1_3_0 = -479/512
#   choice_pair = 1
#   choice_shape = 0
#   cs_c = 11/16
#   cs_c!1 = -0.8267972847?
#   cs_s = -0.7261843774?
#   cs_s!1 = -9/16
#   phi = 1
#   theta = 1
import sys
print('obligation BosonicModes.beamsplitter/bs/component1.cov[3,2] is not discharged on this tree; no failing concrete input was constructed')
print('no-failing-input-found')
sys.exit(1)
