# replay of a bounded stand-in violation: re-run native/c01_backends.py
import sys
print("MZgate(0.6, 0.9) | (q[1], q[0]) of 2 after Del | q[0] (indices shifted by one) on bosonic: ('quad', 0, 0.0) = [-0.1872, 0.7771], the documented action gives [-0.6715, 0.7771]")
print('REPLAY-VIOLATION')
sys.exit(1)
