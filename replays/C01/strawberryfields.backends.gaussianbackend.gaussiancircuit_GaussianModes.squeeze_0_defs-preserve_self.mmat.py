#!/venv/bin/python
# replay for failed obligation 'strawberryfields.backends.gaussianbackend.gaussiancircuit:GaussianModes.squeeze#0/defs-preserve/self.mmat' (property C01)
# case: 'e1!3=it|e0!3=k'; solver: z3
# verifier output (counter-model):
#   M_im = [else -> 4]
#   M_re = [else -> 3]
#   N_im = [else -> 0]
#   N_re = [(0, 1) -> -77273599475601/22654743675289600, else -> 2]
#   active_isnone = [else -> False]
#   active_val = [0 -> 0, else -> Var(0)]
#   chsh_c = 1.2642015529?
#   chsh_s = -99/128
#   cs_c = 1
#   cs_s = 0
#   done = [else -> False]
#   e0!3 = 0
#   e1!3 = 1
#   i = 0
#   j = 0
#   loopfork = True
#   n = 2
#   r = -1
import sys
print('obligation strawberryfields.backends.gaussianbackend.gaussiancircuit:GaussianModes.squeeze#0/defs-preserve/self.mmat is not discharged on this tree; no failing concrete input was constructed')
print('no-failing-input-found')
sys.exit(1)
