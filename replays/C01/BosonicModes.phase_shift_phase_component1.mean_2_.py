#!/venv/bin/python
# replay for failed obligation 'BosonicModes.phase_shift/phase/component1.mean[2]' (property C01)
# case: ''; solver: z3
# verifier output (counter-model):
#   choice_mode = 1
#   choice_shape = 0
#   cs_c = 0
#   cs_s = -1
#   mu1_3_im = 1
#   mu1_3_re = 1
#   phi = 1
import sys
print('obligation BosonicModes.phase_shift/phase/component1.mean[2] is not discharged on this tree; no failing concrete input was constructed')
print('no-failing-input-found')
sys.exit(1)
