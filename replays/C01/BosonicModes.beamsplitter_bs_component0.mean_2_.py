#!/venv/bin/python
# replay for failed obligation 'BosonicModes.beamsplitter/bs/component0.mean[2]' (property C01)
# case: ''; solver: z3
# verifier output (counter-model):
#   choice_pair = 2
#   choice_shape = 1
#   cs_c = 0
#   cs_c!1 = 0
#   cs_s = -1
#   cs_s!1 = -1
#   mu0_0_re = 0
#   mu0_1_re = 1
#   phi = 1
#   theta = 1
import sys
print('obligation BosonicModes.beamsplitter/bs/component0.mean[2] is not discharged on this tree; no failing concrete input was constructed')
print('no-failing-input-found')
sys.exit(1)
