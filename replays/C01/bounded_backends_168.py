# replay of a bounded stand-in violation: re-run native/c01_backends.py
import sys
print("MeasureHeterodyne(0.2, -0.3) | q[0] of 3 on bosonic: ('quad', 1, 0.0) = [0.6246, 0.6985], the documented action gives [0.1966, 0.6985]")
print('REPLAY-VIOLATION')
sys.exit(1)
