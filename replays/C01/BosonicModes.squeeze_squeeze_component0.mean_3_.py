#!/venv/bin/python
# replay for failed obligation 'BosonicModes.squeeze/squeeze/component0.mean[3]' (property C01)
# case: ''; solver: z3
# verifier output (counter-model):
#   choice_mode = 1
#   choice_shape = 1
#   chsh_c = 1.4142135623?
#   chsh_s = -1
#   cs_c = -0.8046495743?
#   cs_s = -19/32
#   mu0_3_im = 7
#   phi = 1
#   r = -1
import sys
print('obligation BosonicModes.squeeze/squeeze/component0.mean[3] is not discharged on this tree; no failing concrete input was constructed')
print('no-failing-input-found')
sys.exit(1)
