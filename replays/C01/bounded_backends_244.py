# replay of a bounded stand-in violation: re-run native/c01_backends.py
import sys
print("CXgate(0.3,) | (q[1], q[0]) of 3 on bosonic: ('quad', 0, 0.0) = [0.4387, 0.808], the documented action gives [0.1182, 0.808]")
print('REPLAY-VIOLATION')
sys.exit(1)
