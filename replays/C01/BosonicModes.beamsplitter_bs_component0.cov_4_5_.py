#!/venv/bin/python
# replay for failed obligation 'BosonicModes.beamsplitter/bs/component0.cov[4,5]' (property C01)
# case: ''; solver: z3
# verifier output (counter-model):
#   V0_0_0 = 4097/32768
#   V0_0_5 = -3583/4096
#   V0_1_1 = -1665/4096
#   V0_4_1 = 65537/131072
#   choice_pair = 1
#   choice_shape = 1
#   cs_c = 321/512
#   cs_c!1 = -0.8234541542?
#   cs_s = -0.7790569806?
#   cs_s!1 = -581/1024
#   phi = 1
#   theta = 1
import sys
print('obligation BosonicModes.beamsplitter/bs/component0.cov[4,5] is not discharged on this tree; no failing concrete input was constructed')
print('no-failing-input-found')
sys.exit(1)
