# replay of a bounded stand-in violation: re-run native/c01_backends.py
import sys
print("BSgate(0.45, 0.7).H | (q[1], q[0]) of 3 on bosonic: ('quad', 0, 0.0) = [0.7001, 0.7713], the documented action gives [0.0467, 0.7713]")
print('REPLAY-VIOLATION')
sys.exit(1)
