# replay of a bounded stand-in violation: re-run native/c01_backends.py
import sys
print("Rgate(0.7,) | q[0] of 2 after Del | q[0] (indices shifted by one) on fock: raised ValueError: axes don't match array")
print('REPLAY-VIOLATION')
sys.exit(1)
