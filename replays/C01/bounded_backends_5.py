# replay of a bounded stand-in violation: re-run native/c01_backends.py
import sys
print('Catstate(0.8, 0.4, p=0.5); Rgate; BSgate on bosonic/complex: quadrature moments / photon numbers [0.034, -0.2192, -0.3385, -0.1374, 0.0847, 0.2515, 0.3744, 0.2656] differ from the fock simulator [0.2192, -0.034, -0.2602, 0.2554, 0.0847, -0.13, 0.3744, 0.2656]')
print('REPLAY-VIOLATION')
sys.exit(1)
