#!/venv/bin/python
# replay for failed obligation 'Circuit.apply_twomode_gate/twomode_axes/kernel-sees-the-two-target-modes-in-operator-order' (property C01)
# case: ''; solver: z3
# verifier output (counter-model):
#   choice_case = 4
I = {'case': 4}
OBLIGATION = 'Circuit.apply_twomode_gate/twomode_axes/kernel-sees-the-two-target-modes-in-operator-order'

import sys
def violated(msg):
    print("REPLAY-VIOLATION", OBLIGATION, "-", msg)
    sys.exit(1)
from native.c01_backends import replay_axes; replay_axes(OBLIGATION, I)
