# replay of a bounded stand-in violation: re-run native/c01_backends.py
import sys
print("CXgate(0.3,) | (q[1], q[0]) of 2 after Del | q[0] (indices shifted by one) on bosonic: ('quad', 0, 0.0) = [0.5378, 0.8127], the documented action gives [0.2512, 0.8127]")
print('REPLAY-VIOLATION')
sys.exit(1)
