# replay of a bounded stand-in violation: re-run native/c01_backends.py
import sys
print("MeasureHeterodyne(0.2, -0.3) | q[0] of 2 (mixed) on bosonic: ('quad', 1, 0.0) = [0.2942, 0.7229], the documented action gives [0.6416, 0.7229]")
print('REPLAY-VIOLATION')
sys.exit(1)
