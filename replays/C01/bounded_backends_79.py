# replay of a bounded stand-in violation: re-run native/c01_backends.py
import sys
print("BSgate(0.45, 0.7) | (q[1], q[0]) of 2 (mixed) on bosonic: ('quad', 0, 0.0) = [0.5109, 0.8449], the documented action gives [0.1691, 0.8449]")
print('REPLAY-VIOLATION')
sys.exit(1)
