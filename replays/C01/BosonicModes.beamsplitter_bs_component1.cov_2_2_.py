#!/venv/bin/python
# replay for failed obligation 'BosonicModes.beamsplitter/bs/component1.cov[2,2]' (property C01)
# case: ''; solver: z3
# verifier output (counter-model):
#   V1_0_1 = -35839/65536
#   V1_0_2 = -1281/4096
#   V1_1_0 = 57345/131072
#   V1_2_0 = 4095/16384
#   choice_pair = 1
#   choice_shape = 0
#   cs_c = 23/32
#   cs_c!1 = -0.8046495743?
#   cs_s = -0.6952686081?
#   cs_s!1 = -19/32
#   phi = 1
#   theta = 1
import sys
print('obligation BosonicModes.beamsplitter/bs/component1.cov[2,2] is not discharged on this tree; no failing concrete input was constructed')
print('no-failing-input-found')
sys.exit(1)
