#!/venv/bin/python
# replay for failed obligation 'BosonicModes.squeeze/squeeze/component0.frame.mean[1]' (property C01)
# case: ''; solver: z3
# verifier output (counter-model):
#   choice_mode = 2
#   choice_shape = 1
#   chsh_c = 1.1792476415?
#   chsh_s = -5/8
#   cs_c = -13/16
#   cs_s = -0.5829611908?
#   mu0_1_im = 1
#   mu0_5_im = -1
#   phi = 1
#   r = -1
import sys
print('obligation BosonicModes.squeeze/squeeze/component0.frame.mean[1] is not discharged on this tree; no failing concrete input was constructed')
print('no-failing-input-found')
sys.exit(1)
