# replay of a bounded stand-in violation: re-run native/c01_backends.py
import sys
print("MeasureHomodyne(0.4, 0.35) | q[2] of 3 on bosonic: ('quad', 0, 0.0) = [0.6294, 0.726], the documented action gives [0.0459, 0.726]")
print('REPLAY-VIOLATION')
sys.exit(1)
