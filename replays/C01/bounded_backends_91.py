# replay of a bounded stand-in violation: re-run native/c01_backends.py
import sys
print("S2gate(0.25, 0.5) | (q[0], q[1]) of 2 on bosonic: ('quad', 0, 0.0) = [0.5611, 0.8304], the documented action gives [0.2455, 0.8304]")
print('REPLAY-VIOLATION')
sys.exit(1)
