#!/venv/bin/python
# replay for failed obligation 'BosonicModes.squeeze/squeeze/component0.mean[1]' (property C01)
# case: ''; solver: z3
# verifier output (counter-model):
#   choice_mode = 0
#   choice_shape = 1
#   chsh_c = 9/8
#   chsh_s = -0.5153882032?
#   cs_c = 63/256
#   cs_s = -0.9692460297?
#   mu0_0_im = 0
#   mu0_1_im = 2
#   phi = 1
#   r = -1
import sys
print('obligation BosonicModes.squeeze/squeeze/component0.mean[1] is not discharged on this tree; no failing concrete input was constructed')
print('no-failing-input-found')
sys.exit(1)
