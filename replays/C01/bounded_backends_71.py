# replay of a bounded stand-in violation: re-run native/c01_backends.py
import sys
print("Sgate(0.3, 0.8) | q[0] of 2 (mixed) on bosonic: ('quad', 0, 0.0) = [0.4938, 0.5634], the documented action gives [0.049, 0.5634]")
print('REPLAY-VIOLATION')
sys.exit(1)
