#!/venv/bin/python
# replay for failed obligation 'strawberryfields.backends.gaussianbackend.gaussiancircuit:GaussianModes.beamsplitter#0/defs-preserve/self.nmat' (property C01)
# case: 'e1!2=it|k|e0!2=l'; solver: z3
# verifier output (counter-model):
#   M_im = [(0, 0) -> 6,
#       (0, 2) -> 11,
#       (2, 0) -> 11,
#       (1, 2) -> 14,
#       (2, 1) -> 14,
#       else -> 9]
#   M_re = [(0, 0) -> 5,
#       (0, 2) -> 10,
#       (2, 0) -> 10,
#       (1, 2) -> 13,
#       (2, 1) -> 13,
#       else -> 8]
#   N_im = [(0, 1) -> 7,
#       (0, 2) -> -3,
#       (1, 0) -> -7,
#       (2, 0) -> 3,
#       else -> 0]
#   N_re = [(0, 0) -> 4, (1, 2) -> 12, (2, 1) -> 12, else -> 2]
#   active_isnone = [else -> False]
#   active_val = [1 -> 1, 2 -> 2, else -> Var(0)]
#   cs_c = 3/4
#   cs_c!1 = 0.7110662658?
#   cs_s = -0.6614378277?
#   cs_s!1 = 45/64
#   done = [else -> False]
#   e0!2 = 2
#   e1!2 = 0
#   i = 0
#   j = 0
#   k = 1
#   loopfork = True
#   n = 3
import sys
print('obligation strawberryfields.backends.gaussianbackend.gaussiancircuit:GaussianModes.beamsplitter#0/defs-preserve/self.nmat is not discharged on this tree; no failing concrete input was constructed')
print('no-failing-input-found')
sys.exit(1)
