#!/venv/bin/python
# replay for failed obligation 'BosonicModes.beamsplitter/bs/component1.mean[2]' (property C01)
# case: ''; solver: z3
# verifier output (counter-model):
#   choice_pair = 1
#   choice_shape = 0
#   cs_c = 15/16
#   cs_c!1 = -0.9682458365?
#   cs_s = -0.3479852726?
#   cs_s!1 = -1/4
#   mu1_0_re = 1
#   mu1_1_re = -1
#   phi = 1
#   theta = 1
import sys
print('obligation BosonicModes.beamsplitter/bs/component1.mean[2] is not discharged on this tree; no failing concrete input was constructed')
print('no-failing-input-found')
sys.exit(1)
