# replay of a bounded stand-in violation: re-run native/c01_backends.py
import sys
print('Catstate(0.8, 0.4, p=1.0); Rgate; BSgate on bosonic/real: quadrature moments / photon numbers [0.0, 0.0, 0.0, -0.0, -0.0, -0.0, 0.6628, 0.4702] differ from the fock simulator [0.0, -0.0, -0.0, 0.0, -0.0, -0.0, 0.6628, 0.4702]')
print('REPLAY-VIOLATION')
sys.exit(1)
