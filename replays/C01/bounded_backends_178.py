# replay of a bounded stand-in violation: re-run native/c01_backends.py
import sys
print("BSgate(0.45, 0.7) | (q[0], q[2]) of 3 on bosonic: ('quad', 0, 0.0) = [0.8008, 0.7095], the documented action gives [-0.391, 0.7095]")
print('REPLAY-VIOLATION')
sys.exit(1)
