# replay of a bounded stand-in violation: re-run native/c01_backends.py
import sys
print("BSgate(0.45, 0.7) | (q[0], q[1]) of 2 on bosonic: ('quad', 0, 0.0) = [0.7064, 0.742], the documented action gives [-0.2503, 0.742]")
print('REPLAY-VIOLATION')
sys.exit(1)
