# replay of a bounded stand-in violation: re-run native/c01_backends.py
import sys
print("S2gate(0.25, 0.5).H | (q[1], q[0]) of 3 on bosonic: ('quad', 0, 0.0) = [0.8148, 0.8147], the documented action gives [-0.0002, 0.8147]")
print('REPLAY-VIOLATION')
sys.exit(1)
