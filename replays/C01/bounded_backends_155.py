# replay of a bounded stand-in violation: re-run native/c01_backends.py
import sys
print("MZgate(0.6, 0.9) | (q[2], q[0]) of 3 on bosonic: ('quad', 0, 0.0) = [-0.2119, 0.7054], the documented action gives [-0.8669, 0.7054]")
print('REPLAY-VIOLATION')
sys.exit(1)
