# replay of a bounded stand-in violation: re-run native/c01_backends.py
import sys
print("BSgate(0.45, 0.7) | (q[2], q[0]) of 3 on bosonic: ('quad', 0, 0.0) = [0.533, 0.8742], the documented action gives [0.0582, 0.8742]")
print('REPLAY-VIOLATION')
sys.exit(1)
