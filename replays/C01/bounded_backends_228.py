# replay of a bounded stand-in violation: re-run native/c01_backends.py
import sys
print("MeasureHeterodyne(0.2, -0.3) | q[1] of 2 after Del | q[0] (indices shifted by one) on bosonic: ('quad', 0, 0.0) = [0.6349, 0.7256], the documented action gives [0.0661, 0.7256]")
print('REPLAY-VIOLATION')
sys.exit(1)
