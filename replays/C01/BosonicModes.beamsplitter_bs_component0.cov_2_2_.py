#!/venv/bin/python
# replay for failed obligation 'BosonicModes.beamsplitter/bs/component0.cov[2,2]' (property C01)
# case: ''; solver: z3
# verifier output (counter-model):
#   V0_0_1 = 0
#   V0_0_2 = 1
#   V0_1_0 = 1
#   V0_2_0 = 0
#   choice_pair = 2
#   choice_shape = 1
#   cs_c = 25/32
#   cs_c!1 = -0.8660254037?
#   cs_s = -0.6242182611?
#   cs_s!1 = -1/2
#   phi = 1
#   theta = 1
import sys
print('obligation BosonicModes.beamsplitter/bs/component0.cov[2,2] is not discharged on this tree; no failing concrete input was constructed')
print('no-failing-input-found')
sys.exit(1)
