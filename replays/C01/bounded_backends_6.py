# replay of a bounded stand-in violation: re-run native/c01_backends.py
import sys
print("S2gate(0.25, 0.5) | (q[1], q[0]) of 3 on fock: ('quad', 0, 0.0) = [0.0565, 0.6942], the documented action gives [0.1284, 0.832]")
print('REPLAY-VIOLATION')
sys.exit(1)
