# replay of a bounded stand-in violation: re-run native/c01_backends.py
import sys
print("Squeezed() | q[0] of 3 on bosonic: ('quad', 1, 0.0) = [0.6242, 0.6992], the documented action gives [0.1868, 0.6992]")
print('REPLAY-VIOLATION')
sys.exit(1)
