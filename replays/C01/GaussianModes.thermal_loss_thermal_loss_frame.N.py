#!/venv/bin/python
# replay for failed obligation 'GaussianModes.thermal_loss/thermal_loss/frame.N' (property C01)
# case: 'i=j|k'; solver: z3
# verifier output (counter-model):
#   M_im = [else -> 4]
#   M_re = [else -> 3]
#   N_im = [else -> 0]
#   N_re = [else -> 2]
#   T = 0
#   active_isnone = [else -> False]
#   active_val = [1 -> 1, else -> Var(0)]
#   i = 0
#   k = 1
#   n = 2
#   nbar = 1
#   sqrt = 0
import sys
print('obligation GaussianModes.thermal_loss/thermal_loss/frame.N is not discharged on this tree; no failing concrete input was constructed')
print('no-failing-input-found')
sys.exit(1)
