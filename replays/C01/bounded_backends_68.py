# replay of a bounded stand-in violation: re-run native/c01_backends.py
import sys
print("Xgate(0.4,).H | q[0] of 2 on bosonic: ('quad', 0, 0.0) = [0.226, 0.7265], the documented action gives [-0.3379, 0.7265]")
print('REPLAY-VIOLATION')
sys.exit(1)
