#!/venv/bin/python
# replay for failed obligation 'BosonicModes.loss/loss/component0.frame.cov[2,2]' (property C01)
# case: ''; solver: z3
# verifier output (counter-model):
#   T = 0
#   choice_mode = 2
#   choice_shape = 1
#   sqrt = 0
import sys
print('obligation BosonicModes.loss/loss/component0.frame.cov[2,2] is not discharged on this tree; no failing concrete input was constructed')
print('no-failing-input-found')
sys.exit(1)
