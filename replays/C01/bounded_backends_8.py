# replay of a bounded stand-in violation: re-run native/c01_backends.py
import sys
print("S2gate(0.25, 0.5) | (q[2], q[1]) of 3 on fock: ('quad', 0, 0.0) = [0.0564, 0.6663], the documented action gives [0.0621, 0.7265]")
print('REPLAY-VIOLATION')
sys.exit(1)
