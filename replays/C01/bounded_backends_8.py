# replay of a bounded stand-in violation: re-run native/c01_backends.py
import sys
print('Catstate(0.6, -0.7, p=0.3); Rgate; BSgate on bosonic/real: quadrature moments / photon numbers [-0.2365, -0.2737, -0.1518, 0.1337, 0.2333, 0.1954, 0.1169, 0.0829] differ from the fock simulator [-0.1094, -0.2619, -0.2588, 0.0, -0.1698, -0.2367, 0.1169, 0.0829]')
print('REPLAY-VIOLATION')
sys.exit(1)
