# replay of a bounded stand-in violation: re-run native/c01_backends.py
import sys
print("MZgate(0.6, 0.9) | (q[1], q[0]) of 3 on bosonic: ('quad', 0, 0.0) = [-0.449, 0.7992], the documented action gives [-0.2227, 0.7992]")
print('REPLAY-VIOLATION')
sys.exit(1)
