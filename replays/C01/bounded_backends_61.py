# replay of a bounded stand-in violation: re-run native/c01_backends.py
import sys
print("Rgate(0.7,) | q[0] of 2 (mixed) on bosonic: ('quad', 0, 0.0) = [0.5605, 0.9795], the documented action gives [0.0394, 0.9795]")
print('REPLAY-VIOLATION')
sys.exit(1)
