# replay of a bounded stand-in violation: re-run native/c01_backends.py
import sys
print("S2gate(0.25, 0.5).H | (q[0], q[2]) of 3 on bosonic: ('quad', 0, 0.0) = [0.7795, 0.805], the documented action gives [-0.1817, 0.805]")
print('REPLAY-VIOLATION')
sys.exit(1)
