# replay of a bounded stand-in violation: re-run native/c01_backends.py
import sys
print("CXgate(0.3,) | (q[2], q[0]) of 3 on fock: ('quad', 0, 0.0) = [0.0535, 0.5395], the documented action gives [0.2647, 0.813]")
print('REPLAY-VIOLATION')
sys.exit(1)
