# replay of a bounded stand-in violation: re-run native/c01_backends.py
import sys
print("MeasureHomodyne(0.4, 0.35) | q[0] of 2 on bosonic: ('quad', 1, 0.0) = [0.2883, 0.7229], the documented action gives [0.6393, 0.7229]")
print('REPLAY-VIOLATION')
sys.exit(1)
