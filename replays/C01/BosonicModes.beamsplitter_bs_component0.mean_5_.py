#!/venv/bin/python
# replay for failed obligation 'BosonicModes.beamsplitter/bs/component0.mean[5]' (property C01)
# case: ''; solver: z3
# verifier output (counter-model):
#   choice_pair = 1
#   choice_shape = 1
#   cs_c = -7/8
#   cs_c!1 = -0.8704892100?
#   cs_s = -0.4841229182?
#   cs_s!1 = -63/128
#   mu0_0_im = -1
#   mu0_1_im = 1
#   phi = 1
#   theta = 1
import sys
print('obligation BosonicModes.beamsplitter/bs/component0.mean[5] is not discharged on this tree; no failing concrete input was constructed')
print('no-failing-input-found')
sys.exit(1)
