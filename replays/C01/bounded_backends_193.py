# replay of a bounded stand-in violation: re-run native/c01_backends.py
import sys
print("Xgate(0.4,) | q[0] of 2 after Del | q[0] (indices shifted by one) on bosonic: ('quad', 0, 0.0) = [1.026, 0.7265], the documented action gives [0.4621, 0.7265]")
print('REPLAY-VIOLATION')
sys.exit(1)
