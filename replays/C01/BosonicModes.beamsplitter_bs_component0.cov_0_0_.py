#!/venv/bin/python
# replay for failed obligation 'BosonicModes.beamsplitter/bs/component0.cov[0,0]' (property C01)
# case: ''; solver: z3
# verifier output (counter-model):
#   V0_0_4 = 4095/16384
#   V0_4_0 = -1281/4096
#   V0_4_5 = -35839/65536
#   V0_5_4 = 57345/131072
#   choice_pair = 1
#   choice_shape = 1
#   cs_c = 23/32
#   cs_c!1 = -0.8046495743?
#   cs_s = -0.6952686081?
#   cs_s!1 = -19/32
#   phi = 1
#   theta = 1
import sys
print('obligation BosonicModes.beamsplitter/bs/component0.cov[0,0] is not discharged on this tree; no failing concrete input was constructed')
print('no-failing-input-found')
sys.exit(1)
