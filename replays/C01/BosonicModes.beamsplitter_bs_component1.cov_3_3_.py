#!/venv/bin/python
# replay for failed obligation 'BosonicModes.beamsplitter/bs/component1.cov[3,3]' (property C01)
# case: ''; solver: z3
# verifier output (counter-model):
#   V1_0_1 = -3
#   V1_1_0 = 1/2
#   V1_1_3 = 0
#   V1_3_1 = -1
#   choice_pair = 1
#   choice_shape = 0
#   cs_c = -7/8
#   cs_c!1 = -0.6614378277?
#   cs_s = -0.4841229182?
#   cs_s!1 = -3/4
#   phi = 1
#   theta = 1
import sys
print('obligation BosonicModes.beamsplitter/bs/component1.cov[3,3] is not discharged on this tree; no failing concrete input was constructed')
print('no-failing-input-found')
sys.exit(1)
