# replay of a bounded stand-in violation: re-run native/c01_backends.py
import sys
print("CXgate(0.3,).H | (q[1], q[0]) of 2 on bosonic: ('quad', 0, 0.0) = [0.7141, 0.7705], the documented action gives [-0.127, 0.7705]")
print('REPLAY-VIOLATION')
sys.exit(1)
