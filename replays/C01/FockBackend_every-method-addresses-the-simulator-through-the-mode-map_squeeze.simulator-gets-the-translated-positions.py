#!/venv/bin/python
# replay for failed obligation 'FockBackend/every-method-addresses-the-simulator-through-the-mode-map/squeeze.simulator-gets-the-translated-positions' (property C01)
# case: ''; solver: z3
# verifier output (counter-model):
#   choice_method = 19
import sys
print('obligation FockBackend/every-method-addresses-the-simulator-through-the-mode-map/squeeze.simulator-gets-the-translated-positions is not discharged on this tree; no failing concrete input was constructed')
print('no-failing-input-found')
sys.exit(1)
