#!/venv/bin/python
# replay for failed obligation 'BosonicModes.init_thermal/init_thermal/component0.cov[2,2]' (property C01)
# case: ''; solver: z3
# verifier output (counter-model):
#   choice_mode = 1
#   choice_shape = 1
#   nbar = 0
import sys
print('obligation BosonicModes.init_thermal/init_thermal/component0.cov[2,2] is not discharged on this tree; no failing concrete input was constructed')
print('no-failing-input-found')
sys.exit(1)
