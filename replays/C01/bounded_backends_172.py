# replay of a bounded stand-in violation: re-run native/c01_backends.py
import sys
print("Coherent() | q[1] of 3 on bosonic: ('quad', 0, 0.0) = [0.626, 0.7265], the documented action gives [0.0621, 0.7265]")
print('REPLAY-VIOLATION')
sys.exit(1)
