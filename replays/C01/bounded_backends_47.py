# replay of a bounded stand-in violation: re-run native/c01_backends.py
import sys
print("Dgate(0.35, 0.6) | q[0] of 2 (mixed) on bosonic: ('quad', 0, 0.0) = [1.2037, 0.7265], the documented action gives [0.6398, 0.7265]")
print('REPLAY-VIOLATION')
sys.exit(1)
