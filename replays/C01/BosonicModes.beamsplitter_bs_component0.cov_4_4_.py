#!/venv/bin/python
# replay for failed obligation 'BosonicModes.beamsplitter/bs/component0.cov[4,4]' (property C01)
# case: ''; solver: z3
# verifier output (counter-model):
#   V0_0_1 = -1/65536
#   V0_0_4 = 769/2048
#   V0_1_0 = -1825/8192
#   V0_4_0 = -31/32
#   choice_pair = 1
#   choice_shape = 1
#   cs_c = 1/4
#   cs_c!1 = -0.7261843774?
#   cs_s = -0.9682458365?
#   cs_s!1 = -11/16
#   phi = 1
#   theta = 1
import sys
print('obligation BosonicModes.beamsplitter/bs/component0.cov[4,4] is not discharged on this tree; no failing concrete input was constructed')
print('no-failing-input-found')
sys.exit(1)
