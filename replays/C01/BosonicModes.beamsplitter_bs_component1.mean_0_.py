#!/venv/bin/python
# replay for failed obligation 'BosonicModes.beamsplitter/bs/component1.mean[0]' (property C01)
# case: ''; solver: z3
# verifier output (counter-model):
#   choice_pair = 1
#   choice_shape = 0
#   cs_c = -7/8
#   cs_c!1 = 7/8
#   cs_s = -0.4841229182?
#   cs_s!1 = -0.4841229182?
#   mu1_2_im = -1
#   mu1_2_re = 0
#   mu1_3_im = 1
#   mu1_3_re = 1
#   phi = 1
#   theta = 1
import sys
print('obligation BosonicModes.beamsplitter/bs/component1.mean[0] is not discharged on this tree; no failing concrete input was constructed')
print('no-failing-input-found')
sys.exit(1)
