#!/venv/bin/python
# replay for failed obligation 'BosonicModes.beamsplitter/bs/component1.cov[1,0]' (property C01)
# case: ''; solver: z3
# verifier output (counter-model):
#   V1_1_2 = 65537/131072
#   V1_2_2 = 4097/32768
#   V1_3_0 = -3583/4096
#   V1_3_3 = -1665/4096
#   choice_pair = 1
#   choice_shape = 0
#   cs_c = 321/512
#   cs_c!1 = -0.8234541542?
#   cs_s = -0.7790569806?
#   cs_s!1 = -581/1024
#   phi = 1
#   theta = 1
import sys
print('obligation BosonicModes.beamsplitter/bs/component1.cov[1,0] is not discharged on this tree; no failing concrete input was constructed')
print('no-failing-input-found')
sys.exit(1)
