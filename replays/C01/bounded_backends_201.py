# replay of a bounded stand-in violation: re-run native/c01_backends.py
import sys
print("MZgate(0.6, 0.9) | (q[0], q[1]) of 2 after Del | q[0] (indices shifted by one) on bosonic: ('quad', 0, 0.0) = [-0.0953, 1.2098], the documented action gives [-0.5107, 1.2098]")
print('REPLAY-VIOLATION')
sys.exit(1)
