#!/venv/bin/python
# replay for failed obligation 'BosonicModes.beamsplitter/bs/component1.cov[0,1]' (property C01)
# case: ''; solver: z3
# verifier output (counter-model):
#   V1_0_3 = -24577/65536
#   V1_2_1 = -1/262144
#   V1_2_2 = 3073/8192
#   V1_3_3 = 16383/16384
#   choice_pair = 1
#   choice_shape = 0
#   cs_c = -1599/2048
#   cs_c!1 = -0.6614378277?
#   cs_s = -0.6248288874?
#   cs_s!1 = -3/4
#   phi = 1
#   theta = 1
import sys
print('obligation BosonicModes.beamsplitter/bs/component1.cov[0,1] is not discharged on this tree; no failing concrete input was constructed')
print('no-failing-input-found')
sys.exit(1)
