# replay of a bounded stand-in violation: re-run native/c01_backends.py
import sys
print("MeasureHomodyne(0.4, 0.35) | q[0] of 3 on bosonic: ('quad', 1, 0.0) = [0.6194, 0.6985], the documented action gives [0.1947, 0.6985]")
print('REPLAY-VIOLATION')
sys.exit(1)
