# replay of a bounded stand-in violation: re-run native/c01_backends.py
import sys
print("MZgate(0.6, 0.9) | (q[0], q[1]) of 3 on bosonic: ('quad', 0, 0.0) = [-0.1031, 1.2833], the documented action gives [-0.2436, 1.2833]")
print('REPLAY-VIOLATION')
sys.exit(1)
