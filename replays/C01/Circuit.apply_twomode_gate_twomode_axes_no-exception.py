#!/venv/bin/python
# replay for failed obligation 'Circuit.apply_twomode_gate/twomode_axes/no-exception' (property C01)
# case: ''; solver: z3
# verifier output (counter-model):
#   choice_case = 2
import sys
print('obligation Circuit.apply_twomode_gate/twomode_axes/no-exception is not discharged on this tree; no failing concrete input was constructed')
print('no-failing-input-found')
sys.exit(1)
