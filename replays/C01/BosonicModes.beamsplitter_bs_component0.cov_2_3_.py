#!/venv/bin/python
# replay for failed obligation 'BosonicModes.beamsplitter/bs/component0.cov[2,3]' (property C01)
# case: ''; solver: z3
# verifier output (counter-model):
#   V0_0_0 = 1
#   V0_0_3 = 1
#   V0_1_1 = 1/2
#   V0_2_1 = -1
#   choice_pair = 2
#   choice_shape = 1
#   cs_c = 1/2
#   cs_c!1 = -0.8660254037?
#   cs_s = -0.8660254037?
#   cs_s!1 = -1/2
#   phi = 1
#   theta = 1
import sys
print('obligation BosonicModes.beamsplitter/bs/component0.cov[2,3] is not discharged on this tree; no failing concrete input was constructed')
print('no-failing-input-found')
sys.exit(1)
