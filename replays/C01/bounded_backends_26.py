# replay of a bounded stand-in violation: re-run native/c01_backends.py
import sys
print("Sgate(0.3, 0.8).H | q[0] of 2 on bosonic: ('quad', 0, 0.0) = [0.8149, 1.225], the documented action gives [0.0809, 1.225]")
print('REPLAY-VIOLATION')
sys.exit(1)
