#!/venv/bin/python
# replay for failed obligation 'BosonicModes.loss/loss/component1.frame.cov[3,3]' (property C01)
# case: ''; solver: z3
# verifier output (counter-model):
#   T = 0
#   choice_mode = 0
#   choice_shape = 0
#   sqrt = 0
import sys
print('obligation BosonicModes.loss/loss/component1.frame.cov[3,3] is not discharged on this tree; no failing concrete input was constructed')
print('no-failing-input-found')
sys.exit(1)
