#!/venv/bin/python
# replay for failed obligation 'BosonicModes.beamsplitter/bs/component1.cov[0,3]' (property C01)
# case: ''; solver: z3
# verifier output (counter-model):
#   V1_0_1 = 1
#   V1_2_0 = -1
#   V1_2_3 = -1
#   V1_3_1 = -1
#   choice_pair = 1
#   choice_shape = 0
#   cs_c = 0.8660254037?
#   cs_c!1 = -0.4841229182?
#   cs_s = -1/2
#   cs_s!1 = -7/8
#   phi = 1
#   theta = 1
import sys
print('obligation BosonicModes.beamsplitter/bs/component1.cov[0,3] is not discharged on this tree; no failing concrete input was constructed')
print('no-failing-input-found')
sys.exit(1)
