# replay of a bounded stand-in violation (C11): re-run native/c11_compilers.py
import sys
print("gaussian_merge n=5 gates=[('Dgate', (0,)), ('Sgate', (2,)), ('Sgate', (3,)), ('Kgate', (0,)), ('Sgate', (0,)), ('BSgate', (1, 0)), ('S2gate', (0, 2)), ('S2gate', (1, 4)), ('Kgate', (3,)), ('Dgate', (0,)), ('Rgate', (2,))]: with the opaque gates interpreted as fixed unitaries the compiled program [('Dgate', [0]), ('Sgate', [3]), ('Kgate', [0]), ('Kgate', [3]), ('GaussianTransform', [0, 1, 2, 4]), ('Dgate', [0]), ('MeasureFock', [0, 1, 2, 3, 4])] computes something else (max difference 0.934)")
print('REPLAY-VIOLATION')
sys.exit(1)
