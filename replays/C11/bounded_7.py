# replay of a bounded stand-in violation (C11): re-run native/c11_compilers.py
import sys
print("passive n=6 modes=[5, 3, 4, 2, 1] gates=[('BSgate', (2, 4)), ('BSgate', (1, 2)), ('Interferometer', (1, 3)), ('BSgate', (5, 4)), ('MZgate', (5, 2)), ('BSgate', (5, 1)), ('BSgate', (4, 3)), ('BSgate', (4, 2)), ('BSgate', (4, 2)), ('Rgate', (5,)), ('Rgate', (2,)), ('PassiveChannel', (1,)), ('Rgate', (1,)), ('Rgate', (2,)), ('BSgate', (4, 2)), ('Rgate', (5,))]: compiled program leaves a different Gaussian state (max difference 0.69)")
print('REPLAY-VIOLATION')
sys.exit(1)
