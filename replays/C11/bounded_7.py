# replay of a bounded stand-in violation (C11): re-run native/c11_compilers.py
import sys
print("passive n=6 modes=[5, 4, 3] gates=[('Rgate', (5,)), ('BSgate', (4, 5)), ('Fouriergate', (4,)), ('MZgate', (4, 3)), ('MZgate', (4, 5)), ('BSgate', (3, 4)), ('BSgate', (5, 3)), ('BSgate', (5, 3)), ('MZgate', (4, 5)), ('BSgate', (4, 3)), ('BSgate', (5, 3)), ('BSgate', (5, 3)), ('Fouriergate', (4,)), ('Fouriergate', (5,))]: compile raised CircuitError: The operation Fouriergate cannot be used with the compiler 'passive'.")
print('REPLAY-VIOLATION')
sys.exit(1)
