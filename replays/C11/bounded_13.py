# replay of a bounded stand-in violation (C11): re-run native/c11_compilers.py
import sys
print("gaussian_merge n=3 gates=[('Dgate', (1,)), ('BSgate', (2, 0)), ('Kgate', (1,)), ('S2gate', (0, 2)), ('MZgate', (2, 1)), ('S2gate', (1, 0)), ('Rgate', (2,)), ('Vgate', (0,)), ('Dgate', (1,)), ('Dgate', (1,))]: with the opaque gates interpreted as fixed unitaries the compiled program [('Dgate', [1]), ('BSgate', [2, 0]), ('Kgate', [1]), ('Vgate', [0]), ('GaussianTransform', [0, 1, 2]), ('Dgate', [1]), ('MeasureFock', [0, 1, 2])] computes something else (max difference 0.287)")
print('REPLAY-VIOLATION')
sys.exit(1)
