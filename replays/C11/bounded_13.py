# replay of a bounded stand-in violation (C11): re-run native/c11_compilers.py
import sys
print('gaussian_unitary: a program with Rgate(0.4).H compiles to a different transformation (dagger ignored)')
print('REPLAY-VIOLATION')
sys.exit(1)
