# replay of a bounded stand-in violation (C11): re-run native/c11_compilers.py
import sys
print("gaussian_merge n=5 gates=[('Sgate', (3,)), ('S2gate', (0, 1)), ('Dgate', (3,)), ('Vgate', (2,)), ('BSgate', (4, 3)), ('Rgate', (0,)), ('CKgate', (2, 1)), ('MZgate', (2, 3)), ('Rgate', (4,)), ('Dgate', (2,)), ('Kgate', (1,)), ('MZgate', (2, 0)), ('MZgate', (1, 2))]: with the opaque gates interpreted as fixed unitaries the compiled program [('Vgate', [2]), ('GaussianTransform', [0, 1, 3, 4]), ('CKgate', [2, 1]), ('Dgate', [4]), ('Kgate', [1]), ('GaussianTransform', [0, 1, 2, 3]), ('Dgate', [0]), ('Dgate', [1]), ('Dgate', [2]), ('Dgate', [3]), ('MeasureFock', [0, 1, 2, 3, 4])] computes something else (max difference 0.155)")
print('REPLAY-VIOLATION')
sys.exit(1)
