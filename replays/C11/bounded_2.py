# replay of a bounded stand-in violation (C11): re-run native/c11_compilers.py
import sys
print("passive n=4 modes=[3, 2] gates=[('BSgate', (3, 2)), ('Rgate', (3,)), ('Rgate', (3,)), ('BSgate', (3, 2)), ('Interferometer', (3, 2)), ('MZgate', (3, 2)), ('MZgate', (3, 2)), ('MZgate', (3, 2)), ('Rgate', (3,)), ('PassiveChannel', (3,)), ('BSgate', (3, 2)), ('BSgate', (3, 2))]: compiled program leaves a different Gaussian state (max difference 0.574)")
print('REPLAY-VIOLATION')
sys.exit(1)
