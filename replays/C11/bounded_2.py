# replay of a bounded stand-in violation (C11): re-run native/c11_compilers.py
import sys
print("gaussian_merge n=3 gates=[('Rgate', (0,)), ('CKgate', (1, 2)), ('BSgate', (1, 2)), ('BSgate', (2, 0)), ('Kgate', (0,)), ('Sgate', (1,))]: running the compiled program raised ValueError: The input matrix is not unitary")
print('REPLAY-VIOLATION')
sys.exit(1)
