# replay of a bounded stand-in violation (C11): re-run native/c11_compilers.py
import sys
print("gaussian_merge n=4 gates=[('BSgate', (2, 1)), ('Sgate', (3,)), ('S2gate', (2, 3)), ('Vgate', (1,)), ('BSgate', (3, 2)), ('MZgate', (2, 3)), ('BSgate', (0, 1)), ('Kgate', (1,)), ('S2gate', (0, 2)), ('Rgate', (1,)), ('Dgate', (3,)), ('Vgate', (0,)), ('BSgate', (1, 0)), ('S2gate', (3, 1)), ('Kgate', (1,)), ('MZgate', (0, 1)), ('Sgate', (2,)), ('MZgate', (3, 2))]: compile raised NetworkXUnfeasible: Graph contains a cycle or graph changed during iteration")
print('REPLAY-VIOLATION')
sys.exit(1)
