# replay of a bounded stand-in violation (C11): re-run native/c11_compilers.py
import sys
print("passive n=6 modes=[5, 3, 4, 0, 1, 2] gates=[('Interferometer', (4, 5)), ('MZgate', (0, 4)), ('MZgate', (2, 3)), ('Rgate', (3,)), ('BSgate', (1, 5)), ('Rgate', (4,)), ('Rgate', (4,)), ('BSgate', (4, 0)), ('BSgate', (2, 4)), ('BSgate', (0, 4)), ('BSgate', (0, 3)), ('PassiveChannel', (5,)), ('Rgate', (1,)), ('BSgate', (1, 0)), ('Rgate', (0,)), ('Rgate', (5,))]: compiled program leaves a different Gaussian state (max difference 0.317)")
print('REPLAY-VIOLATION')
sys.exit(1)
