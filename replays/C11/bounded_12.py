# replay of a bounded stand-in violation (C11): re-run native/c11_compilers.py
import sys
print("passive n=6 modes=[0, 5, 2] gates=[('Rgate', (2,)), ('Fouriergate', (5,)), ('Rgate', (5,)), ('BSgate', (2, 5)), ('BSgate', (0, 5)), ('Rgate', (2,)), ('BSgate', (5, 2)), ('MZgate', (0, 5)), ('BSgate', (5, 2)), ('BSgate', (2, 5)), ('BSgate', (2, 0)), ('Rgate', (2,)), ('Rgate', (0,)), ('Rgate', (2,)), ('LossChannel', (0,))]: compile raised CircuitError: The operation Fouriergate cannot be used with the compiler 'passive'.")
print('REPLAY-VIOLATION')
sys.exit(1)
