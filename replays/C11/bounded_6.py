# replay of a bounded stand-in violation (C11): re-run native/c11_compilers.py
import sys
print("passive n=4 modes=[2, 1] gates=[('BSgate', (2, 1)), ('BSgate', (1, 2)), ('Rgate', (1,)), ('BSgate', (2, 1)), ('BSgate', (2, 1)), ('Fouriergate', (1,)), ('Fouriergate', (2,)), ('Rgate', (1,)), ('BSgate', (2, 1)), ('BSgate', (2, 1)), ('LossChannel', (2,))]: compile raised CircuitError: The operation Fouriergate cannot be used with the compiler 'passive'.")
print('REPLAY-VIOLATION')
sys.exit(1)
