# replay of a bounded stand-in violation (C11): re-run native/c11_compilers.py
import sys
print("passive n=4 modes=[2, 1, 0, 3] gates=[('BSgate', (2, 3)), ('Rgate', (0,)), ('PassiveChannel', (1, 0, 3)), ('Rgate', (2,)), ('MZgate', (1, 3)), ('Rgate', (3,)), ('MZgate', (3, 1)), ('MZgate', (2, 0)), ('Interferometer', (3, 2, 1)), ('BSgate', (1, 0)), ('BSgate', (2, 1)), ('Rgate', (0,))]: compiled program leaves a different Gaussian state (max difference 0.0882)")
print('REPLAY-VIOLATION')
sys.exit(1)
