# replay of a bounded stand-in violation (C11): re-run native/c11_compilers.py
import sys
print("gaussian_merge n=4 gates=[('S2gate', (1, 0)), ('Dgate', (0,)), ('Sgate', (2,)), ('Rgate', (3,)), ('Vgate', (1,)), ('Dgate', (2,)), ('Rgate', (3,)), ('Rgate', (2,)), ('BSgate', (1, 3)), ('Kgate', (1,)), ('Dgate', (3,)), ('Kgate', (1,)), ('Sgate', (0,)), ('Sgate', (3,))]: with the opaque gates interpreted as fixed unitaries the compiled program [('GaussianTransform', [0, 1]), ('GaussianTransform', [2]), ('Dgate', [0]), ('Kgate', [1]), ('Dgate', [2]), ('Vgate', [1]), ('Kgate', [1]), ('GaussianTransform', [1, 3]), ('Dgate', [3]), ('MeasureFock', [0, 1, 2, 3])] computes something else (max difference 1.27)")
print('REPLAY-VIOLATION')
sys.exit(1)
