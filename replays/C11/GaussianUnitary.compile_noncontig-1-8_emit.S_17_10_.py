#!/venv/bin/python
# replay for failed obligation 'GaussianUnitary.compile/noncontig-1-8/emit.S[17,10]' (property C11)
# case: ''; solver: z3
# verifier output (counter-model):
#   c0p0 = -1
#   c0p1 = 0
#   c1p0 = 1
#   c1p1 = 0
#   c2p0 = -1/134217728
#   c2p1 = 0
#   chsh_c = 1.4142135623?
#   chsh_s = -1
#   cs_c = 1
#   cs_c!1 = -0.8660254037?
#   cs_c!2 = 1
#   cs_c!3 = 1
#   cs_s = 0
#   cs_s!1 = 1/2
#   cs_s!2 = 0
#   cs_s!3 = 0
#   sqrt = 1/134217728
import sys
print('obligation GaussianUnitary.compile/noncontig-1-8/emit.S[17,10] is not discharged on this tree; no failing concrete input was constructed')
print('no-failing-input-found')
sys.exit(1)
