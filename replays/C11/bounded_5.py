# replay of a bounded stand-in violation (C11): re-run native/c11_compilers.py
import sys
print("gaussian_merge n=5 gates=[('BSgate', (4, 2)), ('MZgate', (2, 0)), ('CKgate', (1, 3)), ('Dgate', (1,)), ('Sgate', (1,)), ('Sgate', (3,)), ('Vgate', (1,)), ('Rgate', (3,)), ('BSgate', (3, 0)), ('Kgate', (0,)), ('Rgate', (1,)), ('Dgate', (3,)), ('CKgate', (4, 3)), ('S2gate', (1, 2)), ('Dgate', (1,)), ('MZgate', (4, 2))]: with the opaque gates interpreted as fixed unitaries the compiled program [('CKgate', [1, 3]), ('Kgate', [0]), ('GaussianTransform', [1]), ('Dgate', [1]), ('Vgate', [1]), ('Rgate', [1]), ('GaussianTransform', [0, 1, 2, 3, 4]), ('Dgate', [3]), ('Dgate', [1]), ('CKgate', [4, 3]), ('MZgate', [4, 2]), ('MeasureFock', [0, 1, 2, 3, 4])] computes something else (max difference 0.727)")
print('REPLAY-VIOLATION')
sys.exit(1)
