# replay of a bounded stand-in violation (C11): re-run native/c11_compilers.py
import sys
print("passive n=4 modes=[1, 2] gates=[('BSgate', (2, 1)), ('Rgate', (2,)), ('Rgate', (2,)), ('Rgate', (1,)), ('Rgate', (1,)), ('Rgate', (1,)), ('BSgate', (2, 1)), ('MZgate', (2, 1)), ('Interferometer', (2, 1)), ('Rgate', (2,)), ('Rgate', (2,)), ('PassiveChannel', (1, 2)), ('LossChannel', (1,))]: compiled program leaves a different Gaussian state (max difference 0.16)")
print('REPLAY-VIOLATION')
sys.exit(1)
