# replay of a bounded stand-in violation (C11): re-run native/c11_compilers.py
import sys
print("gaussian_merge n=3 gates=[('Rgate', (1,)), ('MZgate', (0, 1)), ('Rgate', (1,)), ('Vgate', (1,)), ('Fouriergate', (0,)), ('MZgate', (0, 1)), ('MZgate', (0, 1)), ('Kgate', (2,)), ('Dgate', (0,)), ('BSgate', (0, 2)), ('BSgate', (0, 1))]: compiled program gives different reduced states on the fock backend (max difference 0.0362)")
print('REPLAY-VIOLATION')
sys.exit(1)
