# replay of a bounded stand-in violation (C11): re-run native/c11_compilers.py
import sys
print("gaussian_merge n=4 gates=[('Rgate', (1,)), ('Kgate', (2,)), ('S2gate', (3, 1)), ('Sgate', (1,)), ('MZgate', (3, 1)), ('MZgate', (1, 2)), ('Vgate', (1,)), ('Dgate', (2,)), ('MZgate', (2, 0)), ('Kgate', (2,)), ('Dgate', (1,)), ('Sgate', (0,))]: with the opaque gates interpreted as fixed unitaries the compiled program [('Kgate', [2]), ('Vgate', [1]), ('GaussianTransform', [0, 1, 2, 3]), ('Dgate', [0]), ('Dgate', [1]), ('Dgate', [2]), ('Kgate', [2]), ('MeasureFock', [0, 1, 2, 3])] computes something else (max difference 0.936)")
print('REPLAY-VIOLATION')
sys.exit(1)
