# replay of a bounded stand-in violation (C11): re-run native/c11_compilers.py
import sys
print("gaussian_merge n=5 gates=[('MZgate', (4, 3)), ('Rgate', (4,)), ('Vgate', (0,)), ('BSgate', (2, 4)), ('S2gate', (2, 3)), ('Dgate', (3,)), ('Kgate', (3,)), ('S2gate', (2, 1)), ('Sgate', (1,)), ('MZgate', (2, 1)), ('Dgate', (1,)), ('CKgate', (0, 1)), ('MZgate', (0, 1)), ('BSgate', (2, 4)), ('Rgate', (2,))]: with the opaque gates interpreted as fixed unitaries the compiled program [('Vgate', [0]), ('GaussianTransform', [1, 2, 3, 4]), ('Dgate', [1]), ('Dgate', [3]), ('CKgate', [0, 1]), ('Kgate', [3]), ('MZgate', [0, 1]), ('MeasureFock', [0, 1, 2, 3, 4])] computes something else (max difference 0.551)")
print('REPLAY-VIOLATION')
sys.exit(1)
