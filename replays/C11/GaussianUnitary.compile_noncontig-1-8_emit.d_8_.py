#!/venv/bin/python
# replay for failed obligation 'GaussianUnitary.compile/noncontig-1-8/emit.d[8]' (property C11)
# case: ''; solver: z3
# verifier output (counter-model):
#   /0 = [else ->
#       If(Or(And(Var(0) == 0, Var(1) == 1),
#             Not(And(Var(0) == -1, Var(1) == 1))),
#          0,
#          -1)]
#   atan2 = 1
#   c0p0 = -1
#   c0p1 = 0
#   c1p0 = 0
#   c1p1 = 0
#   c2p0 = -1
#   c2p1 = 0
#   chsh_c = 1.4142135623?
#   chsh_s = -1
#   cs_c = 1
#   cs_c!1 = 1
#   cs_c!2 = 1
#   cs_c!3 = 1
#   cs_s = 0
#   cs_s!1 = 0
#   cs_s!2 = 0
#   cs_s!3 = 0
#   sqrt = 1
import sys
print('obligation GaussianUnitary.compile/noncontig-1-8/emit.d[8] is not discharged on this tree; no failing concrete input was constructed')
print('no-failing-input-found')
sys.exit(1)
