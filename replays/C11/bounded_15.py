# replay of a bounded stand-in violation (C11): re-run native/c11_compilers.py
import sys
print("gaussian_merge on [('Sgate', (0,)), ('BSgate', (0, 1)), ('Dgate', (0,)), ('Kgate', (1,))]: the compiled program [('Kgate', [1]), ('GaussianTransform', [0, 1]), ('Dgate', [0]), ('MeasureFock', [0, 1])] computes something else (max difference 0.899)")
print('REPLAY-VIOLATION')
sys.exit(1)
