# replay of a bounded stand-in violation (C11): re-run native/c11_compilers.py
import sys
print("passive n=6 modes=[1, 3, 0, 4, 2] gates=[('Rgate', (3,)), ('Interferometer', (3, 4, 0)), ('Rgate', (4,)), ('MZgate', (4, 3)), ('BSgate', (0, 1)), ('MZgate', (0, 3)), ('PassiveChannel', (4, 1, 3)), ('BSgate', (1, 3)), ('Rgate', (2,)), ('Rgate', (0,)), ('BSgate', (1, 2)), ('BSgate', (1, 3)), ('BSgate', (0, 1)), ('BSgate', (0, 4)), ('Rgate', (2,)), ('MZgate', (4, 3)), ('LossChannel', (1,))]: compiled program leaves a different Gaussian state (max difference 0.254)")
print('REPLAY-VIOLATION')
sys.exit(1)
