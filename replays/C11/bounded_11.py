# replay of a bounded stand-in violation (C11): re-run native/c11_compilers.py
import sys
print("passive n=6 modes=[4, 0, 3, 1, 2, 5] gates=[('BSgate', (2, 5)), ('MZgate', (3, 2)), ('Fouriergate', (4,)), ('MZgate', (3, 5)), ('Fouriergate', (2,)), ('MZgate', (5, 4)), ('BSgate', (0, 5)), ('Fouriergate', (3,)), ('BSgate', (2, 0)), ('BSgate', (4, 0)), ('MZgate', (2, 4)), ('BSgate', (4, 5)), ('BSgate', (5, 4)), ('MZgate', (0, 5)), ('LossChannel', (4,))]: compile raised CircuitError: The operation Fouriergate cannot be used with the compiler 'passive'.")
print('REPLAY-VIOLATION')
sys.exit(1)
