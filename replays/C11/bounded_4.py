# replay of a bounded stand-in violation (C11): re-run native/c11_compilers.py
import sys
print("gaussian_merge n=4 gates=[('MZgate', (1, 3)), ('Dgate', (1,)), ('Dgate', (0,)), ('Sgate', (0,)), ('Vgate', (1,)), ('Dgate', (0,)), ('MZgate', (3, 2)), ('Sgate', (0,)), ('Vgate', (2,)), ('Dgate', (1,)), ('Dgate', (3,)), ('Kgate', (0,))]: with the opaque gates interpreted as fixed unitaries the compiled program [('Vgate', [2]), ('GaussianTransform', [0]), ('GaussianTransform', [1, 2, 3]), ('Dgate', [0]), ('Dgate', [3]), ('Dgate', [1]), ('Kgate', [0]), ('Vgate', [1]), ('Dgate', [1]), ('MeasureFock', [0, 1, 2, 3])] computes something else (max difference 0.821)")
print('REPLAY-VIOLATION')
sys.exit(1)
