# replay of a bounded stand-in violation (C11): re-run native/c11_compilers.py
import sys
print("passive n=4 modes=[3, 1] gates=[('PassiveChannel', (1, 3)), ('Rgate', (1,)), ('Rgate', (1,)), ('Rgate', (3,)), ('Rgate', (1,)), ('BSgate', (3, 1)), ('Rgate', (3,)), ('MZgate', (1, 3)), ('Interferometer', (3, 1)), ('MZgate', (1, 3)), ('Rgate', (3,)), ('MZgate', (3, 1))]: compiled program leaves a different Gaussian state (max difference 0.135)")
print('REPLAY-VIOLATION')
sys.exit(1)
