# replay of a bounded stand-in violation (C11): re-run native/c11_compilers.py
import sys
print("gaussian_merge n=3 gates=[('Zgate', (2,)), ('Dgate', (2,)), ('MZgate', (0, 1)), ('CKgate', (0, 1)), ('MZgate', (0, 1)), ('MZgate', (2, 0)), ('Kgate', (1,)), ('BSgate', (2, 1))]: compiled program gives different reduced states on the fock backend (max difference 0.029 at cutoff 7, 0.029 at cutoff 11)")
print('REPLAY-VIOLATION')
sys.exit(1)
