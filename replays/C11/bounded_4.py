# replay of a bounded stand-in violation (C11): re-run native/c11_compilers.py
import sys
print("gaussian_merge n=5 gates=[('MZgate', (1, 3)), ('Rgate', (2,)), ('Sgate', (1,)), ('Rgate', (0,)), ('CKgate', (3, 1)), ('Dgate', (0,)), ('Sgate', (1,)), ('MZgate', (1, 4)), ('BSgate', (0, 1)), ('CKgate', (0, 3)), ('Dgate', (2,)), ('Dgate', (4,)), ('Rgate', (3,)), ('Vgate', (3,)), ('Sgate', (0,)), ('BSgate', (1, 2)), ('Kgate', (3,)), ('S2gate', (4, 3)), ('S2gate', (4, 1))]: compile raised NetworkXUnfeasible: Graph contains a cycle or graph changed during iteration")
print('REPLAY-VIOLATION')
sys.exit(1)
