# replay of a bounded stand-in violation (C11): re-run native/c11_compilers.py
import sys
print("gaussian_merge n=4 gates=[('BSgate', (3, 1)), ('MZgate', (1, 3)), ('BSgate', (2, 0)), ('CKgate', (1, 2)), ('Sgate', (2,)), ('Dgate', (2,)), ('Kgate', (1,)), ('BSgate', (2, 3)), ('S2gate', (2, 1)), ('Dgate', (3,)), ('CKgate', (2, 1)), ('Sgate', (1,))]: compile raised NetworkXUnfeasible: Graph contains a cycle or graph changed during iteration")
print('REPLAY-VIOLATION')
sys.exit(1)
