# replay of a bounded stand-in violation (C11): re-run native/c11_compilers.py
import sys
print("passive n=4 modes=[0, 1, 3] gates=[('Rgate', (3,)), ('PassiveChannel', (1,)), ('MZgate', (3, 0)), ('Interferometer', (3, 0, 1)), ('Rgate', (1,)), ('Rgate', (3,)), ('BSgate', (0, 3)), ('MZgate', (1, 0)), ('MZgate', (1, 3)), ('BSgate', (3, 1)), ('BSgate', (1, 3)), ('Rgate', (0,))]: compiled program leaves a different Gaussian state (max difference 0.31)")
print('REPLAY-VIOLATION')
sys.exit(1)
