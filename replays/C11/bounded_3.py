# replay of a bounded stand-in violation (C11): re-run native/c11_compilers.py
import sys
print("gaussian_merge n=4 gates=[('S2gate', (3, 1)), ('S2gate', (1, 3)), ('S2gate', (1, 0)), ('CKgate', (0, 1)), ('Sgate', (2,)), ('Dgate', (3,)), ('Kgate', (0,)), ('Dgate', (2,)), ('Sgate', (3,))]: with the opaque gates interpreted as fixed unitaries the compiled program [('GaussianTransform', [2]), ('GaussianTransform', [0, 1, 3]), ('Dgate', [2]), ('Dgate', [3]), ('CKgate', [0, 1]), ('Kgate', [0]), ('MeasureFock', [0, 1, 2, 3])] computes something else (max difference 0.00299)")
print('REPLAY-VIOLATION')
sys.exit(1)
