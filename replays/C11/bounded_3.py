# replay of a bounded stand-in violation (C11): re-run native/c11_compilers.py
import sys
print("gaussian_merge n=3 gates=[('MZgate', (0, 2)), ('Xgate', (1,)), ('BSgate', (1, 2)), ('Vgate', (0,)), ('Rgate', (2,)), ('Xgate', (1,)), ('Sgate', (1,)), ('Kgate', (0,)), ('Sgate', (2,)), ('BSgate', (2, 0)), ('MZgate', (0, 1))]: compiled program gives different reduced states on the fock backend (max difference 0.0565 at cutoff 7, 0.0565 at cutoff 11)")
print('REPLAY-VIOLATION')
sys.exit(1)
