# replay of a bounded stand-in violation (C11): re-run native/c11_compilers.py
import sys
print("passive n=6 modes=[4, 2, 0, 5] gates=[('Rgate', (4,)), ('Rgate', (2,)), ('MZgate', (2, 5)), ('PassiveChannel', (4, 5, 2)), ('Interferometer', (4, 0)), ('Rgate', (2,)), ('Rgate', (5,)), ('BSgate', (5, 2)), ('MZgate', (4, 0)), ('BSgate', (2, 5)), ('Rgate', (4,)), ('Rgate', (5,)), ('Rgate', (5,)), ('BSgate', (0, 5)), ('BSgate', (2, 4)), ('MZgate', (0, 5))]: compiled program leaves a different Gaussian state (max difference 0.77)")
print('REPLAY-VIOLATION')
sys.exit(1)
