# replay of a bounded stand-in violation (C11): re-run native/c11_compilers.py
import sys
print("passive n=6 modes=[4, 1, 0, 2] gates=[('BSgate', (2, 0)), ('Fouriergate', (2,)), ('Rgate', (0,)), ('MZgate', (0, 1)), ('Rgate', (1,)), ('Rgate', (0,)), ('Rgate', (2,)), ('Fouriergate', (0,)), ('Fouriergate', (1,)), ('BSgate', (2, 1)), ('Fouriergate', (0,)), ('Rgate', (2,)), ('MZgate', (0, 2)), ('BSgate', (1, 2)), ('LossChannel', (4,))]: compile raised CircuitError: The operation Fouriergate cannot be used with the compiler 'passive'.")
print('REPLAY-VIOLATION')
sys.exit(1)
