# replay of a bounded stand-in violation (C11): re-run native/c11_compilers.py
import sys
print("passive n=6 modes=[5, 2, 4, 0, 1, 3] gates=[('Rgate', (4,)), ('MZgate', (2, 4)), ('MZgate', (4, 1)), ('Rgate', (3,)), ('Rgate', (4,)), ('Rgate', (5,)), ('Rgate', (5,)), ('Interferometer', (0, 5)), ('BSgate', (2, 3)), ('Rgate', (1,)), ('PassiveChannel', (1, 2)), ('BSgate', (4, 3)), ('MZgate', (4, 2)), ('Rgate', (4,)), ('BSgate', (1, 0)), ('BSgate', (1, 5))]: compiled program leaves a different Gaussian state (max difference 0.38)")
print('REPLAY-VIOLATION')
sys.exit(1)
