# replay of a bounded stand-in violation (C11): re-run native/c11_compilers.py
import sys
print("passive n=6 modes=[0, 5, 2] gates=[('BSgate', (2, 0)), ('BSgate', (0, 5)), ('Rgate', (0,)), ('Fouriergate', (2,)), ('Rgate', (2,)), ('Rgate', (5,)), ('MZgate', (0, 5)), ('Rgate', (0,)), ('MZgate', (0, 5)), ('MZgate', (2, 5)), ('MZgate', (0, 5)), ('Fouriergate', (2,)), ('MZgate', (0, 5)), ('MZgate', (2, 0))]: compile raised CircuitError: The operation Fouriergate cannot be used with the compiler 'passive'.")
print('REPLAY-VIOLATION')
sys.exit(1)
