# replay of a bounded stand-in violation (C11): re-run native/c11_compilers.py
import sys
print("gaussian_merge n=2 gates=[('S2gate', (0, 1)), ('Sgate', (1,)), ('Vgate', (0,)), ('MZgate', (0, 1)), ('BSgate', (1, 0)), ('Dgate', (0,)), ('Kgate', (0,)), ('Rgate', (1,)), ('MZgate', (1, 0)), ('MZgate', (1, 0)), ('Vgate', (0,))]: with the opaque gates interpreted as fixed unitaries the compiled program [('GaussianTransform', [0, 1]), ('Vgate', [0]), ('GaussianTransform', [0, 1]), ('Dgate', [0]), ('Kgate', [0]), ('GaussianTransform', [0, 1]), ('Vgate', [0]), ('MeasureFock', [0, 1])] computes something else (max difference 0.267)")
print('REPLAY-VIOLATION')
sys.exit(1)
