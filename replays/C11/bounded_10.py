# replay of a bounded stand-in violation (C11): re-run native/c11_compilers.py
import sys
print("passive n=6 modes=[0, 4] gates=[('Rgate', (0,)), ('BSgate', (0, 4)), ('MZgate', (0, 4)), ('MZgate', (4, 0)), ('Rgate', (4,)), ('MZgate', (4, 0)), ('Interferometer', (4, 0)), ('Rgate', (0,)), ('Rgate', (4,)), ('Rgate', (4,)), ('MZgate', (4, 0)), ('BSgate', (0, 4)), ('BSgate', (4, 0)), ('Rgate', (4,)), ('PassiveChannel', (4, 0)), ('BSgate', (4, 0)), ('LossChannel', (0,))]: compiled program leaves a different Gaussian state (max difference 0.236)")
print('REPLAY-VIOLATION')
sys.exit(1)
