# replay of a bounded stand-in violation (C11): re-run native/c11_compilers.py
import sys
print("gaussian_merge n=4 gates=[('BSgate', (1, 2)), ('BSgate', (1, 0)), ('S2gate', (1, 2)), ('Vgate', (2,)), ('Rgate', (2,)), ('Rgate', (2,)), ('S2gate', (1, 2)), ('CKgate', (0, 3)), ('Rgate', (3,)), ('MZgate', (0, 2)), ('BSgate', (3, 0)), ('Vgate', (2,)), ('Sgate', (1,)), ('Dgate', (3,)), ('Sgate', (0,))]: with the opaque gates interpreted as fixed unitaries the compiled program [('GaussianTransform', [0, 1, 2]), ('CKgate', [0, 3]), ('Vgate', [2]), ('Vgate', [2]), ('GaussianTransform', [0, 1, 2, 3]), ('Dgate', [3]), ('MeasureFock', [0, 1, 2, 3])] computes something else (max difference 1.87)")
print('REPLAY-VIOLATION')
sys.exit(1)
