# replay of a bounded stand-in violation (C11): re-run native/c11_compilers.py
import sys
print("passive n=6 modes=[4, 1] gates=[('MZgate', (4, 1)), ('MZgate', (1, 4)), ('Rgate', (4,)), ('Fouriergate', (4,)), ('Fouriergate', (1,)), ('MZgate', (1, 4)), ('Rgate', (4,)), ('MZgate', (4, 1)), ('BSgate', (1, 4)), ('Fouriergate', (4,)), ('BSgate', (4, 1)), ('Fouriergate', (1,)), ('MZgate', (1, 4)), ('Rgate', (4,)), ('LossChannel', (4,))]: compile raised CircuitError: The operation Fouriergate cannot be used with the compiler 'passive'.")
print('REPLAY-VIOLATION')
sys.exit(1)
