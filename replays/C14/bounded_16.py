# replay of a bounded stand-in violation (C14): re-run native/c14_io.py
import sys
print('generate_code GaussianTransform: the generated code does not run: SyntaxError: invalid syntax. Perhaps you forgot a comma? (<string>, line 7)')
print('REPLAY-VIOLATION')
sys.exit(1)
