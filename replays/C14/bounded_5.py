# replay of a bounded stand-in violation (C14): re-run native/c14_io.py
import sys
print('blackbird Xgate.H: command 0 (Xgate): dagger=True loaded as dagger=False')
print('REPLAY-VIOLATION')
sys.exit(1)
