# replay of a bounded stand-in violation (C14): re-run native/c14_io.py
import sys
print("generate_code free-parameters: the generated code does not run: NameError: name 'a' is not defined")
print('REPLAY-VIOLATION')
sys.exit(1)
