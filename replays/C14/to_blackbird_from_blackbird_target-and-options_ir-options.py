#!/venv/bin/python
# replay for failed obligation 'to_blackbird+from_blackbird/target-and-options/ir-options' (property C14)
# case: ''; solver: z3
# verifier output (counter-model):
#   cutoff = 1
#   shots = 1
import sys
print('obligation to_blackbird+from_blackbird/target-and-options/ir-options is not discharged on this tree; no failing concrete input was constructed')
print('no-failing-input-found')
sys.exit(1)
