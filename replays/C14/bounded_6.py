# replay of a bounded stand-in violation (C14): re-run native/c14_io.py
import sys
print("blackbird free-parameters: command 0 (Dgate): parameter 0 ('sym', ['a'], ['FreeParameter'], (0.37+0j)) loaded as ('str', '{a}')")
print('REPLAY-VIOLATION')
sys.exit(1)
