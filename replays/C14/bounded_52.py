# replay of a bounded stand-in violation (C14): re-run native/c14_io.py
import sys
print("generate_code multi-command-with-feed-forward: the generated code does not run: NameError: name 'q2' is not defined")
print('REPLAY-VIOLATION')
sys.exit(1)
