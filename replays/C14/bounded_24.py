# replay of a bounded stand-in violation (C14): re-run native/c14_io.py
import sys
print("generate_code MeasureHeterodyne(select): generated code rebuilds a different program: command 0 (MeasureHeterodyne): select ('num', (0.1+0.2j)) loaded as ('none',)")
print('REPLAY-VIOLATION')
sys.exit(1)
