# replay of a bounded stand-in violation (C14): re-run native/c14_io.py
import sys
print('blackbird BipartiteGraphEmbed: loading what was saved raised ValueError: Adjacency matrix [[ 0.1 0.3] [ 0.3 -0.2]] does not represent a bipartite graph')
print('REPLAY-VIOLATION')
sys.exit(1)
