# replay of a bounded stand-in violation (C14): re-run native/c14_io.py
import sys
print('generate_code Kgate.H: generated code rebuilds a different program: command 0 (Kgate): dagger=True loaded as dagger=False')
print('REPLAY-VIOLATION')
sys.exit(1)
