# replay of a bounded stand-in violation (C14): re-run native/c14_io.py
import sys
print("generate_code MeasureFock(select): generated code rebuilds a different program: command 0 (MeasureFock): select ('arr', (2,), array([1.+0.j, 2.+0.j])) loaded as ('none',)")
print('REPLAY-VIOLATION')
sys.exit(1)
