# replay of a bounded stand-in violation (C14): re-run native/c14_io.py
import sys
print('generate_code Catstate: generated code rebuilds a different program: command 0 (Catstate): parameter 3 (\'str\', \'complex\') loaded as (\'other\', "<class \'complex\'>")')
print('REPLAY-VIOLATION')
sys.exit(1)
