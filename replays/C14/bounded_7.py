# replay of a bounded stand-in violation (C14): re-run native/c14_io.py
import sys
print("blackbird measured-parameter-two-digit-mode: command 2 (Xgate): parameter 0 ('sym', ['q11'], ['MeasuredParameter'], (0.37+0j)) loaded as ('sym', ['q1'], ['MeasuredParameter'], (0.37+0j))")
print('REPLAY-VIOLATION')
sys.exit(1)
