# replay of a bounded stand-in violation: re-run native/c14_io.py
# Traceback (most recent call last):
#   File "/verif/native/c14_io.py", line 386, in <module>
#     msg, kind, loaded = roundtrip(label, n, build, ir)
#                         ^^^^^^^^^^^^^^^^^^^^^^^^^^^^^^
#   File "/verif/native/c14_io.py", line 274, in roundtrip
#     build(q, prog)
#   File "/verif/native/c14_io.py", line 167, in <lambda>
#     add("MeasureFock(select)", 2, lambda q, prog: ops.MeasureFock(select=[1, 2]) | (q[0], q[1]))
#                                                   ^^^^^^^^^^^^^^^^^^^^^^^^^^^^^^
#   File "/tmp/pyvc_mut_d8cwnsb0/strawberryfields/ops.py", line 1173, in __init__
#     if select is not None: raise ValueError("boom")
#                            ^^^^^^^^^^^^^^^^^^^^^^^^
# ValueError: boom
# 
# NATIVE-VIOLATION finding=F46 replay=/verif/replays/C14/bounded_1.py blackbird GKP: loading what was saved raised BlackbirdSyntaxError: Blackbird SyntaxError (line 4:5): [ is not a valid Blackbird symbol.
# NATIVE-VIOLATION finding=F43 replay=/verif/replays/C14/bounded_2.py blackbird Fouriergate: loading what was saved raised TypeError: Fouriergate.__init__() takes 1 positional argument but 2 were given
# NATIVE-VIOLATION finding=F44 replay=/verif/replays/C14/bounded_3.py blackbird BipartiteGraphEmbed: loading what was saved raised ValueError: Adjacency matrix [[ 0.1 0.3] [ 0.3 -0.2]] does not represent a bipartite graph
# bounded stand-in crashed
import sys
print('the library raised ValueError: boom at strawberryfields/ops.py:1173 (__init__) while the stand-in ran')
print('REPLAY-VIOLATION')
sys.exit(1)
