#!/venv/bin/python
# replay for failed obligation 'to_xir+from_xir_to_tdm/ir-roundtrip/twelve-loop-variables/roundtrip.array-9-is-array-9' (property C14)
# case: ''; solver: z3
# verifier output (counter-model):
import sys
print('obligation to_xir+from_xir_to_tdm/ir-roundtrip/twelve-loop-variables/roundtrip.array-9-is-array-9 is not discharged on this tree; no failing concrete input was constructed')
print('no-failing-input-found')
sys.exit(1)
