# replay of a bounded stand-in violation (C14): re-run native/c14_io.py
import sys
print('blackbird Fouriergate: loading what was saved raised TypeError: Fouriergate.__init__() takes 1 positional argument but 2 were given')
print('REPLAY-VIOLATION')
sys.exit(1)
