#!/venv/bin/python
# replay for failed obligation 'to_blackbird/dagger-representable/Rgate(x).H-and-Rgate(x)-have-different-IR' (property C14)
# case: ''; solver: z3
# verifier output (counter-model):
#   x = -1
import sys
print('obligation to_blackbird/dagger-representable/Rgate(x).H-and-Rgate(x)-have-different-IR is not discharged on this tree; no failing concrete input was constructed')
print('no-failing-input-found')
sys.exit(1)
