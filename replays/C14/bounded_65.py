# replay of a bounded stand-in violation (C14): re-run native/c14_io.py
import sys
print("blackbird BSgate.H: loading what was saved raised AttributeError: module 'strawberryfields' has no attribute 'loads'")
print('REPLAY-VIOLATION')
sys.exit(1)
