#!/venv/bin/python
# replay for failed obligation 'to_blackbird+from_blackbird/ir-roundtrip/roundtrip.cmd0.same-select' (property C14)
# case: ''; solver: z3
# verifier output (counter-model):
#   choice_op = 28
#   s_im = 0
#   s_re = 0
import sys
print('obligation to_blackbird+from_blackbird/ir-roundtrip/roundtrip.cmd0.same-select is not discharged on this tree; no failing concrete input was constructed')
print('no-failing-input-found')
sys.exit(1)
