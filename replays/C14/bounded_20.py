# replay of a bounded stand-in violation (C14): re-run native/c14_io.py
import sys
print("generate_code MeasureFock(dark_counts): generated code rebuilds a different program: command 0 (MeasureFock): dark_counts ('arr', (2,), array([0.1+0.j, 0.2+0.j])) loaded as ('none',)")
print('REPLAY-VIOLATION')
sys.exit(1)
