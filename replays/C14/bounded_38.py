# replay of a bounded stand-in violation (C14): re-run native/c14_io.py
import sys
print('generate_code CXgate.H: generated code rebuilds a different program: command 0 (CXgate): dagger=True loaded as dagger=False')
print('REPLAY-VIOLATION')
sys.exit(1)
