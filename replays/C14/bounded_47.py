# replay of a bounded stand-in violation (C14): re-run native/c14_io.py
import sys
print("generate_code free-parameter-function: the generated code does not run: NameError: name 'b' is not defined")
print('REPLAY-VIOLATION')
sys.exit(1)
