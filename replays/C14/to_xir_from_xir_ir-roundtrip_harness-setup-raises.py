# obligation to_xir+from_xir/ir-roundtrip/harness-setup-does-not-raise failed: the code under contract raised outside the call under test
# Traceback (most recent call last):
#   File "/verif/pyvc/check.py", line 140, in _run
#     eng.explore(body, label=prf.name)
#   File "/verif/pyvc/engine.py", line 82, in explore
#     body()
#   File "/verif/pyvc/check.py", line 136, in body
#     prf.fn(h)
#   File "/verif/contracts/c14_io.py", line 308, in _xir_roundtrip
#     prog, label = build(h)
#                   ^^^^^^^^
#   File "/verif/contracts/c14_io.py", line 122, in build
#     f(q)
#   File "/verif/native/c14_catalogue.py", line 33, in <lambda>
#     ("MeasureFock(select)", 2, lambda q: ops.MeasureFock(select=[h.int("s0", lo=0), h.int("s1", lo=0)]) | (q[0], q[1])),
#                                          ^^^^^^^^^^^^^^^^^^^^^^^^^^^^^^^^^^^^^^^^^^^^^^^^^^^^^^^^^^^^^^
#   File "/tmp/pyvc_mut_d8cwnsb0/strawberryfields/ops.py", line 1173, in __init__
#     if select is not None: raise ValueError("boom")
#                            ^^^^^^^^^^^^^^^^^^^^^^^^
# ValueError: boom
import sys
print('no-failing-input-found')
sys.exit(1)
