# replay of a bounded stand-in violation (C14): re-run native/c14_io.py
import sys
print("xir tdm-two-bands-dagger-select: loading what was saved raised TypeError: object of type 'int' has no len()")
print('REPLAY-VIOLATION')
sys.exit(1)
