# replay of a bounded stand-in violation (C14): re-run native/c14_io.py
import sys
print('generate_code Fourier: the generated code does not run: TypeError: Fouriergate.__init__() takes 1 positional argument but 2 were given')
print('REPLAY-VIOLATION')
sys.exit(1)
