# replay of a bounded stand-in violation (C14): re-run native/c14_io.py
import sys
print('blackbird compiled program: backend option cutoff_dim=6 loaded as {}')
print('REPLAY-VIOLATION')
sys.exit(1)
