# replay of a bounded stand-in violation (C14): re-run native/c14_io.py
import sys
print("blackbird tdm-single-band: saving raised KeyError: 'O'")
print('REPLAY-VIOLATION')
sys.exit(1)
