#!/venv/bin/python
# replay for failed obligation 'to_blackbird+from_blackbird/measured-parameter/loaded-parameter-depends-on-the-same-mode-of-the-loaded-program' (property C14)
# case: ''; solver: z3
# verifier output (counter-model):
#   choice_mode = 3
import sys
print('obligation to_blackbird+from_blackbird/measured-parameter/loaded-parameter-depends-on-the-same-mode-of-the-loaded-program is not discharged on this tree; no failing concrete input was constructed')
print('no-failing-input-found')
sys.exit(1)
