# replay of a bounded stand-in violation (C14): re-run native/c14_io.py
import sys
print('xir multi-command: loading what was saved raised TypeError: Strings cannot be passed to _listr().')
print('REPLAY-VIOLATION')
sys.exit(1)
