# replay of a bounded stand-in violation (C14): re-run native/c14_io.py
import sys
print('blackbird tdm-two-bands-dagger-select: N=[1, 2] loaded as [3]')
print('REPLAY-VIOLATION')
sys.exit(1)
