#!/venv/bin/python
# replay for failed obligation '_factor_out_pi/factor_out_pi/text-denotes-the-number' (property C14)
# case: ''; solver: z3
# verifier output (counter-model):
#   modq = -6
#   modr = 1/100000000
#   p = -3926990791987241/2500000000000000
#   rnd = -6
#   rnd!1 = -3
#   rnd!2 = -2
#   rnd!3 = -1
#   rnd!4 = -1
#   rnd!5 = 0
I = {'p': -1.5707963167948964}
OBLIGATION = '_factor_out_pi/factor_out_pi/text-denotes-the-number'

import sys
def violated(msg):
    print("REPLAY-VIOLATION", OBLIGATION, "-", msg)
    sys.exit(1)
from native.c14_replay import replay_factor; replay_factor(OBLIGATION, I)
