#!/venv/bin/python
# replay for failed obligation 'to_blackbird+from_blackbird/ir-roundtrip/to_blackbird.op0.select-carried' (property C14)
# case: ''; solver: z3
# verifier output (counter-model):
#   choice_op = 28
#   s_im = 0
#   s_re = 0
I = {'op': 28, 's': 0j}
OBLIGATION = 'to_blackbird+from_blackbird/ir-roundtrip/to_blackbird.op0.select-carried'

import sys
def violated(msg):
    print("REPLAY-VIOLATION", OBLIGATION, "-", msg)
    sys.exit(1)
from native.c14_replay import replay; replay('blackbird', OBLIGATION, I)
