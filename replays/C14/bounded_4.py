# replay of a bounded stand-in violation (C14): re-run native/c14_io.py
import sys
print("blackbird Del: loading what was saved raised KeyError: 'parentCtx'")
print('REPLAY-VIOLATION')
sys.exit(1)
