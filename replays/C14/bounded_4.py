# replay of a bounded stand-in violation (C14): re-run native/c14_io.py
import sys
print("blackbird MeasureHomodyne(select=0.0): command 0 (MeasureHomodyne): select ('num', 0j) loaded as ('none',)")
print('REPLAY-VIOLATION')
sys.exit(1)
