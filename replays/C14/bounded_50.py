# replay of a bounded stand-in violation (C14): re-run native/c14_io.py
import sys
print("generate_code multi-command: generated code rebuilds a different program: command 5 (MeasureHomodyne): select ('num', (0.1+0j)) loaded as ('none',)")
print('REPLAY-VIOLATION')
sys.exit(1)
