# replay of a bounded stand-in violation (C14): re-run native/c14_io.py
import sys
print("generate_code MeasureFock(select=0): generated code rebuilds a different program: command 0 (MeasureFock): select ('arr', (1,), array([0.+0.j])) loaded as ('none',)")
print('REPLAY-VIOLATION')
sys.exit(1)
