# replay of a bounded stand-in violation (C14): re-run native/c14_io.py
import sys
print('generate_code S2gate.H: generated code rebuilds a different program: command 0 (S2gate): dagger=True loaded as dagger=False')
print('REPLAY-VIOLATION')
sys.exit(1)
