#!/venv/bin/python
# replay for failed obligation 'to_xir+from_xir/ir-roundtrip/from_xir.no-exception' (property C14)
# case: ''; solver: z3
# verifier output (counter-model):
#   choice_op = 20
# native replay of the counter-model did not fail (rc=0): "table natively: TypeError('Strings cannot be passed to _listr().')\nnote: battery input raised in the replay harness: TypeError('Strings cannot be passed to _listr().')\nnote: battery input raised in the replay harness: TypeError('Strings cannot be passed to _listr().')\nno failing input among 81 tried"
import sys
print('obligation to_xir+from_xir/ir-roundtrip/from_xir.no-exception is not discharged on this tree; no failing concrete input was constructed')
print('no-failing-input-found')
sys.exit(1)
