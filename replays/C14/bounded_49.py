# replay of a bounded stand-in violation (C14): re-run native/c14_io.py
import sys
print("generate_code measured-parameter-expression: the generated code does not run: NameError: name 'np' is not defined")
print('REPLAY-VIOLATION')
sys.exit(1)
