# replay of a bounded stand-in violation (C14): re-run native/c14_io.py
import sys
print("xir compiled program: target 'fock' loaded as None")
print('REPLAY-VIOLATION')
sys.exit(1)
