# replay of a bounded stand-in violation (C14): re-run native/c14_io.py
import sys
print('blackbird GKP: loading what was saved raised BlackbirdSyntaxError: Blackbird SyntaxError (line 4:5): [ is not a valid Blackbird symbol.')
print('REPLAY-VIOLATION')
sys.exit(1)
