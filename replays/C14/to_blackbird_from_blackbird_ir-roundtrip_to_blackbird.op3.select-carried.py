#!/venv/bin/python
# replay for failed obligation 'to_blackbird+from_blackbird/ir-roundtrip/to_blackbird.op3.select-carried' (property C14)
# case: ''; solver: z3
# verifier output (counter-model):
#   choice_op = 30
#   s = 0
I = {'op': 30, 'r0': 0.0, 'r1': 0.0, 'p1': 0.0, 't': 0.0, 'p2': 0.0, 'phi': 0.0, 's': 0.0}
OBLIGATION = 'to_blackbird+from_blackbird/ir-roundtrip/to_blackbird.op3.select-carried'

import sys
def violated(msg):
    print("REPLAY-VIOLATION", OBLIGATION, "-", msg)
    sys.exit(1)
from native.c14_replay import replay; replay('blackbird', OBLIGATION, I)
