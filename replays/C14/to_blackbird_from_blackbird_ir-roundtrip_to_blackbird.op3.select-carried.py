#!/venv/bin/python
# replay for failed obligation 'to_blackbird+from_blackbird/ir-roundtrip/to_blackbird.op3.select-carried' (property C14)
# case: ''; solver: z3
# verifier output (counter-model):
#   choice_op = 29
#   s = 0
import sys
print('obligation to_blackbird+from_blackbird/ir-roundtrip/to_blackbird.op3.select-carried is not discharged on this tree; no failing concrete input was constructed')
print('no-failing-input-found')
sys.exit(1)
