# replay of a bounded stand-in violation (C14): re-run native/c14_io.py
import sys
print("xir MSgate: command 0 (MSgate): parameter 4 ('num', (1+0j)) loaded as ('str', 'True')")
print('REPLAY-VIOLATION')
sys.exit(1)
