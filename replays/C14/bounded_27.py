# replay of a bounded stand-in violation (C14): re-run native/c14_io.py
import sys
print('generate_code Del: the generated code does not run: IndexError: tuple index out of range')
print('REPLAY-VIOLATION')
sys.exit(1)
