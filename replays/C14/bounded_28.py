# replay of a bounded stand-in violation (C14): re-run native/c14_io.py
import sys
print('generate_code New: the generated code does not run: ValueError: Wrong number of subsystems.')
print('REPLAY-VIOLATION')
sys.exit(1)
