# replay of a bounded stand-in violation (C14): re-run native/c14_io.py
import sys
print("generate_code MeasureThreshold(select): generated code rebuilds a different program: command 0 (MeasureThreshold): select ('arr', (1,), array([1.+0.j])) loaded as ('none',)")
print('REPLAY-VIOLATION')
sys.exit(1)
