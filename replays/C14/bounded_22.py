# replay of a bounded stand-in violation (C14): re-run native/c14_io.py
import sys
print("generate_code MeasureHomodyne(select): generated code rebuilds a different program: command 0 (MeasureHomodyne): select ('num', (0.25+0j)) loaded as ('none',)")
print('REPLAY-VIOLATION')
sys.exit(1)
