#!/venv/bin/python
# replay for failed obligation 'to_blackbird+from_blackbird/ir-roundtrip/to_blackbird.op0.args-not-aliased' (property C14)
# case: ''; solver: z3
# verifier output (counter-model):
#   choice_op = 27
# native replay of the counter-model did not fail (rc=0): "rness: ValueError('The truth value of an array with more than one element is ambiguous. Use a.any() or a.all()')\nnote: battery input raised in the replay harness: ValueError('The truth value of an array with more than one element is ambiguous. Use a.any() or a.all()')\nno failing input among 81 tried"
import sys
print('obligation to_blackbird+from_blackbird/ir-roundtrip/to_blackbird.op0.args-not-aliased is not discharged on this tree; no failing concrete input was constructed')
print('no-failing-input-found')
sys.exit(1)
