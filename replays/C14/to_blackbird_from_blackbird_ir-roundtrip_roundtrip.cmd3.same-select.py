#!/venv/bin/python
# replay for failed obligation 'to_blackbird+from_blackbird/ir-roundtrip/roundtrip.cmd3.same-select' (property C14)
# case: ''; solver: z3
# verifier output (counter-model):
#   choice_op = 29
#   s = 0
import sys
print('obligation to_blackbird+from_blackbird/ir-roundtrip/roundtrip.cmd3.same-select is not discharged on this tree; no failing concrete input was constructed')
print('no-failing-input-found')
sys.exit(1)
