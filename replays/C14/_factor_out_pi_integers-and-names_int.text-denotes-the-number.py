#!/venv/bin/python
# replay for failed obligation '_factor_out_pi/integers-and-names/int.text-denotes-the-number' (property C14)
# case: ''; solver: z3+cvc5
# verifier output (counter-model):
# native replay of the counter-model did not fail (rc=0): 'no failing input among 243 tried'
import sys
print('obligation _factor_out_pi/integers-and-names/int.text-denotes-the-number is not discharged on this tree; no failing concrete input was constructed')
print('no-failing-input-found')
sys.exit(1)
